// Probe for property C05: SdJwtVc::issuer_metadata on a token whose `iss` is a non-hierarchical URL
// (e.g. a DID) must return an error, not panic.
use async_trait::async_trait;
use identity_core::common::Url;
use identity_core::convert::Base;
use identity_core::convert::BaseEncoding;
use identity_credential::sd_jwt_vc::resolver;
use identity_credential::sd_jwt_vc::Resolver;
use identity_credential::sd_jwt_vc::SdJwtVc;

struct NoResolver;
#[async_trait]
impl Resolver<Url, Vec<u8>> for NoResolver {
  async fn resolve(&self, id: &Url) -> Result<Vec<u8>, resolver::Error> {
    Err(resolver::Error::NotFound(id.to_string()))
  }
}

fn token(iss: &str) -> String {
  let header = r#"{"alg":"ES256","typ":"vc+sd-jwt"}"#;
  let payload = format!(r#"{{"iss":"{iss}","vct":"https://example.com/vct","_sd_alg":"sha-256"}}"#);
  format!(
    "{}.{}.{}~",
    BaseEncoding::encode(header.as_bytes(), Base::Base64Url),
    BaseEncoding::encode(payload.as_bytes(), Base::Base64Url),
    BaseEncoding::encode(b"sig", Base::Base64Url)
  )
}

#[tokio::test]
async fn https_issuer_is_fine() {
  let vc = SdJwtVc::parse(&token("https://example.com/issuer")).unwrap();
  assert!(vc.issuer_metadata(&NoResolver).await.unwrap().is_none());
}

#[tokio::test]
async fn did_issuer_must_not_panic() {
  let vc = SdJwtVc::parse(&token("did:example:123")).unwrap();
  let res = vc.issuer_metadata(&NoResolver).await;
  println!("{res:?}");
}
