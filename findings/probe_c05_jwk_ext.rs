// Probe for C05: TryFrom<jsonprooftoken Jwk> for identity_jose Jwk with a non-EC key.
// Copy to identity_jose/tests/ and run: cargo test --offline -p identity_jose --test probe_c05_jwk_ext -- --nocapture
use identity_jose::jwk::Jwk;
#[test]
fn okp_jwk_ext_into_jwk() {
  let ext: jsonprooftoken::jwk::key::Jwk = serde_json::from_str(r#"{"kty":"OKP","crv":"Ed25519","x":"11qYAYKxCrfVS_7TyWQHOg7hcvPapiMlrwIaaPcHURo"}"#).expect("ext jwk parses");
  let res = std::panic::catch_unwind(|| Jwk::try_from(ext).map(|j| j.kty()));
  println!("PROBE Jwk::try_from(OKP JwkExt) -> {:?}", res.as_ref().map_err(|_| "PANIC"));
  assert!(res.is_ok(), "TryFrom panicked instead of returning an error");
}
