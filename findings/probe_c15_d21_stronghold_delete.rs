// Probe for D21 (C15): append to identity_stronghold/src/tests/test_jwk_storage.rs and run
//   cargo test --offline -p identity_stronghold --lib probe_delete_unknown -- --nocapture
// Before fix 057e6ce the second and the last assertion fail (both deletions return Ok(())).
#[tokio::test]
async fn probe_delete_unknown() {
  use identity_storage::key_storage::KeyId;
  use identity_storage::KeyStorageErrorKind;
  let stronghold_storage = StrongholdStorage::new(create_stronghold_secret_manager());
  // the vault does not exist yet: reported correctly even before the fix
  assert!(matches!(stronghold_storage.delete(&KeyId::new("never-issued-0")).await.unwrap_err().kind(), KeyStorageErrorKind::KeyNotFound));
  let generated = stronghold_storage.generate(KeyType::new("Ed25519"), JwsAlgorithm::EdDSA).await.unwrap();
  // a never-issued key id, once the vault exists
  assert!(matches!(stronghold_storage.delete(&KeyId::new("never-issued-1")).await.unwrap_err().kind(), KeyStorageErrorKind::KeyNotFound));
  stronghold_storage.delete(&generated.key_id).await.unwrap();
  // an already deleted key id
  assert!(matches!(stronghold_storage.delete(&generated.key_id).await.unwrap_err().kind(), KeyStorageErrorKind::KeyNotFound));
}
