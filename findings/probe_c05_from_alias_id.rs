// Probe for C05/C17: IotaDID::from_alias_id with a string that is not a hex alias id.
// Copy to identity_iota_core/tests/ and run: cargo test --offline -p identity_iota_core --test probe_c05_from_alias_id -- --nocapture
use identity_iota_core::IotaDID;
use identity_iota_core::NetworkName;
#[test]
fn from_alias_id_garbage() {
  let net = NetworkName::try_from("smr").unwrap();
  let res = std::panic::catch_unwind(|| IotaDID::from_alias_id("not-hex", &net).to_string());
  println!("PROBE IotaDID::from_alias_id(\"not-hex\") -> {:?}", res.as_ref().map_err(|_| "PANIC"));
  assert!(res.is_ok(), "from_alias_id panicked");
}
