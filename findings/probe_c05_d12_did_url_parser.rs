// Probe for property C05 (finding D12): the did_url_parser 0.3.0 dependency skips one extra character
// after a percent-encoded triple, so a triple at the very end of the method id leaves its cursor past
// the end of the input and a later slice panics. Reached from CoreDID::parse, DIDUrl::parse, DIDUrl::join and the derived Deserialize of CoreDID.
use identity_did::CoreDID;
use identity_did::DIDUrl;
use std::panic::catch_unwind;

#[test]
fn core_did_parse_trailing_pct_triple() {
  let r = catch_unwind(|| CoreDID::parse("did:example:a%41").map(|d| d.to_string()));
  assert!(r.is_ok(), "CoreDID::parse panicked");
}

#[test]
fn did_url_parse_trailing_pct_triple() {
  let r = catch_unwind(|| DIDUrl::parse("did:example:a%41").map(|d| d.to_string()));
  assert!(r.is_ok(), "DIDUrl::parse panicked");
}

#[test]
fn did_url_join_on_accepted_did_with_trailing_pct_triple() {
  // `set_method_id` accepts "a%41" (a valid method id per the DID grammar); `join` then re-parses the base.
  let mut did = CoreDID::parse("did:example:123").unwrap();
  did.set_method_id("a%41").unwrap();
  let base = DIDUrl::new(did, None);
  let r = catch_unwind(|| base.join("/x").map(|d| d.to_string()));
  assert!(r.is_ok(), "DIDUrl::join panicked");
}

#[test]
fn core_did_deserialize_trailing_pct_triple() {
  // D12d: `#[serde(try_from = "BaseDIDUrl")]` — the derived Deserialize of CoreDID runs the dependency's own Deserialize, i.e. the
  // same parser, without passing through CoreDID::parse. Every type with a CoreDID member (documents, credentials, ...) inherits it.
  let r = catch_unwind(|| serde_json::from_str::<CoreDID>("\"did:example:a%41\"").map(|d| d.to_string()).map_err(|e| e.to_string()));
  assert!(r.is_ok(), "Deserialize for CoreDID panicked");
}
