// Demonstration for known findings D11 / D14 (property C17). Copy to identity_iota_core/tests/ and run
//   cargo test --offline -p identity_iota_core --test probe_c17_d11_d14 -- --nocapture
use identity_core::convert::FromJson;
use identity_document::document::CoreDocument;
use identity_iota_core::IotaDID;
use identity_iota_core::IotaDocument;

const TAG: &str = "0x80a1c4e0f3b2d5967788990011223344556677889900aabbccddeeff001122c6";

#[test]
fn d11_document_id_is_not_normalised() {
  let s = format!("did:iota:iota:{TAG}");
  let json = format!(r#"{{"doc":{{"id":"{s}"}},"meta":{{}}}}"#);
  let doc = IotaDocument::from_json(&json).expect("accepted");
  let parsed = IotaDID::parse(&s).unwrap();
  println!("doc.id() = {}  parsed = {}", doc.id(), parsed);
  // same network ("iota") and same tag, yet the two IotaDID values differ
  assert_eq!(doc.id().network_str(), parsed.network_str());
  assert_eq!(doc.id().tag_str(), parsed.tag_str());
  assert_ne!(doc.id(), &parsed, "D11: equal network and tag but unequal IotaDIDs");
}

#[test]
fn d14_from_core_document_yields_non_iota_did() {
  let core: CoreDocument = CoreDocument::from_json(r#"{"id":"did:example:123"}"#).unwrap();
  let doc: IotaDocument = IotaDocument::from(core);
  println!("doc.id() = {} method via IotaDID = {:?}", doc.id(), identity_did::DID::method(doc.id()));
  assert_ne!(identity_did::DID::method(doc.id()), "iota", "D14: an &IotaDID whose method is not iota");
}
