// Probe for D20 (C10): copy to identity_did/tests/probe_c10_d20.rs and run
//   cargo test --offline -p identity_did --test probe_c10_d20 -- --nocapture
// On the tree before the fix commit every assertion of `before_fix_*` holds (the strings are accepted and NOT reproduced);
// on the repaired tree `after_fix` holds instead.
use identity_did::DIDUrl;

fn reproduced(s: &str) -> Option<bool> {
  DIDUrl::parse(s).ok().map(|url| url.to_string() == s)
}

#[test]
fn after_fix() {
  // a query that itself begins with '?' is kept
  assert_eq!(reproduced("did:m:x??a"), Some(true));
  // a delimiter without content is rejected (as RelativeDIDUrl::set_query("?") / set_fragment("#") always were)
  assert_eq!(reproduced("did:m:x?"), None);
  assert_eq!(reproduced("did:m:x#"), None);
  assert_eq!(reproduced("did:m:x?#"), None);
  // unchanged
  assert_eq!(reproduced("did:m:x?a?b"), Some(true));
  assert_eq!(reproduced("did:m:x/p?q#f"), Some(true));
  assert_eq!(reproduced("did:m:x"), Some(true));
  let base = DIDUrl::parse("did:m:x").unwrap();
  assert_eq!(base.join("??a").unwrap().to_string(), "did:m:x??a");
  assert!(base.join("?").is_err());
  assert!(base.join("#").is_err());
}

// What the pinned tree did (kept for the record; fails on the repaired tree):
#[test]
#[ignore]
fn before_fix() {
  assert_eq!(DIDUrl::parse("did:m:x??a").unwrap().to_string(), "did:m:x?a");
  assert_eq!(DIDUrl::parse("did:m:x?").unwrap().to_string(), "did:m:x");
  assert_eq!(DIDUrl::parse("did:m:x#").unwrap().to_string(), "did:m:x");
}
