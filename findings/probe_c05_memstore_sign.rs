// Probe for C05/C15: JwkMemStore::sign with the key id of a stored BLS key and an Ed25519 public JWK.
// Copy to identity_storage/tests/ and run: cargo test --offline -p identity_storage --features jpt-bbs-plus --test probe_c05_memstore_sign -- --nocapture
use identity_storage::JwkMemStore;
use identity_storage::JwkStorage;
use identity_storage::JwkStorageBbsPlusExt;
use identity_verification::jose::jws::JwsAlgorithm;
use jsonprooftoken::jpa::algs::ProofAlgorithm;

#[tokio::test]
async fn sign_with_bls_key_id_and_ed25519_public_key() {
  let store = JwkMemStore::new();
  let ed = store.generate(JwkMemStore::ED25519_KEY_TYPE, JwsAlgorithm::EdDSA).await.unwrap();
  let bls = store.generate_bbs(JwkMemStore::BLS12381G2_KEY_TYPE, ProofAlgorithm::BLS12381_SHA256).await.unwrap();
  let handle = std::thread::spawn(move || {
    let rt = tokio::runtime::Builder::new_current_thread().build().unwrap();
    rt.block_on(async { store.sign(&bls.key_id, b"data", &ed.jwk).await.map(|s| s.len()) })
  });
  let res = handle.join();
  println!("PROBE sign(bls key id, ed25519 public jwk) -> {:?}", res.as_ref().map_err(|_| "PANIC"));
  assert!(res.is_ok(), "sign panicked instead of returning an error");
}
