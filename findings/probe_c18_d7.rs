// Demonstration for known finding D7 (property C18). Copy to identity_jose/tests/ and run
//   cargo test --offline -p identity_jose --test probe_c18_d7 -- --nocapture
use identity_jose::jwk::Jwk;
use identity_jose::jwk::JwkParams;
use identity_jose::jwk::JwkParamsOct;
use identity_jose::jwk::JwkType;

#[test]
fn d7_deserialize_uncoupled() {
  let jwk: Jwk = serde_json::from_str(r#"{"kty":"RSA","crv":"Ed25519","x":"AAAA"}"#).expect("accepted");
  println!("kty={:?} params.kty={:?}", jwk.kty(), jwk.params().kty());
  assert_eq!(jwk.kty(), JwkType::Rsa);
  assert_eq!(jwk.params().kty(), JwkType::Okp, "D7: declared key type differs from the parameter family");
}

#[test]
fn d7_set_params_unchecked_and_params_mut() {
  let mut jwk = Jwk::new(JwkType::Ec);
  jwk.set_params_unchecked(JwkParamsOct::new());
  assert_eq!((jwk.kty(), jwk.params().kty()), (JwkType::Ec, JwkType::Oct));
  let mut jwk = Jwk::new(JwkType::Okp);
  *jwk.params_mut() = JwkParams::Oct(JwkParamsOct::new());
  assert_eq!((jwk.kty(), jwk.params().kty()), (JwkType::Okp, JwkType::Oct));
}
