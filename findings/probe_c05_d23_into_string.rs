use identity_did::DID;
use identity_iota_core::{IotaDID, NetworkName};
#[test]
fn probe() {
  let did = IotaDID::new(&[1u8; 32], &NetworkName::try_from("smr").unwrap());
  let expected = did.to_string();
  let s: String = did.clone().into();
  assert_eq!(s, expected);
  assert_eq!(did.clone().into_string(), expected);
  assert_eq!(String::from(did), expected);
}
