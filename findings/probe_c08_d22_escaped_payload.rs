use identity_jose::jws::{Decoder, FlattenedJwsEncoder, GeneralJwsEncoder, JwsAlgorithm, JwsHeader, Recipient};

#[test]
fn probe() {
  for payload in [&b"plain"[..], &b"a\"b"[..], &b"a\\b"[..], &b"line\nbreak"[..], &b"{\"k\":1}"[..], "h\u{e9}".as_bytes()] {
    let mut header = JwsHeader::new();
    header.set_alg(JwsAlgorithm::EdDSA);
    header.set_b64(false);
    header.set_crit(["b64"]);
    let recipient = Recipient::new().protected(&header);
    let encoder = FlattenedJwsEncoder::new(payload, recipient, false).unwrap();
    let signed = encoder.signing_input().to_vec();
    let jws = encoder.into_jws(&[1u8; 64]).unwrap();
    let item = Decoder::new().decode_flattened_serialization(jws.as_bytes(), None).unwrap();
    println!("PROBE flattened {:?}: claims == payload: {}, signing input equal: {}", String::from_utf8_lossy(payload), item.claims() == payload, item.signing_input() == &signed[..]);
    let encoder = GeneralJwsEncoder::new(payload, recipient, false).unwrap();
    let signed = encoder.signing_input().to_vec();
    let jws = encoder.set_signature(&[1u8; 64]).into_jws().unwrap();
    for item in Decoder::new().decode_general_serialization(jws.as_bytes(), None).unwrap() {
      let item = item.unwrap();
      println!("PROBE general   {:?}: claims == payload: {}, signing input equal: {}", String::from_utf8_lossy(payload), item.claims() == payload, item.signing_input() == &signed[..]);
    }
  }
}
