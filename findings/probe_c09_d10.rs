// Demonstration for known finding D10 (property C09): a failing purge_method drops relationship references.
// (fault-injecting store wrappers taken from a seeded-change demonstration)
// Copy to identity_storage/tests/probe_c09_d10.rs and run
//   cargo test --offline -p identity_storage --test probe_c09_d10 -- --nocapture

use std::collections::BTreeSet;
use std::collections::HashMap;
use std::sync::Arc;
use std::sync::Mutex;

use async_trait::async_trait;
use identity_core::convert::FromJson;
use identity_did::DIDUrl;
use identity_document::document::CoreDocument;
use identity_iota_core::IotaDocument;
use identity_storage::JwkDocumentExt;
use identity_storage::JwkGenOutput;
use identity_storage::JwkMemStore;
use identity_storage::JwkStorage;
use identity_storage::JwkStorageDocumentError;
use identity_storage::JwsSignatureOptions;
use identity_storage::KeyId;
use identity_storage::KeyIdMemstore;
use identity_storage::KeyIdStorage;
use identity_storage::KeyIdStorageError;
use identity_storage::KeyIdStorageErrorKind;
use identity_storage::KeyIdStorageResult;
use identity_storage::KeyStorageError;
use identity_storage::KeyStorageErrorKind;
use identity_storage::KeyStorageResult;
use identity_storage::KeyType;
use identity_storage::MethodDigest;
use identity_storage::Storage;
use identity_verification::jose::jwk::Jwk;
use identity_verification::jose::jws::JwsAlgorithm;
use identity_verification::MethodRelationship;
use identity_verification::MethodScope;

// ---------------------------------------------------------------------------------------------------------------------
// Fault injection: every storage call is counted per operation name; a call whose (name, occurrence) pair is armed
// fails *before* touching the wrapped in-memory store.
// ---------------------------------------------------------------------------------------------------------------------

type Fault = (&'static str, usize);

#[derive(Clone, Default)]
struct Ctl(Arc<Mutex<CtlInner>>);

#[derive(Default)]
struct CtlInner {
  counts: HashMap<&'static str, usize>,
  armed: BTreeSet<Fault>,
  fired: BTreeSet<Fault>,
}

impl Ctl {
  /// Resets all call counters and arms the given faults.
  fn arm(&self, faults: &[Fault]) {
    let mut inner = self.0.lock().unwrap();
    inner.counts.clear();
    inner.fired.clear();
    inner.armed = faults.iter().copied().collect();
  }
  fn disarm(&self) {
    self.arm(&[]);
  }
  fn fired(&self) -> BTreeSet<Fault> {
    self.0.lock().unwrap().fired.clone()
  }
  /// Returns `true` if this call has to fail.
  fn tick(&self, op: &'static str) -> bool {
    let mut inner = self.0.lock().unwrap();
    let n = inner.counts.entry(op).or_insert(0);
    *n += 1;
    let this: Fault = (op, *n);
    if inner.armed.contains(&this) {
      inner.fired.insert(this);
      true
    } else {
      false
    }
  }
}

struct FaultyJwkStore {
  inner: JwkMemStore,
  ctl: Ctl,
}

struct FaultyKeyIdStore {
  inner: KeyIdMemstore,
  ctl: Ctl,
}

fn key_fault(op: &str) -> KeyStorageError {
  KeyStorageError::new(KeyStorageErrorKind::Unavailable).with_custom_message(format!("injected fault in {op}"))
}

fn key_id_fault(op: &str) -> KeyIdStorageError {
  KeyIdStorageError::new(KeyIdStorageErrorKind::Unavailable).with_custom_message(format!("injected fault in {op}"))
}

#[cfg_attr(not(feature = "send-sync-storage"), async_trait(?Send))]
#[cfg_attr(feature = "send-sync-storage", async_trait)]
impl JwkStorage for FaultyJwkStore {
  async fn generate(&self, key_type: KeyType, alg: JwsAlgorithm) -> KeyStorageResult<JwkGenOutput> {
    if self.ctl.tick("generate") {
      return Err(key_fault("generate"));
    }
    self.inner.generate(key_type, alg).await
  }
  async fn insert(&self, jwk: Jwk) -> KeyStorageResult<KeyId> {
    if self.ctl.tick("insert") {
      return Err(key_fault("insert"));
    }
    self.inner.insert(jwk).await
  }
  async fn sign(&self, key_id: &KeyId, data: &[u8], public_key: &Jwk) -> KeyStorageResult<Vec<u8>> {
    if self.ctl.tick("sign") {
      return Err(key_fault("sign"));
    }
    self.inner.sign(key_id, data, public_key).await
  }
  async fn delete(&self, key_id: &KeyId) -> KeyStorageResult<()> {
    if self.ctl.tick("delete") {
      return Err(key_fault("delete"));
    }
    self.inner.delete(key_id).await
  }
  async fn exists(&self, key_id: &KeyId) -> KeyStorageResult<bool> {
    if self.ctl.tick("exists") {
      return Err(key_fault("exists"));
    }
    self.inner.exists(key_id).await
  }
}

#[cfg_attr(not(feature = "send-sync-storage"), async_trait(?Send))]
#[cfg_attr(feature = "send-sync-storage", async_trait)]
impl KeyIdStorage for FaultyKeyIdStore {
  async fn insert_key_id(&self, method_digest: MethodDigest, key_id: KeyId) -> KeyIdStorageResult<()> {
    if self.ctl.tick("insert_key_id") {
      return Err(key_id_fault("insert_key_id"));
    }
    self.inner.insert_key_id(method_digest, key_id).await
  }
  async fn get_key_id(&self, method_digest: &MethodDigest) -> KeyIdStorageResult<KeyId> {
    if self.ctl.tick("get_key_id") {
      return Err(key_id_fault("get_key_id"));
    }
    self.inner.get_key_id(method_digest).await
  }
  async fn delete_key_id(&self, method_digest: &MethodDigest) -> KeyIdStorageResult<()> {
    if self.ctl.tick("delete_key_id") {
      return Err(key_id_fault("delete_key_id"));
    }
    self.inner.delete_key_id(method_digest).await
  }
}

type FaultyStorage = Storage<FaultyJwkStore, FaultyKeyIdStore>;

fn faulty_storage() -> (FaultyStorage, Ctl) {
  let ctl = Ctl::default();
  let storage = Storage::new(
    FaultyJwkStore {
      inner: JwkMemStore::new(),
      ctl: ctl.clone(),
    },
    FaultyKeyIdStore {
      inner: KeyIdMemstore::new(),
      ctl: ctl.clone(),
    },
  );
  (storage, ctl)
}

// ---------------------------------------------------------------------------------------------------------------------
// Documents
// ---------------------------------------------------------------------------------------------------------------------

const CORE_DOC_JSON: &str = r#"
{
  "id": "did:bar:Hyx62wPQGyvXCoihZq1BrbUjBRh2LuNxWiiqMkfAuSZr",
  "verificationMethod": [
    {
      "id": "did:bar:Hyx62wPQGyvXCoihZq1BrbUjBRh2LuNxWiiqMkfAuSZr#root",
      "controller": "did:bar:Hyx62wPQGyvXCoihZq1BrbUjBRh2LuNxWiiqMkfAuSZr",
      "type": "Ed25519VerificationKey2018",
      "publicKeyMultibase": "zHyx62wPQGyvXCoihZq1BrbUjBRh2LuNxWiiqMkfAuSZr"
    }
  ],
  "authentication": ["did:bar:Hyx62wPQGyvXCoihZq1BrbUjBRh2LuNxWiiqMkfAuSZr#root"]
}"#;

const IOTA_DOC_JSON: &str = r#"
{
  "doc": {
    "id": "did:iota:rms:0x7591a0bc872e3a4ab66228d65773961a7a95d2299ec8464331c80fcd86b35f38",
    "controller": "did:iota:rms:0xfbaaa919b51112d51a8f18b1500d98f0b2e91d793bc5b27fd5ab04cb1b806343"
  },
  "meta": {
    "created": "2023-01-25T15:48:09Z",
    "updated": "2023-01-25T15:48:09Z",
    "governorAddress": "rms1pra642gek5g394g63uvtz5qdnrct96ga0yautvnl6k4sfjcmsp35xv6nagu",
    "stateControllerAddress": "rms1pra642gek5g394g63uvtz5qdnrct96ga0yautvnl6k4sfjcmsp35xv6nagu"
  }
}"#;


#[tokio::test]
async fn d10_failed_purge_drops_references() {
  let (storage, ctl) = faulty_storage();
  let mut document: CoreDocument = CoreDocument::from_json(CORE_DOC_JSON).unwrap();
  let fragment: String = document
    .generate_method(&storage, JwkMemStore::ED25519_KEY_TYPE, JwsAlgorithm::EdDSA, Some("#key-1"), MethodScope::VerificationMethod)
    .await
    .unwrap();
  let id: DIDUrl = document.resolve_method(fragment.as_str(), None).unwrap().id().clone();
  assert!(document.attach_method_relationship(&id, MethodRelationship::Authentication).unwrap());
  assert!(document.attach_method_relationship(&id, MethodRelationship::AssertionMethod).unwrap());
  let before: CoreDocument = document.clone();
  // the first get_key_id call fails: purge_method returns an ordinary error (no UndoOperationFailed)
  ctl.arm(&[("get_key_id", 1)]);
  let err = document.purge_method(&storage, &id).await.unwrap_err();
  ctl.disarm();
  println!("purge_method error: {err:?}");
  assert!(!matches!(err, JwkStorageDocumentError::UndoOperationFailed { .. }));
  println!("authentication before {:?}", before.authentication().len());
  println!("authentication after  {:?}", document.authentication().len());
  assert_ne!(document, before, "D10: the document changed although purge_method failed");
  assert!(document.resolve_method(&id, Some(MethodScope::authentication())).is_none(), "D10: the authentication reference is gone");
  assert!(document.resolve_method(&id, Some(MethodScope::VerificationMethod)).is_some());
}
