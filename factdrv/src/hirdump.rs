//! Compact HIR expression tree per body, with names resolved through typeck results.
use crate::json::J;
use crate::names::{plain, qual, span_str, ty_head, ty_str};
use rustc_hir as hir;
use rustc_hir::def::{CtorOf, DefKind, Res};
use rustc_hir::def_id::LocalDefId;
use rustc_middle::ty::{self, TyCtxt, TypeVisitableExt, TypeckResults};

struct Cx<'tcx> {
  tcx: TyCtxt<'tcx>,
  tr: &'tcx TypeckResults<'tcx>,
  owner: LocalDefId,
}

pub fn dump_body<'tcx>(tcx: TyCtxt<'tcx>, def: LocalDefId) -> J {
  // closures share the typeck results of their root; they are inlined in the parent tree
  if matches!(tcx.def_kind(def), DefKind::Closure) {
    return J::Null;
  }
  let Some(body) = tcx.hir_maybe_body_owned_by(def) else { return J::Null };
  let tr = tcx.typeck(def);
  let cx = Cx { tcx, tr, owner: def };
  let params: Vec<J> = body.params.iter().map(|p| cx.pat(p.pat)).collect();
  crate::jobj! {
    "params": J::Arr(params),
    "value": cx.expr(body.value),
  }
}

impl<'tcx> Cx<'tcx> {
  fn node(&self, k: &str, e_span: rustc_span::Span, mut rest: Vec<(&'static str, J)>) -> J {
    let mut v = Vec::with_capacity(rest.len() + 3);
    v.push(("k", J::s(k)));
    v.push(("sp", J::s(span_str(self.tcx, e_span))));
    if e_span.from_expansion() {
      v.push(("exp", J::Bool(true)));
    }
    v.append(&mut rest);
    J::Obj(v)
  }

  fn res(&self, r: Res) -> J {
    match r {
      Res::Local(id) => crate::jobj! {
        "local": J::s(self.tcx.hir_name(id).to_string()),
        "id": J::Int(id.local_id.as_u32() as i128),
      },
      Res::Def(kind, did) => {
        let mut o = J::obj();
        o.push(("def", J::s(qual(self.tcx, did))));
        o.push(("dk", J::s(defkind_str(kind))));
        match kind {
          DefKind::Ctor(of, _) => {
            let p = self.tcx.parent(did);
            o.push(("ctor_of", J::s(plain(self.tcx, p))));
            if matches!(of, CtorOf::Variant) {
              o.push(("adt", J::s(plain(self.tcx, self.tcx.parent(p)))));
            } else {
              o.push(("adt", J::s(plain(self.tcx, p))));
            }
          }
          DefKind::Variant => {
            o.push(("adt", J::s(plain(self.tcx, self.tcx.parent(did)))));
          }
          DefKind::Const { .. } | DefKind::AssocConst { .. } if !did.is_local() => {
            // a constant of a dependency: its body is not in the facts, so carry the evaluated value (strings and integers)
            if self.tcx.generics_of(did).count() == 0 && self.tcx.generics_of(did).parent.map_or(true, |p| self.tcx.generics_of(p).count() == 0) {
              if let Ok(cv) = self.tcx.const_eval_poly(did) {
                match cv {
                  rustc_middle::mir::ConstValue::Slice { .. } => {
                    if let Some(bytes) = cv.try_get_slice_bytes_for_diagnostics(self.tcx) {
                      if let Ok(st) = std::str::from_utf8(bytes) {
                        o.push(("cstr", J::s(st.to_string())));
                      }
                    }
                  }
                  rustc_middle::mir::ConstValue::Scalar(_) => {
                    if let Some(si) = cv.try_to_scalar_int() {
                      o.push(("cint", J::Int(si.to_bits_unchecked() as i128)));
                    }
                  }
                  _ => {}
                }
              }
            }
          }
          _ => {}
        }
        J::Obj(o)
      }
      Res::SelfCtor(did) | Res::SelfTyAlias { alias_to: did, .. } => {
        let t = self.tcx.type_of(did).instantiate_identity().skip_norm_wip();
        crate::jobj! { "selfctor": J::s(ty_head(self.tcx, t)) }
      }
      Res::PrimTy(p) => crate::jobj! { "prim": J::s(p.name_str()) },
      other => crate::jobj! { "other": J::s(format!("{:?}", other)) },
    }
  }

  fn qpath(&self, q: &hir::QPath<'_>, id: hir::HirId) -> J {
    self.res(self.tr.qpath_res(q, id))
  }

  fn callee_info(&self, did: rustc_hir::def_id::DefId, hir_id: hir::HirId, o: &mut Vec<(&'static str, J)>) {
    let tcx = self.tcx;
    o.push(("fn", J::s(qual(tcx, did))));
    let args = self.tr.node_args(hir_id);
    if !args.is_empty() {
      let tys: Vec<J> = args.iter().filter_map(|a| a.as_type()).map(|t| J::s(ty_head(tcx, t))).collect();
      if !tys.is_empty() {
        o.push(("targs", J::Arr(tys)));
        // full (not just head) type arguments: `collect::<Result<OrderedSet<S>, E>>()` needs the inner target
        let full: Vec<J> = args.iter().filter_map(|a| a.as_type()).map(|t| J::s(ty_str(tcx, t))).collect();
        o.push(("targs_full", J::Arr(full)));
      }
    }
    // static dispatch when the callee is a trait method on a concrete type
    if let Some(tr_did) = tcx.trait_of_assoc(did) {
      o.push(("trait", J::s(plain(tcx, tr_did))));
      let env = ty::TypingEnv::non_body_analysis(tcx, self.owner);
      if !args.has_non_region_infer() && tcx.generics_of(did).count() == args.len() {
        if let Ok(Some(inst)) = ty::Instance::try_resolve(tcx, env, did, args) {
          let rd = inst.def_id();
          if rd != did {
            o.push(("resolved", J::s(qual(tcx, rd))));
          }
        }
      }
    }
  }

  fn lit(&self, l: &hir::Lit, neg: bool) -> J {
    use rustc_ast::ast::LitKind as L;
    match &l.node {
      L::Str(s, _) => crate::jobj! { "str": J::s(s.as_str().to_string()) },
      L::ByteStr(b, _) | L::CStr(b, _) => crate::jobj! { "bytes": J::Arr(b.as_byte_str().iter().map(|x| J::Int(*x as i128)).collect()) },
      L::Byte(b) => crate::jobj! { "int": J::Int(*b as i128), "byte": J::Bool(true) },
      L::Char(c) => crate::jobj! { "char": J::s(c.to_string()), "int": J::Int(*c as u32 as i128) },
      L::Int(v, _) => {
        let x = v.get() as i128;
        crate::jobj! { "int": J::Int(if neg { -x } else { x }) }
      }
      L::Float(s, _) => crate::jobj! { "float": J::s(s.as_str().to_string()) },
      L::Bool(b) => crate::jobj! { "bool": J::Bool(*b) },
      L::Err(_) => J::Null,
    }
  }

  fn block(&self, b: &hir::Block<'_>) -> J {
    let mut stmts = Vec::new();
    for s in b.stmts {
      match s.kind {
        hir::StmtKind::Let(l) => {
          let mut o = J::obj();
          o.push(("pat", self.pat(l.pat)));
          if let Some(i) = l.init {
            o.push(("init", self.expr(i)));
          }
          if let Some(e) = l.els {
            o.push(("els", self.block(e)));
          }
          stmts.push(self.node("let", s.span, o));
        }
        hir::StmtKind::Expr(e) => stmts.push(self.expr(e)),
        hir::StmtKind::Semi(e) => stmts.push(self.node("semi", s.span, vec![("e", self.expr(e))])),
        hir::StmtKind::Item(_) => {}
      }
    }
    let mut o = J::obj();
    o.push(("stmts", J::Arr(stmts)));
    if let Some(e) = b.expr {
      o.push(("expr", self.expr(e)));
    }
    if let hir::BlockCheckMode::UnsafeBlock(src) = b.rules {
      o.push(("unsafe", J::s(format!("{:?}", src))));
    }
    self.node("block", b.span, o)
  }

  fn peeled_adt(&self, e: &hir::Expr<'_>) -> Option<String> {
    let mut t = self.tr.expr_ty_adjusted(e);
    loop {
      match t.kind() {
        ty::Ref(_, inner, _) => t = *inner,
        ty::Adt(a, args) if a.is_box() => t = args.type_at(0),
        ty::Adt(a, _) => return Some(plain(self.tcx, a.did())),
        _ => return None,
      }
    }
  }

  fn expr(&self, e: &hir::Expr<'_>) -> J {
    use hir::ExprKind as K;
    let tcx = self.tcx;
    match &e.kind {
      K::DropTemps(inner) | K::Use(inner, _) | K::Type(inner, _) => self.expr(inner),
      K::Call(f, args) => {
        let mut o = J::obj();
        let mut done = false;
        if let K::Path(q) = &f.kind {
          match self.tr.qpath_res(q, f.hir_id) {
            Res::Def(DefKind::Fn | DefKind::AssocFn, did) => {
              self.callee_info(did, f.hir_id, &mut o);
              done = true;
            }
            Res::Def(DefKind::Ctor(..), _) | Res::SelfCtor(_) => {
              o.push(("ctor", self.qpath(q, f.hir_id)));
              o.push(("ty", J::s(ty_head(tcx, self.tr.expr_ty(e)))));
              done = true;
            }
            _ => {}
          }
        }
        if !done {
          o.push(("callee", self.expr(f)));
        }
        o.push(("fsp", J::s(span_str(tcx, f.span))));
        o.push(("rty", J::s(ty_str(tcx, self.tr.expr_ty(e)))));
        if let Some(a0) = args.first() {
          // type of the first argument: tells `?` on an Option from `?` on a Result (Try::branch has no explicit type arguments)
          o.push(("a0ty", J::s(ty_head(tcx, self.tr.expr_ty_adjusted(a0)))));
        }
        o.push(("args", J::Arr(args.iter().map(|a| self.expr(a)).collect())));
        self.node("call", e.span, o)
      }
      K::MethodCall(seg, recv, args, fn_span) => {
        let mut o = J::obj();
        o.push(("name", J::s(seg.ident.name.to_string())));
        o.push(("fsp", J::s(span_str(tcx, *fn_span))));
        if let Some(did) = self.tr.type_dependent_def_id(e.hir_id) {
          self.callee_info(did, e.hir_id, &mut o);
        }
        o.push(("recv_ty", J::s(ty_head(tcx, self.tr.expr_ty_adjusted(recv)))));
        o.push(("rty", J::s(ty_str(tcx, self.tr.expr_ty(e)))));
        o.push(("recv", self.expr(recv)));
        o.push(("args", J::Arr(args.iter().map(|a| self.expr(a)).collect())));
        self.node("mcall", e.span, o)
      }
      K::Tup(es) => self.node("tup", e.span, vec![("es", J::Arr(es.iter().map(|a| self.expr(a)).collect()))]),
      K::Array(es) => self.node("array", e.span, vec![("es", J::Arr(es.iter().map(|a| self.expr(a)).collect()))]),
      K::Repeat(v, _) => self.node("repeat", e.span, vec![("e", self.expr(v)), ("ty", J::s(ty_str(tcx, self.tr.expr_ty(e))))]),
      K::Binary(op, l, r) => {
        let mut o = J::obj();
        o.push(("op", J::s(format!("{:?}", op.node))));
        if self.tr.is_method_call(e) {
          o.push(("overloaded", J::Bool(true)));
          if let Some(did) = self.tr.type_dependent_def_id(e.hir_id) {
            self.callee_info(did, e.hir_id, &mut o);
          }
        }
        o.push(("lty", J::s(ty_head(tcx, self.tr.expr_ty(l)))));
        o.push(("l", self.expr(l)));
        o.push(("r", self.expr(r)));
        self.node("binary", e.span, o)
      }
      K::Unary(op, x) => {
        let mut o = J::obj();
        o.push(("op", J::s(format!("{:?}", op))));
        if self.tr.is_method_call(e) {
          o.push(("overloaded", J::Bool(true)));
        }
        o.push(("e", self.expr(x)));
        self.node("unary", e.span, o)
      }
      K::Lit(l) => self.node("lit", e.span, vec![("v", self.lit(l, false))]),
      K::Cast(x, _) => self.node("cast", e.span, vec![("e", self.expr(x)), ("ty", J::s(ty_str(tcx, self.tr.expr_ty(e))))]),
      K::Let(l) => self.node("letexpr", e.span, vec![("pat", self.pat(l.pat)), ("init", self.expr(l.init))]),
      K::If(c, t, el) => {
        let mut o = J::obj();
        o.push(("cond", self.expr(c)));
        o.push(("then", self.expr(t)));
        if let Some(x) = el {
          o.push(("else", self.expr(x)));
        }
        self.node("if", e.span, o)
      }
      K::Loop(b, _, src, _) => self.node("loop", e.span, vec![("src", J::s(format!("{:?}", src))), ("body", self.block(b))]),
      K::Match(s, arms, src) => {
        let src_s = match src {
          hir::MatchSource::Normal => "normal",
          hir::MatchSource::Postfix => "postfix",
          hir::MatchSource::ForLoopDesugar => "for",
          hir::MatchSource::TryDesugar(_) => "try",
          hir::MatchSource::AwaitDesugar => "await",
          hir::MatchSource::FormatArgs => "fmt",
        };
        let arms_j: Vec<J> = arms
          .iter()
          .map(|a| {
            let mut o = J::obj();
            o.push(("pat", self.pat(a.pat)));
            if let Some(g) = a.guard {
              o.push(("guard", self.expr(g)));
            }
            o.push(("body", self.expr(a.body)));
            J::Obj(o)
          })
          .collect();
        self.node("match", e.span, vec![("src", J::s(src_s)), ("scrut", self.expr(s)), ("arms", J::Arr(arms_j))])
      }
      K::Closure(c) => {
        let body = tcx.hir_body(c.body);
        let params: Vec<J> = body.params.iter().map(|p| self.pat(p.pat)).collect();
        self.node(
          "closure",
          e.span,
          vec![
            ("def", J::s(qual(tcx, c.def_id.to_def_id()))),
            ("ckind", J::s(format!("{:?}", c.kind))),
            ("params", J::Arr(params)),
            ("body", self.expr(body.value)),
          ],
        )
      }
      K::Block(b, _) => self.block(b),
      K::Assign(l, r, _) => self.node("assign", e.span, vec![("l", self.expr(l)), ("r", self.expr(r))]),
      K::AssignOp(op, l, r) => self.node(
        "assignop",
        e.span,
        vec![("op", J::s(format!("{:?}", op.node))), ("overloaded", J::Bool(self.tr.is_method_call(e))), ("l", self.expr(l)), ("r", self.expr(r))],
      ),
      K::Field(b, ident) => {
        let mut o = J::obj();
        o.push(("name", J::s(ident.name.to_string())));
        if let Some(a) = self.peeled_adt(b) {
          o.push(("adt", J::s(a)));
        }
        o.push(("base", self.expr(b)));
        self.node("field", e.span, o)
      }
      K::Index(b, i, br_span) => {
        let mut o = J::obj();
        o.push(("fsp", J::s(span_str(tcx, *br_span))));
        o.push(("base_ty", J::s(ty_head(tcx, self.tr.expr_ty_adjusted(b)))));
        if self.tr.is_method_call(e) {
          o.push(("overloaded", J::Bool(true)));
        }
        o.push(("base", self.expr(b)));
        o.push(("idx", self.expr(i)));
        self.node("index", e.span, o)
      }
      K::Path(q) => {
        let mut o = J::obj();
        o.push(("res", self.qpath(q, e.hir_id)));
        self.node("path", e.span, o)
      }
      K::AddrOf(_, m, x) => self.node("addrof", e.span, vec![("mut", J::Bool(m.is_mut())), ("e", self.expr(x))]),
      K::Break(_, x) => {
        let mut o = J::obj();
        if let Some(x) = x {
          o.push(("e", self.expr(x)));
        }
        self.node("break", e.span, o)
      }
      K::Continue(_) => self.node("continue", e.span, vec![]),
      K::Ret(x) => {
        let mut o = J::obj();
        if let Some(x) = x {
          o.push(("e", self.expr(x)));
        }
        self.node("ret", e.span, o)
      }
      K::Struct(q, fields, tail) => {
        let mut o = J::obj();
        o.push(("res", self.qpath(q, e.hir_id)));
        o.push(("ty", J::s(ty_head(tcx, self.tr.expr_ty(e)))));
        let fs: Vec<J> = fields
          .iter()
          .map(|f| crate::jobj! { "name": J::s(f.ident.name.to_string()), "shorthand": J::Bool(f.is_shorthand), "e": self.expr(f.expr) })
          .collect();
        o.push(("fields", J::Arr(fs)));
        match tail {
          hir::StructTailExpr::Base(b) => o.push(("base", self.expr(b))),
          hir::StructTailExpr::DefaultFields(_) => o.push(("base", J::s("default_fields"))),
          _ => {}
        }
        self.node("struct", e.span, o)
      }
      K::Yield(x, _) => self.node("yield", e.span, vec![("e", self.expr(x))]),
      K::ConstBlock(_) => self.node("constblock", e.span, vec![]),
      K::Become(x) => self.node("become", e.span, vec![("e", self.expr(x))]),
      K::InlineAsm(_) => self.node("asm", e.span, vec![]),
      K::OffsetOf(..) => self.node("offsetof", e.span, vec![]),
      K::UnsafeBinderCast(_, x, _) => self.expr(x),
      K::Err(_) => self.node("err", e.span, vec![]),
    }
  }

  fn pat_expr(&self, p: &hir::PatExpr<'_>) -> J {
    match &p.kind {
      hir::PatExprKind::Lit { lit, negated } => crate::jobj! { "k": J::s("lit"), "v": self.lit(lit, *negated) },
      hir::PatExprKind::Path(q) => crate::jobj! { "k": J::s("path"), "res": self.qpath(q, p.hir_id) },
    }
  }

  fn pat(&self, p: &hir::Pat<'_>) -> J {
    use hir::PatKind as P;
    match &p.kind {
      P::Missing | P::Wild => crate::jobj! { "k": J::s("wild") },
      P::Never => crate::jobj! { "k": J::s("never") },
      P::Binding(mode, id, ident, sub) => {
        let mut o = J::obj();
        o.push(("k", J::s("bind")));
        o.push(("name", J::s(ident.name.to_string())));
        o.push(("id", J::Int(id.local_id.as_u32() as i128)));
        o.push(("byref", J::Bool(matches!(mode.0, hir::ByRef::Yes(..)))));
        o.push(("ty", J::s(ty_head(self.tcx, self.tr.pat_ty(p)))));
        if let Some(s) = sub {
          o.push(("sub", self.pat(s)));
        }
        J::Obj(o)
      }
      P::Struct(q, fields, rest) => {
        let fs: Vec<J> = fields.iter().map(|f| crate::jobj! { "name": J::s(f.ident.name.to_string()), "pat": self.pat(f.pat) }).collect();
        crate::jobj! {
          "k": J::s("struct"),
          "res": self.qpath(q, p.hir_id),
          "ty": J::s(ty_head(self.tcx, self.tr.pat_ty(p))),
          "fields": J::Arr(fs),
          "rest": J::Bool(rest.is_some()),
        }
      }
      P::TupleStruct(q, subs, ddpos) => crate::jobj! {
        "k": J::s("tuplestruct"),
        "res": self.qpath(q, p.hir_id),
        "subs": J::Arr(subs.iter().map(|s| self.pat(s)).collect()),
        "ddpos": match ddpos.as_opt_usize() { Some(n) => J::Int(n as i128), None => J::Null },
      },
      P::Or(alts) => crate::jobj! { "k": J::s("or"), "alts": J::Arr(alts.iter().map(|s| self.pat(s)).collect()) },
      P::Tuple(subs, ddpos) => crate::jobj! {
        "k": J::s("tuple"),
        "subs": J::Arr(subs.iter().map(|s| self.pat(s)).collect()),
        "ddpos": match ddpos.as_opt_usize() { Some(n) => J::Int(n as i128), None => J::Null },
      },
      P::Box(s) | P::Deref(s) | P::Ref(s, _, _) => crate::jobj! { "k": J::s("ref"), "sub": self.pat(s) },
      P::Expr(e) => self.pat_expr(e),
      P::Guard(s, g) => crate::jobj! { "k": J::s("guard"), "sub": self.pat(s), "guard": self.expr(g) },
      P::Range(lo, hi, end) => crate::jobj! {
        "k": J::s("range"),
        "lo": lo.map(|x| self.pat_expr(x)).unwrap_or(J::Null),
        "hi": hi.map(|x| self.pat_expr(x)).unwrap_or(J::Null),
        "inclusive": J::Bool(matches!(end, hir::RangeEnd::Included)),
      },
      P::Slice(a, m, b) => crate::jobj! {
        "k": J::s("slice"),
        "before": J::Arr(a.iter().map(|s| self.pat(s)).collect()),
        "mid": m.map(|s| self.pat(s)).unwrap_or(J::Null),
        "after": J::Arr(b.iter().map(|s| self.pat(s)).collect()),
      },
      P::Err(_) => crate::jobj! { "k": J::s("err") },
    }
  }
}

fn defkind_str(k: DefKind) -> String {
  let s = format!("{:?}", k);
  s.split(|c: char| c == '(' || c == ' ' || c == '{').next().unwrap_or("").to_string()
}
