//! Attributes of structs/enums/variants/fields from the *expanded AST* — the only place the
//! `#[serde(..)]` helper attributes survive. Keyed by module path (`crate::m::Name`).
use crate::json::J;
use crate::names::span_str;
use rustc_ast::ast;
use rustc_middle::ty::TyCtxt;

fn attrs(a: &[ast::Attribute]) -> J {
  J::Arr(
    a.iter()
      .filter(|x| !x.is_doc_comment())
      .map(|x| J::s(rustc_ast_pretty::pprust::attribute_to_string(x).split_whitespace().collect::<Vec<_>>().join(" ")))
      .collect(),
  )
}

fn fields<'tcx>(tcx: TyCtxt<'tcx>, vd: &ast::VariantData) -> J {
  J::Arr(
    vd.fields()
      .iter()
      .enumerate()
      .map(|(i, f)| {
        crate::jobj! {
          "name": J::s(f.ident.map(|i| i.name.to_string()).unwrap_or_else(|| i.to_string())),
          "attrs": attrs(&f.attrs),
          "ty": J::s(rustc_ast_pretty::pprust::ty_to_string(&f.ty)),
          "span": J::s(span_str(tcx, f.span)),
        }
      })
      .collect(),
  )
}

fn walk<'tcx>(tcx: TyCtxt<'tcx>, prefix: &str, items: &[Box<ast::Item>], out: &mut Vec<J>) {
  for it in items {
    match &it.kind {
      ast::ItemKind::Mod(_, ident, ast::ModKind::Loaded(sub, ..)) => {
        let p = format!("{}::{}", prefix, ident.name);
        walk(tcx, &p, sub, out);
      }
      ast::ItemKind::Struct(ident, _, vd) | ast::ItemKind::Union(ident, _, vd) => {
        out.push(crate::jobj! {
          "path": J::s(format!("{}::{}", prefix, ident.name)),
          "kind": J::s("struct"),
          "attrs": attrs(&it.attrs),
          "span": J::s(span_str(tcx, ident.span)),
          "fields": fields(tcx, vd),
        });
      }
      ast::ItemKind::Enum(ident, _, ed) => {
        let vars = ed
          .variants
          .iter()
          .map(|v| {
            crate::jobj! {
              "name": J::s(v.ident.name.to_string()),
              "attrs": attrs(&v.attrs),
              "fields": fields(tcx, &v.data),
            }
          })
          .collect();
        out.push(crate::jobj! {
          "path": J::s(format!("{}::{}", prefix, ident.name)),
          "kind": J::s("enum"),
          "attrs": attrs(&it.attrs),
          "span": J::s(span_str(tcx, ident.span)),
          "variants": J::Arr(vars),
        });
      }
      _ => {}
    }
  }
}

pub fn dump<'tcx>(tcx: TyCtxt<'tcx>) -> J {
  let crate_name = tcx.crate_name(rustc_span::def_id::LOCAL_CRATE).to_string();
  let steal = tcx.resolver_for_lowering();
  let guard = steal.borrow();
  let krate: &ast::Crate = &guard.1;
  let mut out = Vec::new();
  walk(tcx, &crate_name, &krate.items, &mut out);
  crate::jobj! {
    "crate_attrs": attrs(&krate.attrs),
    "items": J::Arr(out),
  }
}
