//! Stable, cross-crate-consistent names for definitions and printable spans.
use rustc_hir::def::DefKind;
use rustc_hir::def_id::DefId;
use rustc_middle::ty::print::{with_no_trimmed_paths, with_no_visible_paths};
use rustc_middle::ty::{self, Ty, TyCtxt};
use rustc_span::Span;

/// `crate_name::mod::Item` — path of the definition itself, no generics, never via re-exports.
pub fn plain<'tcx>(tcx: TyCtxt<'tcx>, did: DefId) -> String {
  let krate = tcx.crate_name(did.krate).to_string();
  let dp = tcx.def_path(did);
  let mut s = krate;
  for d in dp.data.iter() {
    s.push_str("::");
    use rustc_hir::definitions::DefPathData as D;
    match d.data {
      D::TypeNs(n) | D::ValueNs(n) | D::MacroNs(n) | D::LifetimeNs(n) => s.push_str(n.as_str()),
      D::Impl => s.push_str(&format!("{{impl#{}}}", d.disambiguator)),
      D::Closure => s.push_str(&format!("{{closure#{}}}", d.disambiguator)),
      D::Ctor => s.push_str("{ctor}"),
      D::AnonConst => s.push_str(&format!("{{const#{}}}", d.disambiguator)),
      D::OpaqueTy => s.push_str(&format!("{{opaque#{}}}", d.disambiguator)),
      other => s.push_str(&format!("{{{:?}#{}}}", other, d.disambiguator)),
    }
  }
  s
}

/// Type head without generic arguments when it is an ADT, otherwise the printed type.
pub fn ty_head<'tcx>(tcx: TyCtxt<'tcx>, t: Ty<'tcx>) -> String {
  match t.kind() {
    ty::Adt(adt, _) => plain(tcx, adt.did()),
    ty::Ref(_, inner, m) => format!("&{}{}", if m.is_mut() { "mut " } else { "" }, ty_head(tcx, *inner)),
    ty::Slice(inner) => format!("[{}]", ty_head(tcx, *inner)),
    ty::Array(inner, _) => format!("[{}; _]", ty_head(tcx, *inner)),
    ty::Param(p) => p.name.to_string(),
    ty::Dynamic(..) => ty_str(tcx, t),
    ty::FnDef(d, _) => plain(tcx, *d),
    ty::Closure(d, _) | ty::Coroutine(d, _) | ty::CoroutineClosure(d, _) => qual(tcx, *d),
    _ => ty_str(tcx, t),
  }
}

pub fn ty_str<'tcx>(_tcx: TyCtxt<'tcx>, t: Ty<'tcx>) -> String {
  with_no_visible_paths!(with_no_trimmed_paths!(format!("{}", t)))
}

/// Qualified name used as the key of functions and bodies:
///   free fn            crate::mod::f
///   inherent method    crate::mod::Type::m
///   trait impl method  <crate::mod::Type as crate2::Trait>::m
///   trait method decl  crate::Trait::m
///   closure            <parent>::{closure#n}
pub fn qual<'tcx>(tcx: TyCtxt<'tcx>, did: DefId) -> String {
  let kind = tcx.def_kind(did);
  match kind {
    DefKind::Closure | DefKind::InlineConst | DefKind::AnonConst => {
      let parent = tcx.parent(did);
      let dp = tcx.def_path(did);
      let last = dp.data.last().map(|d| d.disambiguator).unwrap_or(0);
      let tag = if matches!(kind, DefKind::Closure) { "closure" } else { "const" };
      return format!("{}::{{{}#{}}}", qual(tcx, parent), tag, last);
    }
    _ => {}
  }
  if let Some(parent) = tcx.opt_parent(did) {
    if matches!(tcx.def_kind(parent), DefKind::Impl { .. }) {
      let self_ty = tcx.type_of(parent).instantiate_identity().skip_norm_wip();
      let name = tcx.item_name(did);
      let st = ty_head(tcx, self_ty);
      if tcx.impl_opt_trait_ref(parent).is_some() {
        let tr = tcx.impl_trait_ref(parent).instantiate_identity().skip_norm_wip();
        // include the trait's own type arguments (e.g. TryFrom<BaseDIDUrl>) since several impls of one
        // trait for one type differ only there
        let targs: Vec<String> = tr.args.iter().skip(1).filter_map(|a| a.as_type()).map(|t| ty_head(tcx, t)).collect();
        let trs = if targs.is_empty() { plain(tcx, tr.def_id) } else { format!("{}<{}>", plain(tcx, tr.def_id), targs.join(",")) };
        return format!("<{} as {}>::{}", st, trs, name);
      } else {
        return format!("{}::{}", st, name);
      }
    }
  }
  plain(tcx, did)
}

pub fn span_str<'tcx>(tcx: TyCtxt<'tcx>, sp: Span) -> String {
  let sm = tcx.sess.source_map();
  // report the user-written location for macro-generated code
  let sp = sp.source_callsite();
  let lo = sm.lookup_char_pos(sp.lo());
  let file = match &lo.file.name {
    rustc_span::FileName::Real(r) => match r.local_path() {
      Some(p) => p.to_string_lossy().to_string(),
      None => format!("{:?}", lo.file.name),
    },
    other => format!("{:?}", other),
  };
  format!("{}:{}:{}", file, lo.line, lo.col.0 + 1)
}
