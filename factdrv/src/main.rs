//! factdrv — fact extraction driver for the /verif static rules.
//!
//! Runs as `RUSTC_WORKSPACE_WRAPPER`: argv = [factdrv, <rustc path>, rustc args…].
//! For every workspace library crate it writes exactly one JSON file
//! `$FACTDRV_OUT/<crate>.json` containing items, expanded-AST attributes, a compact HIR
//! expression tree per body and the `mir_built` CFG per body. Compilation then continues
//! normally so that dependent crates get their metadata.
#![feature(rustc_private)]
#![allow(clippy::all)]

extern crate rustc_abi;
extern crate rustc_ast;
extern crate rustc_ast_pretty;
extern crate rustc_driver;
extern crate rustc_hir;
extern crate rustc_interface;
extern crate rustc_middle;
extern crate rustc_session;
extern crate rustc_span;

mod astattrs;
mod hirdump;
mod items;
mod json;
mod mirdump;
mod names;

use json::J;
use rustc_driver::Compilation;
use rustc_interface::interface;
use rustc_middle::ty::TyCtxt;

struct Cb {
  out_dir: String,
}

impl rustc_driver::Callbacks for Cb {
  fn after_expansion<'tcx>(&mut self, _c: &interface::Compiler, tcx: TyCtxt<'tcx>) -> Compilation {
    let t0 = std::time::Instant::now();
    let crate_name = tcx.crate_name(rustc_span::def_id::LOCAL_CRATE).to_string();
    let mut root = J::obj();
    root.push(("crate", J::s(crate_name.clone())));
    root.push(("factdrv_version", J::Int(5)));
    // active cfg set
    let mut cfgs: Vec<String> = tcx
      .sess
      .config
      .iter()
      .map(|(k, v)| match v {
        Some(v) => format!("{}=\"{}\"", k, v),
        None => k.to_string(),
      })
      .filter(|s| s.starts_with("feature") || s == "test" || s == "debug_assertions" || s.contains("verif"))
      .collect();
    cfgs.sort();
    root.push(("cfg", J::Arr(cfgs.into_iter().map(J::Str).collect())));
    root.push(("ast", astattrs::dump(tcx)));
    // grab all pre-borrowck MIR first: later queries may steal it
    let mut grabbed = std::collections::HashMap::new();
    for def in tcx.hir_body_owners() {
      use rustc_hir::def::DefKind;
      if matches!(tcx.def_kind(def), DefKind::Fn | DefKind::AssocFn | DefKind::Closure) {
        grabbed.insert(def, mirdump::grab(tcx, def));
      }
    }
    let (adts, impls, fns, consts, crate_attrs, traits) = items::dump(tcx);
    root.push(("crate_attrs", crate_attrs));
    root.push(("adts", adts));
    root.push(("traits", traits));
    root.push(("impls", impls));
    root.push(("fns", fns));
    root.push(("consts", consts));
    let mut bodies = Vec::new();
    let mut n = 0usize;
    for def in tcx.hir_body_owners() {
      let kind = tcx.def_kind(def);
      use rustc_hir::def::DefKind;
      match kind {
        DefKind::Fn | DefKind::AssocFn | DefKind::Closure | DefKind::Const { .. } | DefKind::AssocConst { .. } | DefKind::Static { .. } => {}
        _ => continue,
      }
      let is_fn_like = matches!(kind, DefKind::Fn | DefKind::AssocFn | DefKind::Closure);
      let mut b = J::obj();
      b.push(("path", J::s(names::qual(tcx, def.to_def_id()))));
      b.push(("kind", J::s(format!("{:?}", kind).split(|c| c == ' ' || c == '{').next().unwrap_or("").to_string())));
      b.push(("span", J::s(names::span_str(tcx, tcx.def_span(def)))));
      b.push(("from_expansion", J::Bool(tcx.def_span(def).from_expansion())));
      if is_fn_like {
        b.push(("hir", hirdump::dump_body(tcx, def)));
        b.push(("mir", mirdump::dump_body(tcx, def, &grabbed[&def])));
      } else {
        b.push(("hir", hirdump::dump_body(tcx, def)));
      }
      bodies.push(J::Obj(b));
      n += 1;
    }
    root.push(("bodies", J::Arr(bodies)));
    root.push(("n_bodies", J::Int(n as i128)));
    root.push(("extract_ms", J::Int(t0.elapsed().as_millis() as i128)));
    let mut s = String::with_capacity(1 << 24);
    J::Obj(root).write(&mut s);
    let tmp = format!("{}/.{}.json.tmp.{}", self.out_dir, crate_name, std::process::id());
    let fin = format!("{}/{}.json", self.out_dir, crate_name);
    std::fs::write(&tmp, s).expect("factdrv: cannot write fact file");
    std::fs::rename(&tmp, &fin).expect("factdrv: cannot rename fact file");
    Compilation::Continue
  }
}

fn main() {
  let mut args: Vec<String> = std::env::args().collect();
  // wrapper mode: argv[1] is the real rustc path
  if args.len() > 1 && (args[1].ends_with("rustc") || args[1].contains("/rustc")) {
    args.remove(1);
  }
  let crate_name = args
    .iter()
    .position(|a| a == "--crate-name")
    .and_then(|i| args.get(i + 1))
    .cloned()
    .unwrap_or_default();
  let is_lib = {
    let mut lib = false;
    let mut i = 0;
    while i < args.len() {
      if args[i] == "--crate-type" {
        if let Some(t) = args.get(i + 1) {
          if t.contains("lib") {
            lib = true;
          }
          if t.contains("proc-macro") {
            lib = false;
            break;
          }
        }
      }
      i += 1;
    }
    lib
  };
  let is_test = args.iter().any(|a| a == "--test");
  let out_dir = std::env::var("FACTDRV_OUT").unwrap_or_default();
  let only: Option<Vec<String>> = std::env::var("FACTDRV_ONLY").ok().map(|s| s.split(',').map(|x| x.to_string()).collect());
  let wanted = !out_dir.is_empty()
    && is_lib
    && !is_test
    && !crate_name.is_empty()
    && crate_name != "___"
    && !crate_name.starts_with("build_script")
    && only.as_ref().map(|o| o.iter().any(|x| *x == crate_name)).unwrap_or(true);
  if wanted {
    let mut cb = Cb { out_dir };
    rustc_driver::run_compiler(&args, &mut cb);
  } else {
    struct Nop;
    impl rustc_driver::Callbacks for Nop {}
    rustc_driver::run_compiler(&args, &mut Nop);
  }
}
