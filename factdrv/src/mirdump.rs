//! `mir_built` (pre-borrowck, pre-coroutine-lowering) CFG per body.
use crate::json::J;
use crate::names::{plain, qual, span_str, ty_head, ty_str};
use rustc_abi::FIRST_VARIANT;
use rustc_hir::def_id::LocalDefId;
use rustc_middle::mir::{self, PlaceTy, AggregateKind, Operand, Place, ProjectionElem, Rvalue, StatementKind, TerminatorKind};
use rustc_middle::ty::{self, TyCtxt, TypeVisitableExt};

struct Cx<'a, 'tcx> {
  tcx: TyCtxt<'tcx>,
  body: &'a mir::Body<'tcx>,
  owner: LocalDefId,
}

/// Clone the pre-borrowck MIR of `def`. Must be called for *all* bodies before any query that may
/// steal `mir_built` (trait selection over coroutine types, opaque type reveal, const eval).
pub fn grab<'tcx>(tcx: TyCtxt<'tcx>, def: LocalDefId) -> mir::Body<'tcx> {
  tcx.mir_built(def).borrow().clone()
}

pub fn dump_body<'tcx>(tcx: TyCtxt<'tcx>, def: LocalDefId, body: &mir::Body<'tcx>) -> J {
  let cx = Cx { tcx, body, owner: def };
  let mut names: Vec<Option<(String, Option<u16>)>> = vec![None; body.local_decls.len()];
  for v in body.var_debug_info.iter() {
    if let mir::VarDebugInfoContents::Place(p) = v.value {
      if p.projection.is_empty() {
        names[p.local.as_usize()] = Some((v.name.to_string(), v.argument_index));
      }
    }
  }
  let locals: Vec<J> = body
    .local_decls
    .iter_enumerated()
    .map(|(l, d)| {
      let mut o = J::obj();
      o.push(("ty", J::s(ty_str(tcx, d.ty))));
      o.push(("th", J::s(ty_head(tcx, d.ty))));
      if let Some((n, _)) = &names[l.as_usize()] {
        o.push(("name", J::s(n.clone())));
      }
      if d.is_user_variable() {
        o.push(("user", J::Bool(true)));
      }
      if d.mutability.is_mut() {
        o.push(("mut", J::Bool(true)));
      }
      J::Obj(o)
    })
    .collect();
  let blocks: Vec<J> = body
    .basic_blocks
    .iter()
    .map(|bb| {
      let stmts: Vec<J> = bb.statements.iter().filter_map(|s| cx.stmt(s)).collect();
      crate::jobj! {
        "s": J::Arr(stmts),
        "t": cx.term(bb.terminator()),
        "cleanup": J::Bool(bb.is_cleanup),
      }
    })
    .collect();
  // upvar names for closures (place _1.<n>)
  let mut upvars = Vec::new();
  if matches!(tcx.def_kind(def), rustc_hir::def::DefKind::Closure) {
    for c in tcx.closure_captures(def) {
      upvars.push(J::s(c.to_string(tcx)));
    }
  }
  crate::jobj! {
    "arg_count": J::Int(body.arg_count as i128),
    "coroutine": J::Bool(body.coroutine.is_some()),
    "upvars": J::Arr(upvars),
    "locals": J::Arr(locals),
    "blocks": J::Arr(blocks),
  }
}

impl<'a, 'tcx> Cx<'a, 'tcx> {
  fn place(&self, p: &Place<'tcx>) -> J {
    let tcx = self.tcx;
    let mut pty = PlaceTy::from_ty(self.body.local_decls[p.local].ty);
    let mut proj = Vec::new();
    for elem in p.projection.iter() {
      let j = match elem {
        ProjectionElem::Deref => J::s("*"),
        ProjectionElem::Field(idx, _) => {
          let mut o = J::obj();
          match pty.ty.kind() {
            ty::Adt(adt, _) => {
              let v = pty.variant_index.unwrap_or(FIRST_VARIANT);
              let vd = adt.variant(v);
              o.push(("f", J::s(vd.fields[idx].name.to_string())));
              o.push(("adt", J::s(plain(tcx, adt.did()))));
              if adt.is_enum() {
                o.push(("v", J::s(vd.name.to_string())));
              }
            }
            _ => {
              o.push(("f", J::s(idx.as_usize().to_string())));
              o.push(("of", J::s(ty_head(tcx, pty.ty))));
            }
          }
          J::Obj(o)
        }
        ProjectionElem::Index(l) => crate::jobj! { "idx": J::Int(l.as_usize() as i128) },
        ProjectionElem::ConstantIndex { offset, min_length, from_end } => {
          crate::jobj! { "cidx": J::Int(offset as i128), "min": J::Int(min_length as i128), "from_end": J::Bool(from_end) }
        }
        ProjectionElem::Subslice { from, to, from_end } => {
          crate::jobj! { "sub": J::Arr(vec![J::Int(from as i128), J::Int(to as i128)]), "from_end": J::Bool(from_end) }
        }
        ProjectionElem::Downcast(name, vi) => {
          let n = match (name, pty.ty.kind()) {
            (Some(n), _) => n.to_string(),
            (None, ty::Adt(adt, _)) => adt.variant(vi).name.to_string(),
            _ => format!("{}", vi.as_usize()),
          };
          crate::jobj! { "as": J::s(n) }
        }
        ProjectionElem::OpaqueCast(_) => J::s("opaque"),
        ProjectionElem::UnwrapUnsafeBinder(_) => J::s("unwrapbinder"),
      };
      proj.push(j);
      pty = pty.projection_ty(tcx, elem);
    }
    if proj.is_empty() {
      J::Int(p.local.as_usize() as i128)
    } else {
      crate::jobj! { "l": J::Int(p.local.as_usize() as i128), "p": J::Arr(proj) }
    }
  }

  fn fn_info(&self, did: rustc_hir::def_id::DefId, args: ty::GenericArgsRef<'tcx>, o: &mut Vec<(&'static str, J)>) {
    let tcx = self.tcx;
    o.push(("fn", J::s(qual(tcx, did))));
    let tys: Vec<J> = args.iter().filter_map(|a| a.as_type()).map(|t| J::s(ty_head(tcx, t))).collect();
    if !tys.is_empty() {
      o.push(("targs", J::Arr(tys)));
    }
    if let Some(tr) = tcx.trait_of_assoc(did) {
      o.push(("trait", J::s(plain(tcx, tr))));
      if !args.has_infer() && !args.has_placeholders() && tcx.generics_of(did).count() == args.len() {
        let env = ty::TypingEnv::non_body_analysis(tcx, self.owner);
        let args = tcx.erase_and_anonymize_regions(args);
        if let Ok(Some(inst)) = ty::Instance::try_resolve(tcx, env, did, args) {
          let rd = inst.def_id();
          if rd != did {
            o.push(("resolved", J::s(qual(tcx, rd))));
          }
        }
      }
    }
  }

  fn constant(&self, c: &mir::ConstOperand<'tcx>) -> J {
    let tcx = self.tcx;
    let ty = c.const_.ty();
    let mut o = J::obj();
    match ty.kind() {
      ty::FnDef(did, args) => {
        self.fn_info(*did, args, &mut o);
        return crate::jobj! { "c": J::Obj(o) };
      }
      _ => {}
    }
    o.push(("ty", J::s(ty_str(tcx, ty))));
    match c.const_ {
      mir::Const::Unevaluated(uv, _) => {
        if let Some(p) = uv.promoted {
          o.push(("promoted", J::Int(p.as_usize() as i128)));
        } else {
          o.push(("def", J::s(qual(tcx, uv.def))));
        }
      }
      mir::Const::Val(v, _) => {
        if let Some(si) = v.try_to_scalar_int() {
          let sz = si.size();
          let bits = si.to_bits(sz);
          if ty.is_signed() {
            let shift = 128 - sz.bits();
            let sv = ((bits << shift) as i128) >> shift;
            o.push(("int", J::Int(sv)));
          } else if ty.is_bool() {
            o.push(("bool", J::Bool(bits != 0)));
          } else {
            if bits > i128::MAX as u128 {
              o.push(("int", J::s(bits.to_string())));
            } else {
              o.push(("int", J::Int(bits as i128)));
            }
          }
        } else if let (true, Some(bytes)) = (matches!(v, mir::ConstValue::Slice { .. }), if matches!(v, mir::ConstValue::Slice { .. }) { v.try_get_slice_bytes_for_diagnostics(tcx) } else { None }) {
          match std::str::from_utf8(bytes) {
            Ok(s) if ty.peel_refs().is_str() => o.push(("str", J::s(s.to_string()))),
            _ => o.push(("bytes", J::Arr(bytes.iter().map(|b| J::Int(*b as i128)).collect()))),
          }
        } else if matches!(v, mir::ConstValue::ZeroSized) {
          o.push(("zst", J::Bool(true)));
        }
      }
      mir::Const::Ty(_, ct) => {
        o.push(("tyconst", J::s(format!("{}", ct))));
      }
    }
    crate::jobj! { "c": J::Obj(o) }
  }

  fn operand(&self, op: &Operand<'tcx>) -> J {
    match op {
      Operand::Copy(p) => crate::jobj! { "cp": self.place(p) },
      Operand::Move(p) => crate::jobj! { "mv": self.place(p) },
      Operand::Constant(c) => self.constant(c),
      Operand::RuntimeChecks(_) => crate::jobj! { "c": crate::jobj!{ "ty": J::s("bool"), "runtime_checks": J::Bool(true) } },
    }
  }

  fn rvalue(&self, rv: &Rvalue<'tcx>) -> J {
    let tcx = self.tcx;
    match rv {
      Rvalue::Use(op, _) => crate::jobj! { "k": J::s("use"), "op": self.operand(op) },
      Rvalue::Repeat(op, _) => crate::jobj! { "k": J::s("repeat"), "op": self.operand(op) },
      Rvalue::Ref(_, bk, p) => {
        let m = matches!(bk, mir::BorrowKind::Mut { .. });
        let fake = matches!(bk, mir::BorrowKind::Fake(_));
        crate::jobj! { "k": J::s("ref"), "mut": J::Bool(m), "fake": J::Bool(fake), "place": self.place(p) }
      }
      Rvalue::RawPtr(k, p) => crate::jobj! { "k": J::s("rawptr"), "mut": J::Bool(matches!(k, mir::RawPtrKind::Mut)), "place": self.place(p) },
      Rvalue::ThreadLocalRef(d) => crate::jobj! { "k": J::s("tls"), "def": J::s(plain(tcx, *d)) },
      Rvalue::Cast(kind, op, ty) => {
        let ks = format!("{:?}", kind);
        let ks = ks.split('(').next().unwrap_or("").to_string();
        let mut o = J::obj();
        o.push(("k", J::s("cast")));
        o.push(("ck", J::s(ks)));
        if let mir::CastKind::PointerCoercion(pc, _) = kind {
          o.push(("coercion", J::s(format!("{:?}", pc).split('(').next().unwrap_or("").to_string())));
        }
        o.push(("op", self.operand(op)));
        o.push(("ty", J::s(ty_str(tcx, *ty))));
        J::Obj(o)
      }
      Rvalue::BinaryOp(op, ab) => crate::jobj! { "k": J::s("binop"), "op": J::s(format!("{:?}", op)), "a": self.operand(&ab.0), "b": self.operand(&ab.1) },
      Rvalue::UnaryOp(op, a) => crate::jobj! { "k": J::s("unop"), "op": J::s(format!("{:?}", op)), "a": self.operand(a) },
      Rvalue::Discriminant(p) => crate::jobj! { "k": J::s("discr"), "place": self.place(p) },
      Rvalue::CopyForDeref(p) => crate::jobj! { "k": J::s("use"), "op": crate::jobj!{ "cp": self.place(p) } },
      Rvalue::WrapUnsafeBinder(op, _) => crate::jobj! { "k": J::s("use"), "op": self.operand(op) },
      Rvalue::Aggregate(kind, ops) => {
        let mut o = J::obj();
        o.push(("k", J::s("agg")));
        match &**kind {
          AggregateKind::Array(_) => o.push(("ak", J::s("array"))),
          AggregateKind::Tuple => o.push(("ak", J::s("tuple"))),
          AggregateKind::Adt(did, vi, _, _, active) => {
            let adt = tcx.adt_def(*did);
            let v = adt.variant(*vi);
            o.push(("ak", J::s("adt")));
            o.push(("adt", J::s(plain(tcx, *did))));
            o.push(("variant", J::s(v.name.to_string())));
            if let Some(a) = active {
              o.push(("fields", J::Arr(vec![J::s(v.fields[*a].name.to_string())])));
            } else {
              o.push(("fields", J::Arr(v.fields.iter().map(|f| J::s(f.name.to_string())).collect())));
            }
          }
          AggregateKind::Closure(did, _) => {
            o.push(("ak", J::s("closure")));
            o.push(("def", J::s(qual(tcx, *did))));
          }
          AggregateKind::Coroutine(did, _) => {
            o.push(("ak", J::s("coroutine")));
            o.push(("def", J::s(qual(tcx, *did))));
          }
          AggregateKind::CoroutineClosure(did, _) => {
            o.push(("ak", J::s("coroutine_closure")));
            o.push(("def", J::s(qual(tcx, *did))));
          }
          AggregateKind::RawPtr(..) => o.push(("ak", J::s("rawptr"))),
        }
        o.push(("ops", J::Arr(ops.iter().map(|x| self.operand(x)).collect())));
        J::Obj(o)
      }
    }
  }

  fn stmt(&self, s: &mir::Statement<'tcx>) -> Option<J> {
    let line = {
      let sm = self.tcx.sess.source_map();
      sm.lookup_char_pos(s.source_info.span.source_callsite().lo()).line as i128
    };
    match &s.kind {
      StatementKind::Assign(b) => {
        let (p, rv) = &**b;
        Some(crate::jobj! { "k": J::s("assign"), "ln": J::Int(line), "exp": J::Bool(s.source_info.span.from_expansion()), "dst": self.place(p), "rv": self.rvalue(rv) })
      }
      StatementKind::SetDiscriminant { place, variant_index } => {
        Some(crate::jobj! { "k": J::s("setdiscr"), "ln": J::Int(line), "place": self.place(place), "variant": J::Int(variant_index.as_usize() as i128) })
      }
      StatementKind::StorageDead(l) => Some(crate::jobj! { "k": J::s("dead"), "l": J::Int(l.as_usize() as i128) }),
      StatementKind::StorageLive(l) => Some(crate::jobj! { "k": J::s("live"), "l": J::Int(l.as_usize() as i128) }),
      StatementKind::Intrinsic(i) => Some(crate::jobj! { "k": J::s("intrinsic"), "what": J::s(format!("{:?}", i).chars().take(40).collect::<String>()) }),
      _ => None,
    }
  }

  fn bb(&self, b: mir::BasicBlock) -> J {
    J::Int(b.as_usize() as i128)
  }

  fn unwind(&self, u: &mir::UnwindAction) -> J {
    match u {
      mir::UnwindAction::Cleanup(b) => self.bb(*b),
      _ => J::Null,
    }
  }

  fn term(&self, t: &mir::Terminator<'tcx>) -> J {
    let tcx = self.tcx;
    let sp = J::s(span_str(tcx, t.source_info.span));
    let exp = J::Bool(t.source_info.span.from_expansion());
    match &t.kind {
      TerminatorKind::Goto { target } => crate::jobj! { "k": J::s("goto"), "target": self.bb(*target) },
      TerminatorKind::SwitchInt { discr, targets } => {
        let ts: Vec<J> = targets.iter().map(|(v, b)| J::Arr(vec![if v > i128::MAX as u128 { J::s(v.to_string()) } else { J::Int(v as i128) }, self.bb(b)])).collect();
        crate::jobj! { "k": J::s("switch"), "sp": sp, "exp": exp, "discr": self.operand(discr), "targets": J::Arr(ts), "otherwise": self.bb(targets.otherwise()) }
      }
      TerminatorKind::UnwindResume => crate::jobj! { "k": J::s("resume") },
      TerminatorKind::UnwindTerminate(_) => crate::jobj! { "k": J::s("abort") },
      TerminatorKind::Return => crate::jobj! { "k": J::s("return"), "sp": sp },
      TerminatorKind::Unreachable => crate::jobj! { "k": J::s("unreachable") },
      TerminatorKind::Drop { place, target, unwind, .. } => {
        crate::jobj! { "k": J::s("drop"), "sp": sp, "place": self.place(place), "target": self.bb(*target), "unwind": self.unwind(unwind) }
      }
      TerminatorKind::Call { func, args, destination, target, unwind, fn_span, .. } => {
        let mut o = J::obj();
        o.push(("k", J::s("call")));
        o.push(("sp", J::s(span_str(tcx, *fn_span))));
        o.push(("exp", J::Bool(fn_span.from_expansion() || t.source_info.span.from_expansion())));
        let fty = func.ty(self.body, tcx);
        match fty.kind() {
          ty::FnDef(did, ga) => {
            self.fn_info(*did, ga, &mut o);
            let sig = tcx.fn_sig(*did).instantiate_identity().skip_norm_wip();
            if sig.output().skip_binder().is_never() {
              o.push(("diverges", J::Bool(true)));
            }
          }
          _ => {
            o.push(("indirect", self.operand(func)));
            o.push(("fty", J::s(ty_str(tcx, fty))));
          }
        }
        o.push(("args", J::Arr(args.iter().map(|a| self.operand(&a.node)).collect())));
        o.push(("dst", self.place(destination)));
        o.push(("target", target.map(|b| self.bb(b)).unwrap_or(J::Null)));
        o.push(("unwind", self.unwind(unwind)));
        J::Obj(o)
      }
      TerminatorKind::TailCall { func, args, .. } => {
        crate::jobj! { "k": J::s("tailcall"), "sp": sp, "func": self.operand(func), "args": J::Arr(args.iter().map(|a| self.operand(&a.node)).collect()) }
      }
      TerminatorKind::Assert { cond, expected, msg, target, unwind } => {
        use mir::AssertKind as A;
        let (kind, ops): (String, Vec<J>) = match &**msg {
          A::BoundsCheck { len, index } => ("BoundsCheck".into(), vec![self.operand(len), self.operand(index)]),
          A::Overflow(op, a, b) => (format!("Overflow({:?})", op), vec![self.operand(a), self.operand(b)]),
          A::OverflowNeg(a) => ("OverflowNeg".into(), vec![self.operand(a)]),
          A::DivisionByZero(a) => ("DivisionByZero".into(), vec![self.operand(a)]),
          A::RemainderByZero(a) => ("RemainderByZero".into(), vec![self.operand(a)]),
          other => (format!("{:?}", other).split(|c| c == '(' || c == ' ' || c == '{').next().unwrap_or("").to_string(), vec![]),
        };
        crate::jobj! {
          "k": J::s("assert"), "sp": sp, "exp": exp, "cond": self.operand(cond), "expected": J::Bool(*expected),
          "msg": J::s(kind), "ops": J::Arr(ops), "target": self.bb(*target), "unwind": self.unwind(unwind)
        }
      }
      TerminatorKind::Yield { value, resume, drop, .. } => {
        crate::jobj! { "k": J::s("yield"), "sp": sp, "value": self.operand(value), "target": self.bb(*resume), "drop": drop.map(|b| self.bb(b)).unwrap_or(J::Null) }
      }
      TerminatorKind::CoroutineDrop => crate::jobj! { "k": J::s("coroutine_drop") },
      TerminatorKind::FalseEdge { real_target, imaginary_target } => {
        crate::jobj! { "k": J::s("falseedge"), "target": self.bb(*real_target), "imaginary": self.bb(*imaginary_target) }
      }
      TerminatorKind::FalseUnwind { real_target, unwind } => {
        crate::jobj! { "k": J::s("falseunwind"), "target": self.bb(*real_target), "unwind": self.unwind(unwind) }
      }
      TerminatorKind::InlineAsm { .. } => crate::jobj! { "k": J::s("asm") },
    }
  }
}
