//! Item-level facts: ADTs with fields/visibility, traits, impls, functions, consts.
use crate::json::J;
use crate::names::{plain, qual, span_str, ty_head, ty_str};
use rustc_hir::def::DefKind;
use rustc_middle::ty::{self, TyCtxt};

fn vis_str<'tcx>(tcx: TyCtxt<'tcx>, v: ty::Visibility<rustc_hir::def_id::DefId>) -> String {
  match v {
    ty::Visibility::Public => "pub".to_string(),
    ty::Visibility::Restricted(m) => {
      if m.is_crate_root() {
        "crate".to_string()
      } else {
        format!("in {}", plain(tcx, m))
      }
    }
  }
}

pub fn dump<'tcx>(tcx: TyCtxt<'tcx>) -> (J, J, J, J, J, J) {
  let mut adts = Vec::new();
  let mut impls = Vec::new();
  let mut fns = Vec::new();
  let mut consts = Vec::new();
  let mut traits = Vec::new();
  let eff = tcx.effective_visibilities(());
  let items = tcx.hir_crate_items(());
  for ldid in items.definitions() {
    let did = ldid.to_def_id();
    let kind = tcx.def_kind(did);
    match kind {
      DefKind::Struct | DefKind::Enum | DefKind::Union => {
        let adt = tcx.adt_def(did);
        let mut vars = Vec::new();
        for v in adt.variants().iter() {
          let mut fs = Vec::new();
          for f in v.fields.iter() {
            let fty = tcx.type_of(f.did).instantiate_identity().skip_norm_wip();
            fs.push(crate::jobj! {
              "name": J::s(f.name.to_string()),
              "ty": J::s(ty_str(tcx, fty)),
              "ty_head": J::s(ty_head(tcx, fty)),
              "vis": J::s(vis_str(tcx, f.vis)),
            });
          }
          vars.push(crate::jobj! {
            "name": J::s(v.name.to_string()),
            "ctor": J::s(format!("{:?}", v.ctor_kind())),
            "non_exhaustive": J::Bool(v.is_field_list_non_exhaustive()),
            "fields": J::Arr(fs),
          });
        }
        adts.push(crate::jobj! {
          "path": J::s(plain(tcx, did)),
          "kind": J::s(format!("{:?}", kind)),
          "vis": J::s(vis_str(tcx, tcx.visibility(did))),
          "reachable": J::Bool(eff.is_reachable(ldid)),
          "exported": J::Bool(eff.is_exported(ldid)),
          "non_exhaustive": J::Bool(adt.is_variant_list_non_exhaustive()),
          "span": J::s(span_str(tcx, tcx.def_span(did))),
          "variants": J::Arr(vars),
        });
      }
      DefKind::Trait => {
        let mut supers = Vec::new();
        for (clause, _) in tcx.explicit_super_predicates_of(did).iter_identity_copied().map(|u| u.skip_norm_wip()) {
          if let Some(tc) = clause.as_trait_clause() {
            let sd = tc.def_id();
            let reach = sd.as_local().map(|l| eff.is_reachable(l));
            let exported = sd.as_local().map(|l| eff.is_exported(l));
            supers.push(crate::jobj! {
              "path": J::s(plain(tcx, sd)),
              "reachable": match reach { Some(b) => J::Bool(b), None => J::Null },
              "exported": match exported { Some(b) => J::Bool(b), None => J::Null },
            });
          }
        }
        let methods: Vec<J> = tcx.associated_item_def_ids(did).iter().map(|d| J::s(qual(tcx, *d))).collect();
        traits.push(crate::jobj! {
          "path": J::s(plain(tcx, did)),
          "vis": J::s(vis_str(tcx, tcx.visibility(did))),
          "reachable": J::Bool(eff.is_reachable(ldid)),
          "exported": J::Bool(eff.is_exported(ldid)),
          "supertraits": J::Arr(supers),
          "items": J::Arr(methods),
          "span": J::s(span_str(tcx, tcx.def_span(did))),
        });
      }
      DefKind::Impl { .. } => {
        let self_ty = tcx.type_of(did).instantiate_identity().skip_norm_wip();
        let tr = if tcx.impl_opt_trait_ref(did).is_some() {
          let t = tcx.impl_trait_ref(did).instantiate_identity().skip_norm_wip();
          let targs: Vec<J> = t.args.iter().skip(1).filter_map(|a| a.as_type()).map(|x| J::s(ty_head(tcx, x))).collect();
          crate::jobj! { "path": J::s(plain(tcx, t.def_id)), "args": J::Arr(targs) }
        } else {
          J::Null
        };
        let its: Vec<J> = tcx.associated_item_def_ids(did).iter().map(|d| J::s(qual(tcx, *d))).collect();
        impls.push(crate::jobj! {
          "self_ty": J::s(ty_head(tcx, self_ty)),
          "self_ty_full": J::s(ty_str(tcx, self_ty)),
          "trait": tr,
          "derived": J::Bool(tcx.is_automatically_derived(did)),
          "items": J::Arr(its),
          "span": J::s(span_str(tcx, tcx.def_span(did))),
        });
      }
      DefKind::Fn | DefKind::AssocFn => {
        let sig = tcx.fn_sig(did).instantiate_identity().skip_norm_wip();
        let parent = tcx.parent(did);
        let container = match tcx.def_kind(parent) {
          DefKind::Impl { of_trait } => {
            if of_trait {
              "trait_impl"
            } else {
              "inherent_impl"
            }
          }
          DefKind::Trait => "trait",
          _ => "free",
        };
        let has_body = tcx.hir_maybe_body_owned_by(ldid).is_some();
        fns.push(crate::jobj! {
          "path": J::s(qual(tcx, did)),
          "plain": J::s(plain(tcx, did)),
          "name": J::s(tcx.item_name(did).to_string()),
          "vis": J::s(vis_str(tcx, tcx.visibility(did))),
          "reachable": J::Bool(eff.is_reachable(ldid)),
          "exported": J::Bool(eff.is_exported(ldid)),
          "async": J::Bool(tcx.asyncness(did).is_async()),
          "unsafe": J::Bool(sig.safety().is_unsafe()),
          "container": J::s(container),
          "has_body": J::Bool(has_body),
          "sig": J::s(crate::names::ty_str(tcx, ty::Ty::new_fn_ptr(tcx, sig))),
          "span": J::s(span_str(tcx, tcx.def_span(did))),
          "from_expansion": J::Bool(tcx.def_span(did).from_expansion()),
        });
      }
      DefKind::Const { .. } | DefKind::Static { .. } | DefKind::AssocConst { .. } => {
        let t = tcx.type_of(did).instantiate_identity().skip_norm_wip();
        consts.push(crate::jobj! {
          "path": J::s(qual(tcx, did)),
          "ty": J::s(ty_str(tcx, t)),
          "vis": J::s(vis_str(tcx, tcx.visibility(did))),
          "span": J::s(span_str(tcx, tcx.def_span(did))),
        });
      }
      _ => {}
    }
  }
  let crate_attrs = J::Arr(Vec::new());
  (J::Arr(adts), J::Arr(impls), J::Arr(fns), J::Arr(consts), crate_attrs, J::Arr(traits))
}
