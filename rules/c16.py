"""C16 — SD-JWT credentials and key-binding JWTs are accepted only when fully bound."""
import re

import hir as H
import mir as M
import rulelib as L
import symrules as SR
import sym
import c01
import c02
from c02 import has, only

CRATES = ["identity_credential", "identity_document", "identity_jose", "identity_core"]
SV = "identity_credential::validator::sd_jwt::validator::SdJwtCredentialValidator"
V = c02.V
U = c02.U
ITEM = "identity_jose::jws::decoder::JwsValidationItem"
CORE = "identity_document::document::core_document::CoreDocument"
TS = "identity_core::common::timestamp::Timestamp"
ACC = re.compile(r"(JwsValidationItem::(nonce|kid|protected_header|claims)|JwsHeader::(kid|nonce|typ)|JwtHeader::(kid|nonce|typ)|DIDUrl::did|CoreDocument::id)$")
SEE = re.compile(r"(serde_json::de::from_slice|from_json|::to_string|Value::as_object|::clone|::iter|Itertools::join|SdObjectDecoder::decode)$")


def claims_pred(field):
    """origin is the `field` of the KB-JWT claims parsed from the *verified* payload"""
    return lambda o: bool(o) and all(x[0] == "call" and ((x[1].endswith("serde_json::de::from_slice") and x[2:3] == (field,)) or (x[1] == ITEM + "::verify" and x[2:4] == ("claims", field))) for x in o)


KB_OPQ = (r"decode_compact_serialization$|serde_json::de::from_slice$|determine_hasher$|encoded_digest$|::join$|JwsValidationItem::verify$|Timestamp::from_unix$|Timestamp::now_utc$|"
          r"DIDUrl::parse$|CoreDocument::resolve_method$|MethodData::public_key_jwk$|VerificationMethod::data$")


def _kb_jwt_sym(F, r3, kfn):
    """validate_key_binding_jwt by abstract evaluation: what every accepting path established."""
    tab = SR.Table(F, kfn, opaque=KB_OPQ, rule=r3, max_paths=8000)
    OPT, SDJ, HOLDER = SR.param("options"), SR.param("sd_jwt"), SR.param("holder")
    KBT = ("payload", SR.fld("key_binding_jwt", base=SDJ), "Some", 0)
    names = ["kb-present", "decode-inputs", "typ", "resolve", "verify", "kb-claims-source", "sd_hash", "hash-payload", "hasher", "nonce", "aud", "iat-source", "iat>=earliest", "iat<=latest", "iat<=now", "returns"]
    n = 0
    for q in tab.ok():
        n += 1
        why = q.describe()[-220:]
        if not r3.require(SR.variant(q, SR.fld("key_binding_jwt", base=SDJ)) == "Some", (kfn, "kb-missing"), "success although the SD-JWT carries no key-binding JWT"):
            continue
        decs = [e for e in q.calls(r"decode_compact_serialization$") if q.succeeded(e) is True]
        kb_dec = [e for e in decs if SR.derives(e.args[1], KBT)]
        sd_dec = [e for e in decs if SR.derives(e.args[1], SR.fld("jwt", base=SDJ))]
        r3.require(kb_dec and sd_dec and len(kb_dec) + len(sd_dec) == len(decs), (kfn, "decode-inputs"), "tokens decoded are not exactly sd_jwt.jwt and sd_jwt.key_binding_jwt")
        if not kb_dec or not sd_dec:
            continue
        kbroots = [("payload", e.result.t, "Ok", 0) for e in kb_dec]
        # typ == "kb+jwt"
        # the header's typ is compared (==, established true) with a constant string; that string must be exactly "kb+jwt"
        typ_vals = set()
        for (a, c, _, _) in q.decisions:
            if a[0] == "eq" and c is True and any(SR.derives(x, r_) and "typ" in sym.fmt(x) for x in (a[1], a[2]) for r_ in kbroots):
                for x in (a[1], a[2]):
                    if isinstance(x, tuple) and x[:1] == ("lit",) and isinstance(x[1], str):
                        typ_vals.add(x[1])
                    elif isinstance(x, tuple) and x[:1] == ("def",) and x[1].endswith("KB_JWT_HEADER_TYP"):
                        typ_vals.add("<unevaluated %s>" % x[1])
        r3.require(bool(typ_vals), (kfn, "check", "typ"), "success without `typ == \"kb+jwt\"` of the KB-JWT's protected header — path: …%s" % why)
        for tv in sorted(typ_vals):
            r3.require(tv == "kb+jwt", (kfn, "check", "typ-value", repr(tv)), "the KB-JWT's typ is required to equal %r, not \"kb+jwt\": a token typed exactly kb+jwt is rejected and one typed %r is accepted" % (tv, tv))
        # key lookup
        rms = [e for e in q.calls(r"resolve_method$") if q.succeeded(e) is True]
        if r3.require(len(rms) == 1, (kfn, "resolve"), "expected one successful resolve_method on an accepting path"):
            doc, mid, scope = rms[0].args[:3]
            r3.require(sym.term(doc) == HOLDER, (kfn, "resolve-doc"), "the key is not resolved in the holder document: %r" % (doc,))
            r3.require(sym.term(scope) == SR.fld("jws_options", "method_scope", base=OPT), (kfn, "resolve-scope"), "the key is not resolved within options.jws_options.method_scope: %r" % (scope,))
            OMID = SR.fld("jws_options", "method_id", base=OPT)
            if SR.variant(q, OMID) == "Some":
                r3.require(sym.term(mid) == ("payload", OMID, "Some", 0), (kfn, "resolve-id"), "the configured method id is not used verbatim")
            else:
                okk = any(q.succeeded(e) is True and SR.derives(mid, e.result.t) and any(SR.derives(e.args[0], r_) for r_ in kbroots) and "kid" in sym.fmt(sym.term(e.args[0])) for e in q.calls(r"DIDUrl::parse$"))
                r3.require(okk, (kfn, "resolve-id"), "the method id is neither the configured one nor DIDUrl::parse(kid of the KB-JWT's protected header)")
            # signature
            vs = [e for e in q.calls(r"JwsValidationItem::verify$") if q.succeeded(e) is True]
            if r3.require(len(vs) == 1, (kfn, "missing-before-success", "kb_decoded.verify"), "success without a successful JwsValidationItem::verify of the KB-JWT"):
                v = vs[0]
                r3.require(any(SR.derives(v.args[0], e.result.t) for e in kb_dec), (kfn, "verify-item"), "the item verified is not the decoded KB-JWT")
                r3.require(sym.term(v.args[1]) == SR.fld("0"), (kfn, "verify-verifier"), "the validator's verifier is not used")
                r3.require(SR.derives(v.args[2], rms[0].result.t) and "public_key_jwk" in sym.fmt(sym.term(v.args[2])), (kfn, "verify-key"), "the verifying key is not the resolved holder method's public_key_jwk")
                verified = ("payload", v.result.t, "Ok", 0)
                fsl = [e for e in q.calls(r"from_slice$") if q.succeeded(e) is True and SR.derives(e.args[0], ("field", verified, "claims"))]
                if r3.require(len(fsl) == 1, (kfn, "kb-claims-source"), "the KB-JWT claims are not parsed from the verified DecodedJws.claims"):
                    kbc = ("payload", fsl[0].result.t, "Ok", 0)
                    # sd_hash
                    digs = q.calls(r"encoded_digest$")
                    okh = False
                    for d in digs:
                        for (a, c, _, _) in q.decisions:
                            # whole-value equality: one operand IS the claim, the other IS the digest (through reference / string-view conversions
                            # only) — not some term computed from both, such as a fold over their zipped bytes, which also "equals" on a prefix
                            if a[0] == "eq" and c is True:
                                HC = re.compile(r"(as_ref|as_str|as_bytes|as_slice|deref|borrow|clone|to_owned|to_string|String::from|from|into)$")
                                for x, y in ((a[1], a[2]), (a[2], a[1])):
                                    if SR.pure(x, ("field", kbc, "sd_hash"), conv=HC) and SR.pure(y, d.result.t, conv=HC):
                                        okh = d
                    if r3.require(bool(okh), (kfn, "check", "sd_hash"), "success without `kb_claims.sd_hash == digest` — path: …%s" % why):
                        hs, pl = okh.args[0], okh.args[1]
                        dh = [e for e in q.calls(r"determine_hasher$") if q.succeeded(e) is True and SR.derives(hs, e.result.t)]
                        r3.require(bool(dh) and any(SR.derives(dh[0].args[1], e.result.t) for e in sd_dec), (kfn, "hasher"), "the hasher is not determined from the claims of sd_jwt.jwt")
                        pt = sym.term(pl)
                        # the hashed text is exactly  jwt ++ "~" ++ join(disclosures, "~") ++ "~"
                        good = False
                        DISC = SR.fld("disclosures", base=SDJ)
                        for x in [z for z in sym.subterms(pt) if isinstance(z, tuple) and z[:1] == ("concat",)]:
                            pcs = x[1]
                            if len(pcs) == 4 and pcs[0][0] == "arg" and pcs[1] == ("lit", "~") and pcs[2][0] == "arg" and pcs[3] == ("lit", "~"):
                                a0, a1 = pcs[0][1], pcs[2][1]
                                joins = [z for z in sym.subterms(a1) if isinstance(z, tuple) and z[:1] == ("call",) and z[1].endswith("::join")]
                                # every disclosure, in the order presented, exactly once each as presented: join("~") directly over the list
                                exact = len(joins) == 1 and len(joins[0][2]) == 2 and joins[0][2][0] in (("iter", DISC), DISC) and joins[0][2][1] == ("lit", "~") and SR.pure(a1, joins[0])
                                good = SR.pure(a0, SR.fld("jwt", base=SDJ)) and exact
                        r3.require(good, (kfn, "hash-payload"), "the digest is not computed over `{sd_jwt.jwt}~{disclosures joined by ~}~`: %s" % sym.fmt(pt)[:200])
                    # nonce / aud
                    for opt, err in (("nonce", "InvalidNonce"), ("aud", "AudianceMismatch")):
                        OT = SR.fld(opt, base=OPT)
                        ov = SR.variant(q, OT)
                        if ov == "Some":
                            HC2 = re.compile(r"(as_ref|as_str|as_bytes|as_slice|as_deref|deref|borrow|clone|to_owned|to_string|from|into)$")
                            okq = any(a[0] == "eq" and c is True and any(SR.pure(x, ("payload", OT, "Some", 0), conv=HC2) and SR.pure(y, ("field", kbc, opt), conv=HC2) for x, y in ((a[1], a[2]), (a[2], a[1])))
                                      for (a, c, _, _) in q.decisions)
                            r3.require(okq, (kfn, "check", opt), "success with options.%s configured but not compared (equal) with the KB-JWT's %s — path: …%s" % (opt, opt, why))
                        else:
                            r3.require(ov == "None", (kfn, "check", opt), "success without examining options.%s" % opt)
                    # iat window
                    fu = [e for e in q.calls(r"Timestamp::from_unix$") if q.succeeded(e) is True and SR.derives(e.args[0], ("field", kbc, "iat"))]
                    if r3.require(len(fu) == 1, (kfn, "iat-source"), "the issuance time checked is not Timestamp::from_unix(kb claims iat)?"):
                        T = fu[0].result.t
                        EA, LA = SR.fld("earliest_issuance_date", base=OPT), SR.fld("latest_issuance_date", base=OPT)
                        ev_, lv_ = SR.variant(q, EA), SR.variant(q, LA)
                        if ev_ == "Some":
                            r3.require(_order(q, T, ("payload", EA, "Some", 0)) in (">=",), (kfn, "check", "iat>=earliest"), "success without `iat ≥ options.earliest_issuance_date` — path: …%s" % why)
                        else:
                            r3.require(ev_ == "None", (kfn, "check", "iat>=earliest"), "success without examining options.earliest_issuance_date")
                        if lv_ == "Some":
                            r3.require(_order(q, T, ("payload", LA, "Some", 0)) in ("<=",), (kfn, "check", "iat<=latest"), "success without `iat ≤ options.latest_issuance_date` — path: …%s" % why)
                        else:
                            r3.require(lv_ == "None", (kfn, "check", "iat<=latest"), "success without examining options.latest_issuance_date")
                            nows = [e.result.t for e in q.calls(r"now_utc$")]
                            r3.require(any(_order(q, T, nw) == "<=" for nw in nows), (kfn, "check", "iat<=now"), "with no upper bound configured, success without `iat ≤ now` — path: …%s" % why)
                    out = q.ret.fields[0] if isinstance(q.ret, sym.V) and q.ret.fields else None
                    r3.require(out is not None and sym.term(out) == kbc, (kfn, "returns"), "the claims returned are not the verified KB-JWT claims: %r" % (out,))
    for nm in names[:14]:
        r3.site("KB-JWT obligation `%s` holds on %d accepting path(s)" % (nm, n))
    r3.require(n > 0 or not tab.paths, (kfn, "single-ok"), "no accepting path found")


def _order(q, a, b):
    """'<=' / '>=' / '<' / '>' established between terms derived from a and b on path q (None if none or contradictory)."""
    facts = set()
    for (at, c, _, _) in q.decisions:
        if at[0] != "lt":
            continue
        x, y = at[1], at[2]
        if SR.derives(x, a) and SR.derives(y, b):
            facts.add("<" if c else ">=")
        elif SR.derives(x, b) and SR.derives(y, a):
            facts.add(">" if c else "<=")
    return facts.pop() if len(facts) == 1 else None


def run(F, R, tier):
    R.undecided += ["sd-jwt-payload's matching of disclosures against digests and its hasher selection (external crate)", "cryptographic verification outcome (C01 decides the binding)"]
    kfn = SV + "::validate_key_binding_jwt"

    # ------------------------------------------------------------------ R1 verification result discipline
    r1 = R.rule("C16-R1", "T9", "the Result of every JwsValidationItem::verify / verify_signature_raw call on the SD-JWT paths is propagated (never unwrapped, swallowed or dropped)")
    n = 0
    for fn in F.find(r"^identity_credential::validator::sd_jwt::validator::"):
        b = F.mir(fn, follow_async=False)
        if b is None:
            continue
        for bi, t in b.calls(re.compile(r"(JwsValidationItem::verify|JwtCredentialValidator::verify_signature_raw|Decoder::decode_compact_serialization|JwtCredentialValidator::(decode|parse_jwk)|SdObjectDecoder::decode|Timestamp::from_unix)$")):
            use = c01.result_use(b, bi)
            n += 1
            r1.site("%s: result of %s is %s" % (L.short(fn), L.short(M.callee(t)), use), t["sp"])
            if use in ("unwrapped", "dropped", "swallowed"):
                r1.fail((fn, "result-" + use, M.callee(t).rsplit("::", 1)[-1]), "%s %s the Result of %s: a failing %s becomes a crash or is ignored instead of an error" % (
                    L.short(fn), {"unwrapped": "unwraps", "dropped": "drops", "swallowed": "swallows"}[use], L.short(M.callee(t)), M.callee(t).rsplit("::", 1)[-1]), t["sp"])
    r1.floor(8)

    # ------------------------------------------------------------------ R2 issuer signature path
    r2 = R.rule("C16-R2", "T2+T6", "verify_signature: decode ✓, parse_jwk ✓ (C02-R3), verify_signature_raw ✓, disclosure decoding ✓ over the verified claims, try_into_credential ✓ and issuer == method_id.did() dominate Ok; validate_credential then runs validate_decoded_credential")
    fn = SV + "::verify_signature"
    if r2.anchor(F.hir(fn), fn):
        OPQ = (r"JwtCredentialValidator::(decode|parse_jwk|verify_signature_raw)$|serde_json::de::from_slice$|SdObjectDecoder::decode$|FromJson::from_json$|from_json$|"
               r"try_into_credential$|extract_issuer$|DIDUrl::did$|alloc::fmt::format$|Value::as_object$")
        tab = SR.Table(F, fn, opaque=OPQ, rule=r2, max_paths=6000)
        CREDP = SR.param("credential")
        n = 0
        for q in tab.ok():
            n += 1
            def one(pat, label):
                es = [e for e in q.calls(pat) if q.succeeded(e) is True]
                if not r2.require(len(es) >= 1, (fn, "missing-before-success", label), "an accepting path has no successful %s" % label):
                    return None
                return es[-1]
            dec = one(r"JwtCredentialValidator::decode$", "decode")
            pj = one(r"JwtCredentialValidator::parse_jwk$", "parse_jwk")
            raw = one(r"JwtCredentialValidator::verify_signature_raw$", "verify_signature_raw")
            sdd = one(r"SdObjectDecoder::decode$", "SdObjectDecoder::decode")
            tic = one(r"try_into_credential$", "try_into_credential")
            exi = one(r"extract_issuer$", "extract_issuer")
            if None in (dec, pj, raw, sdd, tic, exi):
                continue
            item = ("payload", dec.result.t, "Ok", 0)
            r2.require(SR.derives(dec.args[0], SR.fld("jwt", base=CREDP)), (fn, "decode-arg"), "the token decoded is not credential.jwt: %r" % (dec.args[0],))
            r2.require(sym.term(pj.args[0]) == item and sym.term(pj.args[1]) == SR.param("trusted_issuers") and sym.term(pj.args[2]) == SR.param("options"), (fn, "parse_jwk-args"),
                       "parse_jwk is not given (decoded item, trusted_issuers, options)")
            pjp = ("payload", pj.result.t, "Ok", 0)
            r2.require(sym.term(raw.args[0]) == item, (fn, "raw-item"), "the item verified is not the decoded SD-JWT")
            r2.require(SR.derives(raw.args[1], pjp) and sym.term(raw.args[1]) == ("field", pjp, "0"), (fn, "raw-key"), "the verifying key is not the one parse_jwk resolved: %r" % (raw.args[1],))
            r2.require(sym.term(raw.args[2]) == SR.fld("0"), (fn, "raw-verifier"), "the validator's own verifier is not used")
            verified = ("payload", raw.result.t, "Ok", 0)
            r2.require(sym.term(sdd.args[0]) == SR.fld("1"), (fn, "sd-decoder"), "the configured SdObjectDecoder is not used")
            r2.require(SR.derives(sdd.args[1], ("field", verified, "claims")), (fn, "sd-claims"), "disclosures are not decoded into the *verified* claims: %s" % sym.fmt(sym.term(sdd.args[1]))[:160])
            r2.require(SR.derives(sdd.args[2], SR.fld("disclosures", base=CREDP)), (fn, "sd-disclosures"), "the disclosures decoded are not the supplied ones")
            r2.require(SR.derives(tic.args[0], sdd.result.t), (fn, "credential-source"), "the credential is not built from the disclosed, verified claims")
            credv = ("payload", tic.result.t, "Ok", 0)
            r2.require(sym.term(exi.args[0]) == credv, (fn, "issuer-of"), "the issuer extracted is not that of the reconstructed credential")
            mid = ("field", pjp, "1")
            eq = any(a[0] == "eq" and c is True and any(SR.derives(x, exi.result.t) for x in (a[1], a[2])) and any(x[:1] == ("call",) and x[1].endswith("DIDUrl::did") and x[2] == (mid,) for x in (a[1], a[2]))
                     for (a, c, _, _) in q.decisions)
            r2.require(eq, (fn, "issuer-eq-method-did"), "Ok is reachable without `issuer == method_id.did()` having been established")
            out = q.ret.fields[0] if isinstance(q.ret, sym.V) and q.ret.fields else None
            if r2.require(isinstance(out, sym.St), (fn, "result-visible"), "the returned DecodedJwtCredential is not visible: %r" % (out,)):
                r2.require(sym.term(out.f.get("credential")) == credv, (fn, "returns-credential"), "the credential returned is not the reconstructed one")
                r2.require(SR.derives(out.f.get("header"), ("field", verified, "protected")), (fn, "header"), "returned header is not the verified protected header")
        for k_ in range(12):
            r2.site("verify_signature obligation %d on %d accepting path(s)" % (k_ + 1, n))
        r2.require(n > 0 or not tab.paths, (fn, "no-success"), "verify_signature has no accepting path")
        L.depends_on(r2, F, tier, ["C02-R3"], "issuer key, kid, scope and nonce rules of the SD-JWT are those of parse_jwk")
    fn = SV + "::validate_credential"
    h = F.hir(fn)
    if r2.anchor(h, fn):
        env = H.Env(h)
        L.require_tried_before_success(r2, F, fn, [("verify_signature", SV + "::verify_signature")])
        for n_, oc in H.exits(h):
            n2 = H.strip(n_)
            ok = n2.get("k") == "call" and H.fn_name(n2) == V + "::validate_decoded_credential"
            r2.require(ok, (fn, "delegates"), "validate_credential does not finish through validate_decoded_credential (same date, structure and status checks as a plain JWT credential)")
            if ok:
                a = n2["args"]
                r2.require(H.origins(a[0], env) == {("call", SV + "::verify_signature")}, (fn, "token"), "the credential validated is not the one whose signature was verified")
                r2.require(H.origins(a[2], env) == {("param", "options")} and H.origins(a[3], env) == {("param", "fail_fast")}, (fn, "options"), "caller's options / fail_fast not forwarded")
                r2.site("validate_credential → validate_decoded_credential(verified, issuers, options, fail_fast)", n2["sp"])
        for c in H.calls(h, SV + "::verify_signature"):
            a = H.call_args(c)
            r2.require(H.origins(a[1], env) == {("param", "sd_jwt")} and H.origins(a[3], env) == {("param", "options", "verification_options")}, (fn, "vs-args"), "verify_signature is not given (sd_jwt, issuers, options.verification_options)")
    r2.floor(12)

    # ------------------------------------------------------------------ R3 key-binding JWT
    r3 = R.rule("C16-R3", "T2+T6+T3", "KB-JWT: typ == kb+jwt, key resolved in the holder document within options.jws_options.method_scope, signature ✓, sd_hash == digest over jwt~disclosures~, nonce/aud equalities when configured, iat window; all dominate Ok")
    if r3.anchor(F.hir(kfn), kfn):
        _kb_jwt_sym(F, r3, kfn)
    r3.floor(14)
