"""C16 — SD-JWT credentials and key-binding JWTs are accepted only when fully bound."""
import re

import hir as H
import mir as M
import rulelib as L
import c01
import c02
from c02 import has, only

CRATES = ["identity_credential", "identity_document", "identity_jose", "identity_core"]
SV = "identity_credential::validator::sd_jwt::validator::SdJwtCredentialValidator"
V = c02.V
U = c02.U
ITEM = "identity_jose::jws::decoder::JwsValidationItem"
CORE = "identity_document::document::core_document::CoreDocument"
TS = "identity_core::common::timestamp::Timestamp"
ACC = re.compile(r"(JwsValidationItem::(nonce|kid|protected_header|claims)|JwsHeader::(kid|nonce|typ)|JwtHeader::(kid|nonce|typ)|DIDUrl::did|CoreDocument::id)$")
SEE = re.compile(r"(serde_json::de::from_slice|from_json|::to_string|Value::as_object|::clone|::iter|Itertools::join|SdObjectDecoder::decode)$")


def claims_pred(field):
    """origin is the `field` of the KB-JWT claims parsed from the *verified* payload"""
    return lambda o: bool(o) and all(x[0] == "call" and ((x[1].endswith("serde_json::de::from_slice") and x[2:3] == (field,)) or (x[1] == ITEM + "::verify" and x[2:4] == ("claims", field))) for x in o)


def run(F, R, tier):
    R.undecided += ["sd-jwt-payload's matching of disclosures against digests and its hasher selection (external crate)", "cryptographic verification outcome (C01 decides the binding)"]
    kfn = SV + "::validate_key_binding_jwt"

    # ------------------------------------------------------------------ R1 verification result discipline
    r1 = R.rule("C16-R1", "T9", "the Result of every JwsValidationItem::verify / verify_signature_raw call on the SD-JWT paths is propagated (never unwrapped, swallowed or dropped)")
    n = 0
    for fn in F.find(r"^identity_credential::validator::sd_jwt::validator::"):
        b = F.mir(fn, follow_async=False)
        if b is None:
            continue
        for bi, t in b.calls(re.compile(r"(JwsValidationItem::verify|JwtCredentialValidator::verify_signature_raw|Decoder::decode_compact_serialization|JwtCredentialValidator::(decode|parse_jwk)|SdObjectDecoder::decode|Timestamp::from_unix)$")):
            use = c01.result_use(b, bi)
            n += 1
            r1.site("%s: result of %s is %s" % (L.short(fn), L.short(M.callee(t)), use), t["sp"])
            if use in ("unwrapped", "dropped", "swallowed"):
                r1.fail((fn, "result-" + use, M.callee(t).rsplit("::", 1)[-1]), "%s %s the Result of %s: a failing %s becomes a crash or is ignored instead of an error" % (
                    L.short(fn), {"unwrapped": "unwraps", "dropped": "drops", "swallowed": "swallows"}[use], L.short(M.callee(t)), M.callee(t).rsplit("::", 1)[-1]), t["sp"])
    r1.floor(8)

    # ------------------------------------------------------------------ R2 issuer signature path
    r2 = R.rule("C16-R2", "T2+T6", "verify_signature: decode ✓, parse_jwk ✓ (C02-R3), verify_signature_raw ✓, disclosure decoding ✓ over the verified claims, try_into_credential ✓ and issuer == method_id.did() dominate Ok; validate_credential then runs validate_decoded_credential")
    fn = SV + "::verify_signature"
    h = F.hir(fn)
    if r2.anchor(h, fn):
        env = H.Env(h)
        L.require_tried_before_success(r2, F, fn, [
            ("decode", V + "::decode"), ("parse_jwk", V + "::parse_jwk"), ("verify_signature_raw", V + "::verify_signature_raw"),
            ("SdObjectDecoder::decode", re.compile(r"SdObjectDecoder::decode$")), ("try_into_credential", re.compile(r"CredentialJwtClaims::try_into_credential$")), ("extract_issuer", U + "::extract_issuer")])
        for pat, lab in ((V + "::parse_jwk", "parse_jwk"), (V + "::verify_signature_raw", "verify_signature_raw"), (re.compile(r"SdObjectDecoder::decode$"), "SdObjectDecoder::decode")):
            L.mir_success_dominates(r2, F, fn, pat, lab)
        tree, infos = L.exit_infos(h)
        for e in infos:
            if not L.is_success_exit(e):
                continue
            eq = False
            for c in e.conds:
                if c[0] != "if":
                    continue
                rel = H.relation(c[1], env, lambda o: o == {("call", U + "::extract_issuer")}, lambda o: bool(o) and all(x[0] == "call" and x[1] == V + "::parse_jwk" for x in o), accessors=ACC)
                if rel and ((rel == "Ne" and c[2] is False) or (rel == "Eq" and c[2] is True)):
                    eq = True
                    r2.site("Ok guarded by issuer_id == method_id.did()", H.strip(c[1]).get("sp"))
            r2.require(eq, (fn, "issuer-eq-method-did"), "Ok is reachable without `issuer == method_id.did()` having been established")
        for c in H.calls(h, V + "::verify_signature_raw"):
            o = [H.origins(x, env) for x in c["args"]]
            r2.site("verify_signature_raw(item ← %s, key ← %s, verifier ← %s)" % tuple(sorted(map(str, x)) for x in o), c["sp"])
            r2.require(o[0] == {("call", V + "::decode")}, (fn, "raw-item"), "the item verified is not the decoded SD-JWT")
            r2.require(only(o[1], "call", V + "::parse_jwk"), (fn, "raw-key"), "the verifying key is not the one parse_jwk resolved")
            r2.require(o[2] == {("param", "self", "0")}, (fn, "raw-verifier"), "the validator's own verifier is not used")
        for c in H.calls(h, V + "::decode"):
            oo = H.origins(c["args"][0], env, extra=re.compile(r"as_str$"))
            r2.require(oo == {("param", "credential", "jwt")}, (fn, "decode-arg"), "the token decoded is not credential.jwt: %s" % sorted(map(str, oo)))
        for c in H.calls(h, V + "::parse_jwk"):
            o = [H.origins(x, env) for x in c["args"]]
            r2.require(o[0] == {("call", V + "::decode")} and o[1] == {("param", "trusted_issuers")} and o[2] == {("param", "options")}, (fn, "parse_jwk-args"), "parse_jwk is not given (decoded, trusted_issuers, options)")
        for c in H.calls(h, re.compile(r"SdObjectDecoder::decode$")):
            a = H.call_args(c)
            o1 = H.origins(a[1], env, extra=SEE)
            o2 = H.origins(a[2], env)
            r2.site("disclosures decoded over %s with %s" % (sorted(map(str, o1)), sorted(map(str, o2))), c["sp"])
            r2.require(o1 == {("call", V + "::verify_signature_raw", "claims")}, (fn, "sd-claims"), "disclosures are not decoded into the *verified* claims: %s" % sorted(map(str, o1)))
            r2.require(o2 == {("param", "credential", "disclosures")}, (fn, "sd-disclosures"), "the disclosures decoded are not the supplied ones")
            r2.require(H.origins(a[0], env) == {("param", "self", "1")}, (fn, "sd-decoder"), "the configured SdObjectDecoder is not used")
        for c in H.calls(h, re.compile(r"CredentialJwtClaims::try_into_credential$")):
            oo = H.origins(H.call_args(c)[0], env, extra=SEE)
            r2.require(("call", V + "::verify_signature_raw", "claims") in oo and oo <= {("call", V + "::verify_signature_raw", "claims"), ("param", "credential", "disclosures"), ("param", "self", "1")}, (fn, "credential-source"), "the credential is not reconstructed from the disclosed verified claims: %s" % sorted(map(str, oo)))
        for s in H.struct_lits(h):
            if s.get("ty", "").endswith("DecodedJwtCredential"):
                fl = {f["name"]: H.origins(f["e"], env, extra=re.compile(r"Box::new$")) for f in s["fields"]}
                r2.require(fl.get("header") == {("call", V + "::verify_signature_raw", "protected")}, (fn, "header"), "returned header is not the verified protected header")
    fn = SV + "::validate_credential"
    h = F.hir(fn)
    if r2.anchor(h, fn):
        env = H.Env(h)
        L.require_tried_before_success(r2, F, fn, [("verify_signature", SV + "::verify_signature")])
        for n_, oc in H.exits(h):
            n2 = H.strip(n_)
            ok = n2.get("k") == "call" and H.fn_name(n2) == V + "::validate_decoded_credential"
            r2.require(ok, (fn, "delegates"), "validate_credential does not finish through validate_decoded_credential (same date, structure and status checks as a plain JWT credential)")
            if ok:
                a = n2["args"]
                r2.require(H.origins(a[0], env) == {("call", SV + "::verify_signature")}, (fn, "token"), "the credential validated is not the one whose signature was verified")
                r2.require(H.origins(a[2], env) == {("param", "options")} and H.origins(a[3], env) == {("param", "fail_fast")}, (fn, "options"), "caller's options / fail_fast not forwarded")
                r2.site("validate_credential → validate_decoded_credential(verified, issuers, options, fail_fast)", n2["sp"])
        for c in H.calls(h, SV + "::verify_signature"):
            a = H.call_args(c)
            r2.require(H.origins(a[1], env) == {("param", "sd_jwt")} and H.origins(a[3], env) == {("param", "options", "verification_options")}, (fn, "vs-args"), "verify_signature is not given (sd_jwt, issuers, options.verification_options)")
    r2.floor(12)

    # ------------------------------------------------------------------ R3 key-binding JWT
    r3 = R.rule("C16-R3", "T2+T6+T3", "KB-JWT: typ == kb+jwt, key resolved in the holder document within options.jws_options.method_scope, signature ✓, sd_hash == digest over jwt~disclosures~, nonce/aud equalities when configured, iat window; all dominate Ok")
    h = F.hir(kfn)
    if r3.anchor(h, kfn):
        env = H.Env(h)
        L.require_tried_before_success(r3, F, kfn, [("kb_decoded.verify", ITEM + "::verify"), ("Timestamp::from_unix(iat)", TS + "::from_unix"), ("determine_hasher", re.compile(r"SdObjectDecoder::determine_hasher$"))])
        L.mir_success_dominates(r3, F, kfn, re.compile(r"JwsValidationItem::verify$"), "JwsValidationItem::verify")
        tree, infos = L.exit_infos(h)
        succ = [e for e in infos if L.is_success_exit(e)]
        r3.require(len(succ) == 1, (kfn, "single-ok"), "expected a single success exit, found %d" % len(succ))
        KB = claims_pred
        for e in succ:
            oo = H.origins(e.node, env)
            r3.require(bool(oo) and all(o[0] == "call" and o[1].endswith("from_slice") for o in oo), (kfn, "returns"), "the claims returned are not the verified KB-JWT claims")
            got = set()
            for c in e.conds:
                if c[0] != "if" or c[2] is not False:
                    continue
                cc = c[1]
                # typ
                rel = H.relation(cc, env, lambda o: bool(o) and all(x[0] == "call" and x[1].endswith("decode_compact_serialization") and x[-2:] == ("protected_header", "typ") for x in o),
                                 lambda o: bool(o) and all(x[0] == "def" and x[1].endswith("KB_JWT_HEADER_TYP") for x in o), accessors=ACC)
                if rel == "Ne":
                    got.add("typ")
                rel = H.relation(cc, env, KB("sd_hash"), lambda o: o == {("call", "sd_jwt_payload::hasher::Hasher::encoded_digest")} or (bool(o) and all(x[0] == "call" and x[1].endswith("encoded_digest") for x in o)), extra=SEE)
                if rel == "Ne":
                    got.add("sd_hash")
                rel = H.relation(cc, env, KB("nonce"), lambda o: only(o, "param", "options", "nonce"), extra=SEE)
                if rel == "Ne":
                    got.add("nonce")
                rel = H.relation(cc, env, KB("aud"), lambda o: only(o, "param", "options", "aud"), extra=SEE)
                if rel == "Ne":
                    got.add("aud")
                is_iat = lambda o: o == {("call", TS + "::from_unix")}
                rel = H.relation(cc, env, is_iat, lambda o: only(o, "param", "options", "earliest_issuance_date"))
                if rel == "Lt":
                    got.add("iat>=earliest")
                rel = H.relation(cc, env, is_iat, lambda o: only(o, "param", "options", "latest_issuance_date"))
                if rel == "Gt":
                    got.add("iat<=latest")
                rel = H.relation(cc, env, is_iat, lambda o: o == {("call", TS + "::now_utc")})
                if rel == "Gt":
                    got.add("iat<=now")
            r3.site("Ok guarded by the negation of: %s" % sorted(got), e.node.get("sp"))
        # the optional checks are conditional on the option being configured: use the guard inventory of the function body instead of path conditions
        inv = {}
        for n_ in H.walk(H.root(h)):
            if n_.get("k") != "if":
                continue
            cc = H.strip(n_["cond"])
            oc = H.outcome(n_["then"]) if H.diverges(n_["then"]) else None
            if oc is None:
                continue
            conds = [(c[0], c[2], c[1]) for c in tree.path_conditions(n_) if c[0] == "if" and not c[1].get("exp")]
            inv.setdefault(oc, []).append((n_, conds))
        def guard(oc, role_a, role_b, want_rel, opt=None, else_of=None):
            for n_, conds in inv.get(oc, []):
                rel = H.relation(n_["cond"], env, role_a, role_b, accessors=ACC, extra=SEE)
                if rel != want_rel:
                    continue
                if opt is None:
                    if not [c for c in conds if c[1] is True]:
                        return n_
                    continue
                # under `if let Some(x) = &options.<opt>` (and only that)
                trues = [c for c in conds if c[1] is True]
                falses = [c for c in conds if c[1] is False and H.strip(c[2]).get("k") == "letexpr"]
                if else_of is None and len(trues) == 1 and H.strip(trues[0][2]).get("k") == "letexpr" and only(H.origins(H.strip(trues[0][2])["init"], env), "param", "options", opt):
                    return n_
                if else_of is not None and not trues and any(only(H.origins(H.strip(c[2])["init"], env), "param", "options", else_of) for c in falses):
                    return n_
            return None
        is_iat = lambda o: o == {("call", TS + "::from_unix")}
        checks = [
            ("typ", guard("Err(InvalidHeaderTypValue)", lambda o: bool(o) and all(x[0] == "call" and x[1].endswith("decode_compact_serialization") and x[-1] == "typ" for x in o),
                          lambda o: bool(o) and all(x[0] == "def" and x[1].endswith("KB_JWT_HEADER_TYP") for x in o), "Ne")),
            ("sd_hash", guard("Err(InvalidDigest)", claims_pred("sd_hash"), lambda o: bool(o) and all(x[0] == "call" and x[1].endswith("encoded_digest") for x in o), "Ne")),
            ("nonce", guard("Err(InvalidNonce)", claims_pred("nonce"), lambda o: only(o, "param", "options", "nonce"), "Ne", opt="nonce")),
            ("aud", guard("Err(AudianceMismatch)", claims_pred("aud"), lambda o: only(o, "param", "options", "aud"), "Ne", opt="aud")),
            ("iat>=earliest", guard("Err(IssuanceDate)", is_iat, lambda o: only(o, "param", "options", "earliest_issuance_date"), "Lt", opt="earliest_issuance_date")),
            ("iat<=latest", guard("Err(IssuanceDate)", is_iat, lambda o: only(o, "param", "options", "latest_issuance_date"), "Gt", opt="latest_issuance_date")),
            ("iat<=now", guard("Err(IssuanceDate)", is_iat, lambda o: o == {("call", TS + "::now_utc")}, "Gt", else_of="latest_issuance_date")),
        ]
        for name, node in checks:
            r3.site("KB-JWT check %s: %s" % (name, "present" if node is not None else "MISSING"), node["sp"] if node is not None else None)
            r3.require(node is not None, (kfn, "check", name), "the key-binding check `%s` is missing, has the wrong relation/operands, or is nested under an unrelated condition" % name)
        # all these guards precede the single success exit (structural dominance): they are statements of the main sequence
        if succ:
            pre_ids = {id(x) for s in succ[0].pre for x in H.walk(s)}
            for name, node in checks:
                if node is not None:
                    r3.require(id(node) in pre_ids, (kfn, "check-precedes-ok", name), "the `%s` check does not precede the success exit" % name)
        # iat goes through from_unix(kb claims.iat)
        for c in H.calls(h, TS + "::from_unix"):
            oo = H.origins(c["args"][0], env, extra=SEE)
            r3.require(claims_pred("iat")(oo), (kfn, "iat-source"), "the issuance time checked is not the KB-JWT's iat: %s" % sorted(map(str, oo)))
        # digest = hasher.encoded_digest(format!("{jwt}~{disclosures}~")) with hasher from the SD-JWT's own claims
        from c08 import format_calls
        fc = format_calls(h, env)
        okd = False
        for tpl, oo, node in fc:
            shape = "".join("{}" if t[0] == "arg" else t[1] for t in tpl)
            if shape == "{}~{}~":
                a0 = oo[0] if oo else set()
                a1 = oo[1] if len(oo) > 1 else set()
                okd = a0 == {("param", "sd_jwt", "jwt")} and bool(a1) and all(o[:3] == ("param", "sd_jwt", "disclosures") or (o[0] == "call" and o[1].endswith("join")) for o in a1)
                r3.site("hash payload template %r over %s" % (shape, [sorted(map(str, x)) for x in oo]), node["sp"])
        r3.require(okd, (kfn, "hash-payload"), "the digest is not computed over `{sd_jwt.jwt}~{disclosures joined by ~}~`")
        jn = [n_ for n_ in H.walk(H.root(h)) if n_.get("k") == "mcall" and n_["name"] == "join"]
        r3.require(len(jn) == 1 and H.literals(jn[0]["args"][0]) == ["~"] and only(H.origins(jn[0]["recv"], env, extra=re.compile(r"iter$")), "param", "sd_jwt", "disclosures"), (kfn, "disclosure-join"), "disclosures are not joined with '~' in the presented order")
        for c in H.calls(h, re.compile(r"Hasher::encoded_digest$")):
            a = H.call_args(c)
            r3.require(bool(H.origins(a[0], env)) and all(o[0] == "call" and o[1].endswith("determine_hasher") for o in H.origins(a[0], env)), (kfn, "hasher"), "the hasher is not the one named in the SD-JWT claims (determine_hasher)")
        for c in H.calls(h, re.compile(r"SdObjectDecoder::determine_hasher$")):
            oo = H.origins(H.call_args(c)[1], env, extra=SEE, accessors=ACC)
            r3.require(bool(oo) and all(o[0] == "call" and o[1].endswith("decode_compact_serialization") for o in oo), (kfn, "hasher-claims"), "the hasher is not determined from the claims of sd_jwt.jwt")
        # key lookup in the holder document with the configured scope
        for c in H.calls(h, CORE + "::resolve_method"):
            a = H.call_args(c)
            o = [H.origins(x, env, extra=re.compile(r"DIDUrl::parse$|AsRef::as_ref$"), accessors=ACC) for x in a]
            r3.site("resolve_method(doc ← %s, id ← %s, scope ← %s)" % tuple(sorted(map(str, x)) for x in o), c["sp"])
            r3.require(o[0] == {("param", "holder")}, (kfn, "resolve-doc"), "the key is not resolved in the holder document")
            r3.require(o[2] == {("param", "options", "jws_options", "method_scope")}, (kfn, "resolve-scope"), "the key is not resolved within options.jws_options.method_scope")
            r3.require(all(x[:4] == ("param", "options", "jws_options", "method_id") or (x[0] == "call" and x[1].endswith("decode_compact_serialization") and x[-1] == "kid") for x in o[1]) and o[1], (kfn, "resolve-id"), "the method id is not options.jws_options.method_id or the KB-JWT's protected kid: %s" % sorted(map(str, o[1])))
        for c in H.calls(h, ITEM + "::verify"):
            a = H.call_args(c)
            o0 = H.origins(a[0], env, extra=re.compile(r"as_bytes$|::clone$"))
            o1 = H.origins(a[1], env)
            o2 = H.origins(a[2], env, extra=re.compile(r"(resolve_method|public_key_jwk|::data|AsRef::as_ref)$"))
            r3.site("verify(item ← %s, verifier ← %s, key ← %s)" % (sorted(map(str, o0)), sorted(map(str, o1)), sorted(map(str, o2))[:3]), c["sp"])
            r3.require(o0 == {("call", "identity_jose::jws::decoder::Decoder::decode_compact_serialization")}, (kfn, "verify-item"), "the item verified is not the decoded KB-JWT")
            r3.require(o1 == {("param", "self", "0")}, (kfn, "verify-verifier"), "the validator's verifier is not used")
            r3.require(has(o2, "param", "holder"), (kfn, "verify-key"), "the verifying key does not come from the holder document")
        dc = H.calls(h, re.compile(r"Decoder::decode_compact_serialization$"))
        srcs = [sorted(map(str, H.origins(H.call_args(c)[1], env, extra=re.compile(r"as_bytes$|::clone$")))) for c in dc]
        r3.site("decode_compact_serialization inputs: %s" % srcs)
        srcs = [[x for x in s_ if x != "('other', 'unit')"] for s_ in srcs]
        r3.require(all(s in (["('param', 'sd_jwt', 'jwt')"], ["('param', 'sd_jwt', 'key_binding_jwt', 'Some', '0')"], ["('param', 'sd_jwt', 'key_binding_jwt')"]) for s in srcs), (kfn, "decode-inputs"), "a token other than sd_jwt.jwt / sd_jwt.key_binding_jwt is decoded: %s" % srcs)
        # KB-JWT claims parsed from the verified payload
        for c in H.calls(h, re.compile(r"serde_json::de::from_slice$")):
            oo = H.origins(c["args"][0], env, accessors=ACC)
            if any(o[0] == "call" and o[1] == ITEM + "::verify" for o in oo):
                r3.site("KB claims parsed from verified payload", c["sp"])
        kb_src = [H.origins(c["args"][0], env, accessors=ACC) for c in H.calls(h, re.compile(r"serde_json::de::from_slice$"))]
        r3.require(any(o == {("call", ITEM + "::verify", "claims")} for o in kb_src), (kfn, "kb-claims-source"), "the KB-JWT claims are not parsed from the verified DecodedJws.claims: %s" % [sorted(map(str, o)) for o in kb_src])
        # missing KB-JWT is an error
        r3.require("Err(MissingKeyBindingJwt)" in [e.outcome for e in infos], (kfn, "missing-kb"), "a missing key-binding JWT is not reported as MissingKeyBindingJwt")
    r3.floor(14)
