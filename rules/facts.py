"""Load fact files and index them."""
import json
import os
import re

from extract import WORKSPACE_CRATES


_REVIEWED = None


def _reviewed_fns():
    global _REVIEWED
    if _REVIEWED is None:
        try:
            _REVIEWED = json.load(open(os.path.join(os.path.dirname(os.path.abspath(__file__)), "reviewed_fns.json")))
        except Exception:
            _REVIEWED = {}
    return _REVIEWED


def _private_renames(texts):
    """{new path: reviewed path} for non-exported functions that disappeared from the reviewed tree while exactly one new non-exported
    function with the same signature appeared under the same parent (module or impl): a rename.  Anything less clear is left alone
    (the rules then fail closed on the missing anchor)."""
    rev = _reviewed_fns()
    if not rev:
        return {}
    now = {}
    for d in texts.values():
        for f in d.get("fns", []):
            if "{closure" not in f["path"]:
                now[f["path"]] = {"sig": f.get("sig"), "exported": bool(f.get("exported"))}
    gone = [p for p, m in rev.items() if p not in now and not m["exported"]]
    new = [p for p, m in now.items() if p not in rev and not m["exported"]]
    out = {}
    for g in gone:
        parent = g.rsplit("::", 1)[0]
        cands = [n for n in new if n.rsplit("::", 1)[0] == parent and now[n]["sig"] == rev[g]["sig"]]
        rivals = [g2 for g2 in gone if g2 != g and g2.rsplit("::", 1)[0] == parent and rev[g2]["sig"] == rev[g]["sig"]]
        if len(cands) == 1 and not rivals:
            out[cands[0]] = g
    return out


class Facts:
    def __init__(self, facts_dir, crates=None):
        self.dir = facts_dir
        self.crates = {}
        self.bodies = {}       # path -> body record (first)
        self.bodies_all = {}   # path -> [body records]
        self.fns = {}
        self.adts = {}
        self.ast = {}
        self.traits = {}
        self.impls = []
        self.consts = {}
        self.crate_attrs = {}
        texts = {}
        for c in (crates or WORKSPACE_CRATES):
            with open(os.path.join(facts_dir, c + ".json")) as fh:
                texts[c] = fh.read()
        parsed = {c: json.loads(t) for c, t in texts.items()}
        self.renamed = _private_renames(parsed)
        for c in (crates or WORKSPACE_CRATES):
            d = parsed[c]
            if self.renamed and any(new_ in texts[c] for new_ in self.renamed):
                t = texts[c]
                for new_, old_ in self.renamed.items():
                    # a private function that was only renamed is known to the rules by its reviewed name (qualified paths are
                    # strings everywhere in the facts: definitions, callees, closures `path::{closure#n}`)
                    t = re.sub(r'(?<![\w:])%s(?![\w])' % re.escape(new_), lambda m_, o=old_: o, t)
                d = json.loads(t)
            self.crates[c] = d
            self.crate_attrs[c] = d["ast"].get("crate_attrs", [])
            for b in d["bodies"]:
                b["crate"] = c
                self.bodies_all.setdefault(b["path"], []).append(b)
                self.bodies.setdefault(b["path"], b)
            for f in d["fns"]:
                f["crate"] = c
                self.fns.setdefault(f["path"], f)
            for a in d["adts"]:
                a["crate"] = c
                self.adts[a["path"]] = a
            for a in d["ast"]["items"]:
                self.ast[a["path"]] = a
            for t in d["traits"]:
                self.traits[t["path"]] = t
            for i in d["impls"]:
                i["crate"] = c
                self.impls.append(i)
            for k in d["consts"]:
                self.consts[k["path"]] = k
        self._mir_cache = {}

    def has_feature(self, crate, feature):
        """Was `crate` compiled with cargo feature `feature` in the analysed configuration?"""
        return ('feature="%s"' % feature) in (self.crates.get(crate, {}).get("cfg") or [])

    # ---- bodies -------------------------------------------------------------------------------
    def body(self, path):
        return self.bodies.get(path)

    def closures_of(self, path):
        pre = path + "::{closure#"
        return sorted(p for p in self.bodies if p.startswith(pre))

    def code_path(self, path):
        """For `async fn` / #[async_trait] methods the code lives in the coroutine closure."""
        b = self.bodies.get(path)
        if b is None:
            return None
        c0 = path + "::{closure#0}"
        cb = self.bodies.get(c0)
        if cb is not None and cb.get("mir") and cb["mir"].get("coroutine"):
            # the outer fn only builds the coroutine (and maybe boxes it)
            outer = b.get("mir")
            if outer is not None and len([x for x in outer["blocks"] if not x["cleanup"]]) <= 6:
                return c0
        return path

    def mir(self, path, follow_async=True):
        import mir as mirmod
        p = self.code_path(path) if follow_async else path
        if p is None:
            return None
        if p not in self._mir_cache:
            b = self.bodies.get(p)
            if b is None or not b.get("mir"):
                return None
            self._mir_cache[p] = mirmod.Body(p, b["mir"], b)
        return self._mir_cache[p]

    def hir(self, path):
        b = self.bodies.get(path)
        if b is None or not b.get("hir"):
            return None
        return b["hir"]

    def find(self, regex, kinds=("Fn", "AssocFn", "Closure")):
        r = re.compile(regex)
        return sorted(p for p, b in self.bodies.items() if b["kind"] in kinds and r.search(p))

    def fn_bodies(self, crates=None):
        for p, bs in self.bodies_all.items():
            for b in bs:
                if b["kind"] in ("Fn", "AssocFn", "Closure") and b.get("mir") and (crates is None or b["crate"] in crates):
                    yield p, b

    # ---- items --------------------------------------------------------------------------------
    def adt(self, path):
        return self.adts.get(path)

    def adt_fields(self, path, variant=None):
        a = self.adts.get(path)
        if a is None:
            return None
        vs = a["variants"]
        v = vs[0] if variant is None else next((x for x in vs if x["name"] == variant), None)
        return None if v is None else v["fields"]

    def ast_item(self, path):
        return self.ast.get(path)

    def impls_of(self, trait_path=None, self_ty=None):
        out = []
        for i in self.impls:
            if trait_path is not None and (i["trait"] is None or i["trait"]["path"] != trait_path):
                continue
            if self_ty is not None and i["self_ty"] != self_ty:
                continue
            out.append(i)
        return out

    # ---- whole-program indices ------------------------------------------------------------------
    def call_index(self):
        """callee name (both generic and resolved) -> [(caller path, block index, terminator)] over all non-cleanup blocks"""
        if not hasattr(self, "_call_index"):
            idx = {}
            for p, bs in self.bodies_all.items():
                for b in bs:
                    m = b.get("mir")
                    if not m:
                        continue
                    for bi, blk in enumerate(m["blocks"]):
                        if blk["cleanup"]:
                            continue
                        t = blk["t"]
                        if t["k"] == "call":
                            for nm in {t.get("fn"), t.get("resolved")}:
                                if nm:
                                    idx.setdefault(nm, []).append((p, bi, t))
            self._call_index = idx
        return self._call_index

    def callers(self, pat):
        """pat: exact name, or compiled regex"""
        idx = self.call_index()
        if hasattr(pat, "search"):
            out = []
            seen = set()
            for nm, lst in idx.items():
                if pat.search(nm):
                    for x in lst:
                        k = (x[0], x[1])
                        if k not in seen:
                            seen.add(k)
                            out.append(x)
            return out
        return list(idx.get(pat, []))

    def field_writes(self, adt, field):
        """All MIR statements/terminators that write (assign, call destination, or take `&mut` of) `adt.field`:
        [(path, block, kind, detail)] with kind in {'assign','calldst','refmut'}"""
        out = []
        for p, bs in self.bodies_all.items():
            for b in bs:
                m = b.get("mir")
                if not m:
                    continue
                for bi, blk in enumerate(m["blocks"]):
                    if blk["cleanup"]:
                        continue
                    for s in blk["s"]:
                        if s["k"] != "assign":
                            continue
                        if _place_has_field(s["dst"], adt, field):
                            out.append((p, bi, "assign", s))
                        rv = s["rv"]
                        if rv["k"] in ("ref", "rawptr") and rv.get("mut") and _place_has_field(rv["place"], adt, field):
                            out.append((p, bi, "refmut", s))
                    t = blk["t"]
                    if t["k"] == "call" and _place_has_field(t["dst"], adt, field):
                        out.append((p, bi, "calldst", t))
        return out

    def derived_trait_of(self, fn_path):
        """Trait path when fn_path is a method of an #[automatically_derived] impl, else None."""
        if not hasattr(self, "_derived"):
            self._derived = {}
            for i in self.impls:
                if i["derived"] and i["trait"]:
                    for it in i["items"]:
                        self._derived[it] = i["trait"]["path"]
        base = fn_path.split("::{closure#")[0]
        return self._derived.get(base)

    def constructions(self, adt, variant=None, skip_derived=("core::clone::Clone",)):
        """All aggregate constructions of an ADT: [(path, block, stmt)] (derived Clone impls are pass-through and skipped)"""
        out = []
        for p, bs in self.bodies_all.items():
            if skip_derived and self.derived_trait_of(p) in skip_derived:
                continue
            for b in bs:
                m = b.get("mir")
                if not m:
                    continue
                for bi, blk in enumerate(m["blocks"]):
                    if blk["cleanup"]:
                        continue
                    for s in blk["s"]:
                        if s["k"] == "assign" and s["rv"]["k"] == "agg" and s["rv"].get("adt") == adt:
                            if variant is None or s["rv"]["variant"] == variant:
                                out.append((p, bi, s))
        return out


def _place_has_field(pl, adt, field):
    if isinstance(pl, int):
        return False
    for e in pl["p"]:
        if isinstance(e, dict) and e.get("f") == field and e.get("adt") == adt:
            return True
    return False
