"""usage: save_seed.py <PID> <A|B> <srcdir> "<demo crate>" "<demo flags>" "<regression crates>" [extra PIDs...]
Copies a confirmed seeded change into /verif/seeded/<PID>-<A|B>/, runs the checks against it (apply → check → undo) and records the firing keys."""
import json, os, re, shutil, subprocess, sys

pid, tag, src, crate, flags, reg = sys.argv[1:7]
extra = sys.argv[7:]
dst = "/verif/seeded/%s-%s" % (pid, tag)
os.makedirs(dst, exist_ok=True)
demo = None
for f in os.listdir(src):
    if f == "README.md":
        shutil.copy(os.path.join(src, f), os.path.join(dst, "AGENT_README.md"))
    elif f == "patch.diff":
        shutil.copy(os.path.join(src, f), os.path.join(dst, f))
    elif f.endswith(".rs"):
        shutil.copy(os.path.join(src, f), os.path.join(dst, f))
        demo = demo or f
readme = open(os.path.join(dst, "AGENT_README.md")).read() if os.path.exists(os.path.join(dst, "AGENT_README.md")) else ""
title = next((l.lstrip("# ").strip() for l in readme.splitlines() if l.startswith("#")), "")
caught = []
for p in [pid] + extra:
    out = subprocess.run(["/verif/rules/try_patch.sh", os.path.join(dst, "patch.diff"), p], capture_output=True, text=True).stdout
    for l in out.splitlines():
        m = re.match(r"^FINDING (\S.*?): ", l)
        if m:
            caught.append(m.group(1)[:300])
st = subprocess.run(["git", "-C", "/repo", "status", "--short"], capture_output=True, text=True).stdout.strip()
assert st == "", "repo not clean after try_patch: " + st
name = os.path.splitext(demo)[0] if demo else None
meta = {
    "id": "%s-%s" % (pid, tag), "property": pid, "breaks": title, "demo": demo,
    "demo_cmd": "cp %s %s/tests/ && cargo test --offline -p %s %s --test %s" % (demo, crate, crate, flags, name),
    "regression": reg, "caught_by": caught,
    "confirmed": "rules/confirm_seed.sh in a scratch worktree: demo passes on the unmodified tree, fails with patch.diff applied; "
                 "`cargo test --offline -p <crate> --lib --tests` for the regression crates passes with the patch",
    "check_run": "rules/try_patch.sh seeded/%s-%s/patch.diff %s" % (pid, tag, " ".join([pid] + extra)),
}
json.dump(meta, open(os.path.join(dst, "meta.json"), "w"), indent=1, ensure_ascii=False)
print(pid, tag, "caught_by:", len(caught), "MISSED" if not caught else caught[0][:160])
