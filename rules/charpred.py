"""Finite-domain folding of `char -> bool` predicates.

A character-class predicate (`matches!` over literals and ranges, `==`, `||`/`&&`/`!`, `char::is_ascii_*`, `"..".contains(ch)`,
calls to sibling predicates, `if`/`match` with guards) is a pure function of one character.  Its accepted set is computed by
folding the predicate's HIR expression for every code point of a finite domain: all of 0x00..0x17F (ASCII, Latin-1, Latin
Extended-A) plus representatives of the remaining Unicode planes.  The specification tables the sets are compared with are
ASCII-only, so any accepted non-ASCII representative shows up as an extra character.  Nothing of the repository is executed:
this is constant folding of an expression tree; a construct the folder does not know makes the result None (the rule then
fails closed and names the construct).
"""
import hir as H

DOMAIN = list(range(0x180)) + [0x2028, 0x3042, 0xD7FF, 0xE000, 0xFFFD, 0x1F600, 0x10FFFF]


class Unsupported(Exception):
    pass


class Ch(int):
    """A char value (kept apart from integers so that `ch == 'x'` and casts stay typed)."""


def _is_alpha(c):
    return chr(c).isalpha()


CHAR_METHODS = {
    "is_ascii": lambda c: c < 0x80,
    "is_ascii_alphabetic": lambda c: 0x41 <= c <= 0x5A or 0x61 <= c <= 0x7A,
    "is_ascii_alphanumeric": lambda c: 0x30 <= c <= 0x39 or 0x41 <= c <= 0x5A or 0x61 <= c <= 0x7A,
    "is_ascii_digit": lambda c: 0x30 <= c <= 0x39,
    "is_ascii_hexdigit": lambda c: 0x30 <= c <= 0x39 or 0x41 <= c <= 0x46 or 0x61 <= c <= 0x66,
    "is_ascii_lowercase": lambda c: 0x61 <= c <= 0x7A,
    "is_ascii_uppercase": lambda c: 0x41 <= c <= 0x5A,
    "is_ascii_graphic": lambda c: 0x21 <= c <= 0x7E,
    "is_ascii_punctuation": lambda c: 0x21 <= c <= 0x2F or 0x3A <= c <= 0x40 or 0x5B <= c <= 0x60 or 0x7B <= c <= 0x7E,
    "is_ascii_whitespace": lambda c: c in (0x20, 0x09, 0x0A, 0x0C, 0x0D),
    "is_ascii_control": lambda c: c < 0x20 or c == 0x7F,
    "is_alphabetic": _is_alpha,
    "is_numeric": lambda c: chr(c).isnumeric(),
    "is_alphanumeric": lambda c: chr(c).isalpha() or chr(c).isnumeric(),
    "is_whitespace": lambda c: chr(c).isspace() and c not in (0x1C, 0x1D, 0x1E, 0x1F),
    "is_control": lambda c: c < 0x20 or 0x7F <= c <= 0x9F,
    "is_lowercase": lambda c: chr(c).islower(),
    "is_uppercase": lambda c: chr(c).isupper(),
}


def _lit(v):
    if "bool" in v:
        return bool(v["bool"])
    if "char" in v:
        return Ch(v["int"]) if "int" in v else Ch(ord(v["char"]))
    if "str" in v:
        return v["str"]
    if "int" in v:
        return int(v["int"])
    raise Unsupported("literal %s" % v)


def _pat_match(p, val, env, F, depth):
    k = p.get("k")
    if k in ("wild",):
        return True
    if k == "bind":
        env[p["name"]] = val
        if p.get("sub"):
            return _pat_match(p["sub"], val, env, F, depth)
        return True
    if k == "ref":
        return _pat_match(p["sub"], val, env, F, depth)
    if k == "lit":
        return _lit(p["v"]) == val
    if k == "range":
        lo, hi = p.get("lo"), p.get("hi")
        if lo is not None and val < _lit(lo["v"]):
            return False
        if hi is not None:
            h = _lit(hi["v"])
            return val <= h if p.get("inclusive") else val < h
        return True
    if k == "or":
        return any(_pat_match(a, val, env, F, depth) for a in p["alts"])
    if k == "guard":
        return _pat_match(p["sub"], val, env, F, depth) and bool(ev(p["guard"], env, F, depth))
    if k == "tuplestruct" and H.variant_name(p["res"]) == "Some":
        if val is None or not isinstance(val, tuple) or val[0] != "Some":
            return False
        return _pat_match(p["subs"][0], val[1], env, F, depth)
    if k == "path" and H.variant_name(p["res"]) == "None":
        return val == ("None",)
    raise Unsupported("pattern %s" % k)


_CMP = {"Eq": lambda a, b: a == b, "Ne": lambda a, b: a != b, "Lt": lambda a, b: a < b, "Le": lambda a, b: a <= b,
        "Gt": lambda a, b: a > b, "Ge": lambda a, b: a >= b}


def ev(n, env, F, depth=0):
    n = H.strip(n) if n.get("k") != "cast" else n
    k = n.get("k")
    if k == "lit":
        return _lit(n["v"])
    if k == "path":
        r = n.get("res", {})
        if "local" in r:
            if r["local"] not in env:
                raise Unsupported("free variable %s" % r["local"])
            return env[r["local"]]
        raise Unsupported("path %s" % (r.get("def"),))
    if k == "cast":
        v = ev(n["e"], env, F, depth)
        return int(v) if isinstance(v, (Ch, int)) and not isinstance(v, bool) else v
    if k == "unary":
        if n.get("op") == "Not":
            return not ev(n["e"], env, F, depth)
        raise Unsupported("unary %s" % n.get("op"))
    if k == "binary":
        op = n["op"]
        if op == "And":
            return bool(ev(n["l"], env, F, depth)) and bool(ev(n["r"], env, F, depth))
        if op == "Or":
            return bool(ev(n["l"], env, F, depth)) or bool(ev(n["r"], env, F, depth))
        if op in _CMP:
            return _CMP[op](ev(n["l"], env, F, depth), ev(n["r"], env, F, depth))
        raise Unsupported("binary %s" % op)
    if k == "if":
        c = n["cond"]
        if H.strip(c).get("k") == "letexpr":
            le = H.strip(c)
            e2 = dict(env)
            ok = _pat_match(le["pat"], ev(le["init"], env, F, depth), e2, F, depth)
            if ok:
                return ev(n["then"], e2, F, depth)
            if n.get("else") is None:
                raise Unsupported("if-let without else")
            return ev(n["else"], env, F, depth)
        if ev(c, env, F, depth):
            return ev(n["then"], env, F, depth)
        if n.get("else") is None:
            raise Unsupported("if without else in value position")
        return ev(n["else"], env, F, depth)
    if k == "match":
        v = ev(n["scrut"], env, F, depth)
        for a in n["arms"]:
            e2 = dict(env)
            if _pat_match(a["pat"], v, e2, F, depth):
                if a.get("guard") is not None and not ev(a["guard"], e2, F, depth):
                    continue
                return ev(a["body"], e2, F, depth)
        raise Unsupported("no arm matched")
    if k == "block":
        e2 = dict(env)
        for s in n.get("stmts", []):
            if s.get("k") == "let" and s.get("init") is not None and s.get("els") is None:
                if not _pat_match(s["pat"], ev(s["init"], e2, F, depth), e2, F, depth):
                    raise Unsupported("refutable let")
            else:
                raise Unsupported("statement %s" % s.get("k"))
        if n.get("expr") is None:
            raise Unsupported("block without value")
        return ev(n["expr"], e2, F, depth)
    if k == "mcall":
        name = n.get("name")
        recv = ev(n["recv"], env, F, depth)
        if isinstance(recv, Ch) and name in CHAR_METHODS and not n.get("args"):
            return bool(CHAR_METHODS[name](int(recv)))
        if isinstance(recv, Ch) and name in ("eq", "ne") and len(n["args"]) == 1:
            o = ev(n["args"][0], env, F, depth)
            return (recv == o) if name == "eq" else (recv != o)
        if isinstance(recv, str) and name == "contains" and len(n["args"]) == 1:
            o = ev(n["args"][0], env, F, depth)
            if isinstance(o, Ch):
                return chr(int(o)) in recv
            if isinstance(o, str):
                return o in recv
        if isinstance(recv, list) and name == "contains" and len(n["args"]) == 1:
            return ev(n["args"][0], env, F, depth) in recv
        raise Unsupported("method %s on %s" % (name, type(recv).__name__))
    if k in ("array", "tup"):
        return [ev(x, env, F, depth) for x in n.get("es", [])]
    if k == "call":
        fn = n.get("fn")
        if fn and not n.get("ctor") and depth < 6:
            h = F.hir(fn)
            if h is not None and len(h.get("params", [])) == len(n["args"]):
                e2 = {}
                for p, a in zip(h["params"], n["args"]):
                    if not _pat_match(p, ev(a, env, F, depth), e2, F, depth):
                        raise Unsupported("refutable parameter")
                return ev(H.root(h), e2, F, depth + 1)
        raise Unsupported("call %s" % (fn or "?"))
    if k == "ret":
        raise Unsupported("return in value position")
    raise Unsupported("expression %s" % k)


def accepted_set(F, expr, var, extra_env=None):
    """{code points c of DOMAIN | expr[var := c] folds to true}; (None, reason) when a construct is not foldable."""
    out = set()
    for c in DOMAIN:
        env = dict(extra_env or {})
        env[var] = Ch(c)
        try:
            if ev(expr, env, F):
                out.add(c)
        except Unsupported as e:
            return None, str(e)
        except (TypeError, ValueError) as e:
            return None, "type confusion: %s" % e
    return out, None


def fn_accepted_set(F, fn):
    """Accepted set of `fn(ch: char) -> bool`."""
    h = F.hir(fn)
    if h is None or len(h.get("params", [])) != 1 or h["params"][0].get("k") != "bind":
        return None, "not a one-parameter function"
    return accepted_set(F, H.root(h), h["params"][0]["name"])


def closure_accepted_set(F, closure, extra_env=None):
    """Accepted set of a `|ch| <bool expr>` closure node."""
    ps = closure.get("params", [])
    if len(ps) != 1:
        return None, "closure does not take one parameter"
    p = ps[0]
    while p.get("k") == "ref":
        p = p["sub"]
    if p.get("k") != "bind":
        return None, "closure parameter is not a binding"
    return accepted_set(F, closure["body"], p["name"], extra_env)
