"""Entry point: ./check <ID> --tier quick|thorough [--replay file]"""
import argparse
import importlib
import json
import os
import sys
import time

sys.path.insert(0, os.path.dirname(os.path.abspath(__file__)))

import extract  # noqa: E402
from facts import Facts  # noqa: E402
from report import Reporter  # noqa: E402


def main():
    ap = argparse.ArgumentParser()
    ap.add_argument("pid")
    ap.add_argument("--tier", default=os.environ.get("VERIF_TIER", "quick"))
    ap.add_argument("--replay")
    ap.add_argument("--force", action="store_true")
    a = ap.parse_args()
    pid = a.pid.upper()
    seed = int(os.environ.get("VERIF_SEED", "0") or 0)
    t0 = time.time()
    mod = importlib.import_module(pid.lower())
    facts_dir, st = extract.extract("workspace", force=a.force)
    F = Facts(facts_dir, getattr(mod, "CRATES", None))
    R = Reporter(pid, a.tier, seed)
    R.configs.append({"name": "workspace", "cargo": "cargo +nightly check --offline --workspace --lib",
                      "tree_hash": st["tree_hash"], "cache_hit": st.get("cache_hit", False)})
    mod.run(F, R, a.tier)
    stats = {
        "crates_loaded": sorted(F.crates),
        "bodies": sum(len(v) for v in F.bodies_all.values()),
        "functions_analysed": len(F.fns),
        "extract_wall_s": st.get("wall_s"),
    }
    if a.tier == "thorough" and hasattr(mod, "thorough"):
        mod.thorough(F, R)
    rc = R.finish(stats)
    if a.replay:
        want = json.load(open(a.replay)).get("key")
        fired = any(k == want for r in R.rules for k, _, _ in r.fails)
        print("replay %s: %s" % (want, "REPRODUCED" if fired else "not reproduced"))
        sys.exit(1 if fired else 0)
    sys.exit(rc)


if __name__ == "__main__":
    main()
