"""Entry point: ./check <ID> --tier quick|thorough [--replay file]

quick    : rules over the facts of `cargo check --workspace --lib` (feature unification as in the baseline test build)
thorough : quick + the same rules over the `--all-features` build + checker self-test: every seeded change and revert mutant
           recorded for the property is applied to a scratch copy of /repo's working tree (outside /repo and /verif, removed
           afterwards), re-extracted and must be reported.  Self-test results go to the evidence file; only a violation of the
           property on /repo's own tree makes the check exit 1.
"""
import argparse
import importlib
import json
import os
import shutil
import subprocess
import sys
import tempfile
import time

sys.path.insert(0, os.path.dirname(os.path.abspath(__file__)))

import extract  # noqa: E402
from facts import Facts  # noqa: E402
from report import Reporter, VERIF  # noqa: E402


def known_keys(pid):
    kf = os.path.join(VERIF, "known_findings.json")
    out = set()
    if os.path.exists(kf):
        for f in json.load(open(kf)).get("findings", []):
            if f["property"] == pid:
                out.add(f["key"])
    return out


def run_config(mod, pid, tier, config, repo=None, facts_name=None):
    facts_dir, st = extract.extract(config, repo=repo or extract.REPO, facts_name=facts_name)
    F = Facts(facts_dir, None)   # all workspace crates: rules inline across crates and depend on other properties' rules
    sub = Reporter(pid, tier)
    for name in list(sys.modules):
        m = sys.modules[name]
        if hasattr(m, "_SUB") and isinstance(getattr(m, "_SUB"), dict):
            m._SUB.clear()
    mod.run(F, sub, tier)
    return F, sub, st


def merge(R, sub, config):
    """Fold the findings of a second configuration into the main reporter (same keys → same finding)."""
    by = {r.rid: r for r in R.rules}
    for r in sub.rules:
        main = by.get(r.rid)
        if main is None:
            R.rules.append(r)
            continue
        have = {k for k, _, _ in main.fails}
        for k, msg, where in r.fails:
            if k not in have:
                main.fails.append((k, "%s [configuration %s]" % (msg, config), where))
        main.notes.append("configuration %s: %d site(s), %d failure(s)" % (config, len(r.sites), len(r.fails)))


def selftest_patches(pid):
    out = []
    sd = os.path.join(VERIF, "seeded")
    for d in sorted(os.listdir(sd)) if os.path.isdir(sd) else []:
        if d.startswith(pid + "-") and os.path.exists(os.path.join(sd, d, "patch.diff")):
            out.append(("seed " + d, os.path.join(sd, d, "patch.diff")))
    idx = os.path.join(VERIF, "mutants", "index.json")
    if os.path.exists(idx):
        for name, pids in sorted(json.load(open(idx)).items()):
            if pid in pids:
                out.append(("mutant " + name, os.path.join(VERIF, "mutants", name)))
    return out


def selftest(mod, pid, tier, R):
    patches = selftest_patches(pid)
    if not patches:
        return
    # fixed scratch path per property: cargo keys member artefacts by workspace path, a random path would grow the target dir
    scratch = os.path.join(os.environ.get("VERIF_SCRATCH", tempfile.gettempdir()), "verif-selftest-" + pid)
    import fcntl
    os.makedirs(extract.WORK, exist_ok=True)
    lock = open(os.path.join(extract.WORK, "selftest-%s.lock" % pid), "w")
    fcntl.flock(lock, fcntl.LOCK_EX)
    shutil.rmtree(scratch, ignore_errors=True)
    os.makedirs(scratch)
    repo = os.path.join(scratch, "repo")
    try:
        subprocess.run(["rsync", "-a", "--exclude", "/target", "--exclude", ".git", "--exclude", "node_modules", extract.REPO + "/", repo + "/"], check=True)
        known = known_keys(pid)
        for label, patch in patches:
            t0 = time.time()
            a = subprocess.run(["git", "apply", "--whitespace=nowarn", patch], cwd=repo, capture_output=True, text=True)
            if a.returncode != 0:
                R.fixtures.append({"fixture": label, "result": "skipped", "reason": "patch does not apply to the current tree"})
                print("selftest %s: skipped (does not apply to the current tree)" % label)
                continue
            try:
                _, sub, _ = run_config(mod, pid, tier, "workspace", repo=repo, facts_name="facts-selftest-" + pid)
                keys = [k for r in sub.rules for k, _, _ in r.fails if k not in known]
                res = "detected" if keys else "NOT-DETECTED"
            except SystemExit as e:
                keys, res = [], "skipped"
                R.fixtures.append({"fixture": label, "result": "skipped", "reason": str(e)[:200]})
                print("selftest %s: skipped (%s)" % (label, str(e)[:120]))
            finally:
                subprocess.run(["git", "apply", "-R", "--whitespace=nowarn", patch], cwd=repo, capture_output=True)
            if res != "skipped":
                R.fixtures.append({"fixture": label, "result": res, "keys": keys[:6], "wall_s": round(time.time() - t0, 1)})
                print("selftest %s: %s%s" % (label, res, (" by " + keys[0][:150]) if keys else ""))
    finally:
        shutil.rmtree(scratch, ignore_errors=True)
        shutil.rmtree(os.path.join(extract.WORK, "facts-selftest-" + pid), ignore_errors=True)
        fcntl.flock(lock, fcntl.LOCK_UN)
        lock.close()


def main():
    ap = argparse.ArgumentParser()
    ap.add_argument("pid")
    ap.add_argument("--tier", default=os.environ.get("VERIF_TIER", "quick"))
    ap.add_argument("--replay")
    ap.add_argument("--force", action="store_true")
    ap.add_argument("--no-selftest", action="store_true")
    a = ap.parse_args()
    pid = a.pid.upper()
    seed = int(os.environ.get("VERIF_SEED", "0") or 0)
    mod = importlib.import_module(pid.lower())
    primary = os.environ.get("VERIF_CONFIG", "workspace")   # debugging aid: run the quick rules on another configuration
    facts_dir, st = extract.extract(primary, force=a.force)
    F = Facts(facts_dir, None)   # all workspace crates: rules inline across crates and depend on other properties' rules
    R = Reporter(pid, a.tier, seed)
    R.configs.append({"name": primary, "cargo": "cargo +nightly check --offline " + " ".join(extract.CONFIGS[primary]),
                      "tree_hash": st["tree_hash"], "cache_hit": st.get("cache_hit", False)})
    mod.run(F, R, a.tier)
    stats = {
        "crates_loaded": sorted(F.crates),
        "bodies": sum(len(v) for v in F.bodies_all.values()),
        "functions_analysed": len(F.fns),
        "extract_wall_s": st.get("wall_s"),
    }
    if a.tier == "thorough":
        if hasattr(mod, "thorough"):
            mod.thorough(F, R)
        try:
            F2, sub, st2 = run_config(mod, pid, a.tier, "allfeatures")
            merge(R, sub, "allfeatures")
            R.configs.append({"name": "allfeatures", "cargo": "cargo +nightly check --offline --workspace --lib --all-features",
                              "tree_hash": st2["tree_hash"], "cache_hit": st2.get("cache_hit", False),
                              "bodies": sum(len(v) for v in F2.bodies_all.values())})
        except SystemExit as e:
            R.configs.append({"name": "allfeatures", "skipped": str(e)[:300]})
            print("configuration allfeatures skipped: %s" % str(e)[:200])
        clean = not any(k not in known_keys(pid) for r in R.rules for k, _, _ in r.fails)
        if clean and not a.no_selftest and not os.environ.get("VERIF_NO_SELFTEST"):
            selftest(mod, pid, a.tier, R)
    rc = R.finish(stats)
    if a.replay:
        want = json.load(open(a.replay)).get("key")
        fired = any(k == want for r in R.rules for k, _, _ in r.fails)
        print("replay %s: %s" % (want, "REPRODUCED" if fired else "not reproduced"))
        sys.exit(1 if fired else 0)
    sys.exit(rc)


if __name__ == "__main__":
    main()
