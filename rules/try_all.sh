#!/bin/sh
# usage: rules/try_all.sh <patch.diff>   — apply a change to /repo, run all 20 quick checks, undo. Prints findings only.
P="$1"
cd /repo && git apply "$P" || { echo "patch does not apply"; exit 2; }
trap 'git -C /repo checkout -- . ' EXIT
for i in 01 02 03 04 05 06 07 08 09 10 11 12 13 14 15 16 17 18 19 20; do
  (cd /verif && VERIF_EVIDENCE_DIR=/tmp/verif-try-evidence ./check "C$i" 2>&1 | grep -E "^(FINDING|fact extraction|Traceback|.*Error)" | cut -c1-420)
done
echo "-- done $P"
