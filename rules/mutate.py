"""Mutation probe of the rule set (development tool, not a registered check).

Generates one-token mutants (comparison/boolean/presence flips, dropped `?` statements, neutralised guards, off-by-one literals) on
the source lines of the functions the rules actually read, applies each to a scratch copy of /repo (never /repo itself), re-extracts
facts and runs all property modules in-process.  Output: one JSON line per mutant with the rule keys that fired, so that
undetected mutants can be triaged (equivalent / irrelevant to the properties / gap in the rules).

usage: mutate.py <out.jsonl> [--shard i/n] [--files f1,f2,..] [--max N]
"""
import importlib
import json
import os
import re
import shutil
import subprocess
import sys
import time

sys.path.insert(0, os.path.dirname(os.path.abspath(__file__)))
import extract  # noqa: E402
from facts import Facts  # noqa: E402
from report import Reporter, VERIF  # noqa: E402
import rulelib  # noqa: E402

PIDS = ["C%02d" % i for i in range(1, 21)]
MODS = {p: importlib.import_module(p.lower()) for p in PIDS}


def known_keys():
    out = set()
    for f in json.load(open(os.path.join(VERIF, "known_findings.json"))).get("findings", []):
        out.add(f["key"])
    return out


def run_all(F):
    res = {}
    known = known_keys()
    for p in PIDS:
        rulelib._SUB.clear()
        R = Reporter(p, "quick")
        try:
            MODS[p].run(F, R, "quick")
            keys = [k for r in R.rules for k, _, _ in r.fails if k not in known]
        except Exception as e:  # a crash of a rule on a mutant is a checker defect worth knowing about
            keys = ["CRASH|%s|%s" % (type(e).__name__, str(e)[:120])]
        if keys:
            res[p] = keys[:4]
    return res


def accessed_functions():
    """Names (last path segment) of the functions whose HIR/MIR the rules read on the clean tree."""
    d, _ = extract.extract("workspace")
    F = Facts(d)
    seen = set()
    oh, om = F.hir, F.mir

    def hir(path, *a, **k):
        seen.add(path)
        return oh(path, *a, **k)

    def mir(path, *a, **k):
        seen.add(path)
        return om(path, *a, **k)
    F.hir, F.mir = hir, mir
    run_all(F)
    names = set()
    for p in seen:
        q = re.sub(r"(::\{closure#\d+\})+$", "", p)
        names.add(re.sub(r"<.*>", "", q).split("::")[-1] if not q.startswith("<") else q.rsplit("::", 1)[-1])
    return names, seen


OPS = [
    (r"==", "!="), (r"!=", "=="), (r"<=", "<"), (r">=", ">"), (r"(?<![<=\-])<(?![<=])(?=\s)", "<="), (r"(?<![>=\-])>(?![>=])(?=\s)", ">="),
    (r"&&", "||"), (r"\|\|", "&&"),
    (r"\.is_some\(\)", ".is_none()"), (r"\.is_none\(\)", ".is_some()"), (r"\.is_ok\(\)", ".is_err()"), (r"\.is_err\(\)", ".is_ok()"),
    (r"\.is_empty\(\)", ".is_empty() == false"), (r"\btrue\b", "false"), (r"\bfalse\b", "true"),
    (r"\.any\(", ".all("), (r"\.all\(", ".any("), (r"\.min\(", ".max("), (r"\.max\(", ".min("),
    (r"\.and_then\(", ".or_else_DISABLED("),  # placeholder never compiles; skipped below
    (r"(?<![\w.])!(?=[a-zA-Z_(])", ""),  # drop a leading negation
    (r"\b(\d+)\b", None),  # literal + 1 (handled specially)
]


def mutants_of_line(line):
    code = line.split("//")[0]
    if not code.strip() or code.strip().startswith(("#[", "///", "use ", "pub use", "mod ", "pub mod")):
        return
    for pat, rep in OPS:
        if rep is not None and "DISABLED" in rep:
            continue
        for m in re.finditer(pat, code):
            if rep is None:
                v = int(m.group(1))
                if v > 4096 or re.search(r"[\w.]$", code[:m.start()]) or code[m.end():m.end() + 1] in ("_", "."):
                    continue
                new = code[:m.start()] + str(v + 1) + code[m.end():]
                yield "lit+1", new + line[len(code):]
            else:
                new = code[:m.start()] + rep + code[m.end():]
                yield "%s→%s" % (m.group(0), rep or "∅"), new + line[len(code):]
    s = code.strip()
    # drop a `…?;` statement (a propagated check)
    if s.endswith("?;") and not s.startswith("let ") and "=" not in s.split("(")[0]:
        yield "drop-stmt", re.sub(r"\S.*", "// mutated: statement removed", line.rstrip("\n")) + "\n"
    # neutralise a guard
    m = re.match(r"^(\s*)if (?!let )(.+) \{\s*$", code)
    if m:
        yield "guard-false", "%sif false && (%s) {\n" % (m.group(1), m.group(2))


def sites(files, fn_names):
    for f in files:
        path = os.path.join(extract.REPO, f)
        if not os.path.exists(path):
            continue
        lines = open(path).read().splitlines(True)
        cur = None
        for i, l in enumerate(lines):
            if re.match(r"^\s*#\[cfg\(test\)\]", l):
                break
            m = re.match(r"^\s*(pub(\([a-z:]+\))?\s+)?(const\s+)?(async\s+)?(unsafe\s+)?fn\s+([A-Za-z_0-9]+)", l)
            if m:
                cur = m.group(6)
                continue
            if cur is None or cur not in fn_names:
                continue
            for kind, new in mutants_of_line(l):
                if new != l:
                    yield f, i, cur, kind, l, new


def main():
    out = sys.argv[1]
    shard = (0, 1)
    files = None
    mx = None
    a = sys.argv[2:]
    while a:
        x = a.pop(0)
        if x == "--shard":
            i, n = a.pop(0).split("/")
            shard = (int(i), int(n))
        elif x == "--files":
            files = a.pop(0).split(",")
        elif x == "--max":
            mx = int(a.pop(0))
    fn_names, seen = accessed_functions()
    if files is None:
        files = set()
        for l in open(os.path.join(VERIF, "properties.jsonl")):
            files |= set(json.loads(l)["anchors"].get("files", []))
        # plus every file a rule-read function lives in
        d, _ = extract.extract("workspace")
        F = Facts(d)
        for p in seen:
            f = F.fns.get(re.sub(r"(::\{closure#\d+\})+$", "", p))
            if f and f.get("span"):
                files.add(f["span"].split(":")[0])
        files = sorted(files)
    allsites = list(sites(files, fn_names))
    mine = [s for k, s in enumerate(allsites) if k % shard[1] == shard[0]]
    if mx:
        mine = mine[:mx]
    print("functions read by rules: %d, files: %d, mutants: %d (this shard %d)" % (len(fn_names), len(files), len(allsites), len(mine)), flush=True)
    scratch = "/tmp/verif-mut-%d" % shard[0]
    repo = os.path.join(scratch, "repo")
    shutil.rmtree(scratch, ignore_errors=True)
    os.makedirs(scratch)
    subprocess.run(["rsync", "-a", "--exclude", "/target", "--exclude", ".git", "--exclude", "node_modules", extract.REPO + "/", repo + "/"], check=True)
    done = set()
    if os.path.exists(out):
        for l in open(out):
            try:
                j = json.loads(l)
                done.add((j["file"], j["line"], j["kind"], j["new"]))
            except Exception:
                pass
    fh = open(out, "a")
    try:
        for f, i, fn, kind, old, new in mine:
            if (f, i + 1, kind, new.strip()) in done:
                continue
            p = os.path.join(repo, f)
            lines = open(p).read().splitlines(True)
            orig = lines[i]
            lines[i] = new
            open(p, "w").write("".join(lines))
            t0 = time.time()
            rec = {"file": f, "line": i + 1, "fn": fn, "kind": kind, "old": old.strip(), "new": new.strip()}
            try:
                d, st = extract.extract("workspace", repo=repo, facts_name="facts-mut-%d" % shard[0])
                F = Facts(d)
                rec["detected"] = run_all(F)
                rec["status"] = "detected" if rec["detected"] else "UNDETECTED"
            except SystemExit:
                rec["status"] = "no-compile"
            rec["wall_s"] = round(time.time() - t0, 1)
            lines[i] = orig
            open(p, "w").write("".join(lines))
            fh.write(json.dumps(rec) + "\n")
            fh.flush()
    finally:
        shutil.rmtree(scratch, ignore_errors=True)
        shutil.rmtree(os.path.join(extract.WORK, "facts-mut-%d" % shard[0]), ignore_errors=True)


if __name__ == "__main__":
    main()
