"""C20 — The resolver dispatches by DID method and is independent of completion order."""
import re

import hir as H
import mir as M
import rulelib as L
import symrules as SR
import sym

CRATES = ["identity_resolver", "identity_document", "identity_verification", "identity_did"]
RS = "identity_resolver::resolution::resolver::Resolver"
CM = "identity_resolver::resolution::commands"
CD = "identity_document::document::core_document::CoreDocument"
VM = "identity_verification::verification_method::method::VerificationMethod"
ACC = re.compile(r"DID::(method|as_str)$")


def sig(node):
    """Structural signature of an expression tree (callee names, literals, variants; local names erased)."""
    if not isinstance(node, dict):
        return str(node)
    k = node.get("k")
    parts = [k]
    if k in ("call", "mcall", "binary"):
        parts.append((node.get("fn") or node.get("name") or "").rsplit("::", 1)[-1])
    if k == "lit":
        parts.append(str(H.literals(node)))
    if k == "path":
        r = node.get("res", {})
        parts.append(H.variant_name(r) if "def" in r or "ctor_of" in r else "local")
    if k == "struct":
        parts.append(H.variant_name(node.get("res", {})) + "{" + ",".join(f["name"] for f in node["fields"]) + "}")
    kids = [sig(c) for c in H.children(node)]
    return "(" + " ".join(parts) + (" " + " ".join(kids) if kids else "") + ")"


def run(F, R, tier):
    R.undecided += ["actual interleavings of the concurrently polled futures (a scheduler experiment); R2 decides the structural independence: each future pairs its own DID with its own result, no shared mutable state",
                    "determinism of user-supplied handlers"]

    # ------------------------------------------------------------------ R1 dispatch
    r1 = R.rule("C20-R1", "T2+T3", "resolve: the handler applied is command_map.get(did.method()) on its Some edge, applied to did.as_str(); an unknown method yields UnsupportedMethodError and calls nothing")
    fn = RS + "::resolve"
    h = F.hir(fn)
    body = F.mir(fn)
    if r1.anchor(h, fn) and r1.anchor(body, fn):
        env = H.Env(h)
        gets = [n for n in H.walk(H.root(h)) if n.get("k") == "mcall" and n["name"] == "get" and (H.fn_name(n) or "").endswith("HashMap::get")]
        if r1.require(len(gets) == 1, (fn, "lookup"), "expected exactly one command_map.get(..)"):
            ro = H.origins(gets[0]["recv"], env)
            ko = H.origins(gets[0]["args"][0], env, accessors=ACC)
            r1.site("lookup: %s .get(%s)" % (sorted(map(str, ro)), sorted(map(str, ko))), gets[0]["sp"])
            r1.require(ro == {("param", "self", "command_map")}, (fn, "table"), "the handler is not looked up in self.command_map")
            r1.require(ko == {("param", "did", "method")}, (fn, "key"), "the handler is not looked up under did.method(): %s" % sorted(map(str, ko)))
        ap = [n for n in H.walk(H.root(h)) if n.get("k") == "mcall" and n["name"] == "apply"]
        if r1.require(len(ap) == 1, (fn, "apply"), "expected exactly one handler application"):
            do = H.origins(ap[0]["recv"], env)
            ao = H.origins(ap[0]["args"][0], env, accessors=ACC)
            r1.site("delegate.apply(%s) with delegate ← %s" % (sorted(map(str, ao)), sorted(map(str, do))), ap[0]["sp"])
            r1.require(do == {("call", "std::collections::hash::map::HashMap::get")}, (fn, "delegate"), "the applied handler is not the one looked up: %s" % sorted(map(str, do)))
            r1.require(ao == {("param", "did", "as_str")}, (fn, "argument"), "the handler is not applied to did.as_str(): %s" % sorted(map(str, ao)))
            tree = H.Tree(h)
            tried = {(H.fn_name(c) or "").rsplit("::", 1)[-1] for c in H.tried_calls(tree.preceding(ap[0]))}
            r1.require("get" in tried or "ok_or_else" in tried, (fn, "some-edge"), "the handler is applied without the lookup having succeeded")
        allv = {H.variant_name(x.get("res", {})) for x in H.walk(H.root(h)) if x.get("k") in ("path", "struct")}
        r1.require("UnsupportedMethodError" in allv, (fn, "unsupported"), "an unknown method is not reported as UnsupportedMethodError")
        # MIR: the apply call is reachable only through the success edge of the lookup
        code = F.mir(fn)
        aps = code.calls(re.compile(r"Command(<.*>)?(>)?::apply$"))
        if r1.require(len(aps) == 1, (fn, "apply-mir"), "handler application not found on the CFG"):
            ok, nc, ne = code.must_pass_success(re.compile(r"HashMap(<.*>)?::get$"), [aps[0][0]])
            r1.site("CFG: apply reachable only from the Some edge of command_map.get: %s" % ok, aps[0][1]["sp"])
            r1.require(ok, (fn, "apply-dominated"), "the handler application is reachable on a path where the lookup returned None")
    for ty in ("SendSyncCommand", "SingleThreadedCommand"):
        cands = F.find(r"^<identity_resolver::resolution::resolver::Resolver<.*%s.*>>::attach_handler$|^identity_resolver::resolution::resolver::Resolver::attach_handler$" % ty)
    ah = [p for p in F.find(r"Resolver::attach_handler$")]
    n_ins = 0
    for p in F.bodies_all.get(RS + "::attach_handler", []):
        hh = p.get("hir")
        if not hh:
            continue
        env = H.Env(hh)
        ins = [n for n in H.walk(H.root(hh)) if n.get("k") == "mcall" and n["name"] == "insert"]
        for i_ in ins:
            n_ins += 1
            ko = H.origins(i_["args"][0], env)
            vo = H.origins(i_["args"][1], env)
            r1.site("attach_handler: command_map.insert(%s, %s)" % (sorted(map(str, ko)), sorted(L.short(o[1]) for o in vo if o[0] == "call")), i_["sp"])
            r1.require(ko == {("param", "method")}, (RS + "::attach_handler", "key"), "the handler is not registered under the given method string")
            r1.require(bool(vo) and all(o[0] == "call" and re.search(r"(SendSync|SingleThreaded)Command::new$", o[1]) for o in vo), (RS + "::attach_handler", "value"), "the registered command is not built from the given handler")
            for c in H.calls(hh, re.compile(r"(SendSync|SingleThreaded)Command::new$")):
                r1.require(H.origins(c["args"][0], env) == {("param", "handler")}, (RS + "::attach_handler", "handler"), "the command does not wrap the given handler")
    r1.require(n_ins == 2, (RS + "::attach_handler", "both-kinds"), "expected attach_handler for both command kinds (2 insertions), found %d" % n_ins)
    for p in F.bodies_all.get(RS + "::attach_did_jwk_handler", []):
        hh = p.get("hir")
        if not hh:
            continue
        env = H.Env(hh)
        for c in H.calls(hh, RS + "::attach_handler"):
            a = H.call_args(c)
            ko = H.origins(a[1], env, extra=re.compile(r"to_string$"))
            fns = H.called_fns(H.root(hh))
            r1.site("attach_did_jwk_handler registers %s → expand_did_jwk" % sorted(map(str, ko)), c["sp"])
            r1.require(ko == {("def", "identity_did::did_jwk::DIDJwk::METHOD")}, (RS + "::attach_did_jwk_handler", "method"), "did:jwk handler is not registered under DIDJwk::METHOD")
            r1.require(CD + "::expand_did_jwk" in fns, (RS + "::attach_did_jwk_handler", "handler"), "did:jwk handler does not expand the DID with CoreDocument::expand_did_jwk")
    r1.floor(7)

    # ------------------------------------------------------------------ R2 order independence
    r2 = R.rule("C20-R2", "T13+T3", "resolve_multiple: input de-duplicated through a HashSet; each future resolves its own DID and pairs the result with that same DID; results collected into a map with try_collect; no shared mutable state")
    fn = RS + "::resolve_multiple"
    h = F.hir(fn)
    if r2.anchor(h, fn):
        # by abstract evaluation (async blocks evaluated eagerly on a generic element of the input): every future resolves its own
        # DID with self.resolve and hands (that DID, its document) to the collector; results come back through try_collect
        tab = SR.Table(F, fn, opaque=r"Resolver::resolve$", rule=r2)
        DIDS = SR.param("dids")
        n_res = 0
        for q in tab.paths:
            rs = q.calls(r"Resolver::resolve$")
            for e in rs:
                n_res += 1
                x = sym.term(e.args[1])
                r2.require(sym.term(e.args[0]) == SR.SELF, (fn, "own-did"), "a future does not resolve with self.resolve")
                r2.require(SR.derives(x, DIDS) and any(isinstance(z, tuple) and z[:1] == ("elem",) for z in sym.subterms(x)), (fn, "iterates-input"), "the futures are not created from the elements of the input DIDs: %s" % sym.fmt(x))
                if q.succeeded(e) is True:
                    doc = ("payload", e.result.t, "Ok", 0)
                    paired = False
                    for ev_ in q.events:
                        if ev_.kind != "call" or ev_ is e:
                            continue
                        for a_ in ev_.args:
                            for z in sym.subterms(sym.term(a_)):
                                if isinstance(z, tuple) and z[:1] == ("tuple",) and len(z) == 3 and z[1] == x and z[2] == doc:
                                    paired = True
                    for z in sym.subterms(sym.term(q.ret)) if q.ret is not None else ():
                        if isinstance(z, tuple) and z[:1] == ("tuple",) and len(z) == 3 and z[1] == x and z[2] == doc:
                            paired = True
                    r2.require(paired, (fn, "paired-by-identity"), "the resolved document is not paired with the DID inside the same future (pairing by position depends on completion order)")
            if SR.is_success(q.ret) and isinstance(q.ret, (sym.V, sym.Sym)):
                tcs = [e for e in q.events if e.kind == "call" and e.name == "try_collect"]
                r2.require(bool(tcs) and SR.derives(q.ret, tcs[-1].result.t), (fn, "returns"), "resolve_multiple does not return the map gathered by try_collect (first error aborts)")
        r2.site("each future calls self.resolve(&did) on its own element of the input and yields (did, doc): %d resolve call(s) on evaluated paths" % n_res)
        r2.require(n_res > 0 or not tab.paths, (fn, "own-did"), "no call of self.resolve found on any evaluated path")
        dedup = [n for n in H.walk(H.root(h)) if n.get("k") == "mcall" and n["name"] == "collect" and any("HashSet" in t for t in (n.get("targs") or []))]
        dset = [n for n in H.walk(H.root(h)) if n.get("k") == "let" and "HashSet" in (n["pat"].get("ty") or "")]
        r2.site("input de-duplicated through a HashSet: %s" % bool(dedup or dset))
        r2.require(bool(dedup or dset), (fn, "dedup"), "the input is not de-duplicated through a HashSet before resolution")
        tc = [n for n in H.walk(H.root(h)) if n.get("k") == "mcall" and n["name"] == "try_collect"]
        if r2.require(len(tc) == 1, (fn, "try_collect"), "results are not gathered with try_collect (first error aborts)"):
            intomap = any("HashMap" in t for t in (tc[0].get("targs") or [])) or any(n.get("k") == "let" and "HashMap" in (n["pat"].get("ty") or "") for n in H.walk(H.root(h)))
            r2.require(intomap, (fn, "into-map"), "results are not collected into a HashMap keyed by DID")
            r2.site("futures.try_collect::<HashMap<D, DOC>>().await", tc[0]["sp"])
        zips = [n for n in H.walk(H.root(h)) if n.get("k") == "mcall" and n["name"] in ("zip", "enumerate")]
        r2.require(not zips, (fn, "positional"), "results are matched to DIDs by position (zip/enumerate): FuturesUnordered yields in completion order")
    # no interior mutability in Resolver's fields; resolve takes &self
    fs = F.adt_fields(RS)
    if r2.anchor(fs, RS):
        tys = [f["ty"] for f in fs]
        r2.site("Resolver fields: %s" % tys)
        bad = [t for t in tys if re.search(r"(RefCell|Cell<|Mutex|RwLock|Atomic|UnsafeCell|OnceCell)", t)]
        r2.require(not bad, (RS, "interior-mutability"), "Resolver has interior mutability (%s): concurrently polled futures could observe one another" % bad)
    fdef = F.fns.get(RS + "::resolve")
    if r2.anchor(fdef, RS + "::resolve (sig)"):
        r2.require("&'" in fdef["sig"] or "&resolution" in fdef["sig"] or fdef["sig"].startswith("for<") or "(&" in fdef["sig"], (RS + "::resolve", "shared-ref"), "resolve does not take &self")
    r2.floor(4)

    # ------------------------------------------------------------------ R3 command siblings
    r3 = R.rule("C20-R3", "T5", "SendSyncCommand::new and SingleThreadedCommand::new perform the same steps: D::try_from(input) → DIDParsingError, handler(parsed DID), Into<DOC> / HandlerError")
    sigs = {}
    for ty in ("SendSyncCommand", "SingleThreadedCommand"):
        fn = CM + "::" + ty + "::new"
        h = F.hir(fn)
        if not r3.anchor(h, fn):
            continue
        env = H.Env(h)
        sigs[ty] = sig(H.root(h)).replace(ty, "Command")
        fns = H.called_fns(H.root(h))
        vs = {H.variant_name(x.get("res", {})) for x in H.walk(H.root(h)) if x.get("k") in ("struct", "path")}
        r3.site("%s::new: variants %s" % (ty, sorted(v for v in vs if v.endswith("Error"))), h["value"]["sp"])
        r3.require({"DIDParsingError", "HandlerError"} <= vs, (fn, "errors"), "%s::new does not map parse/handler failures to DIDParsingError/HandlerError" % ty)
        tf = H.calls(h, re.compile(r"TryFrom::try_from$"))
        ok = len(tf) == 1 and any(o[0] == "closure_param" for o in H.origins(tf[0]["args"][0], env))
        r3.require(ok, (fn, "parse-input"), "%s::new does not parse the input string with D::try_from(input)" % ty)
        # handler_clone(did): the handler is applied to the parsed DID
        hc = [n for n in H.walk(H.root(h)) if n.get("k") == "call" and H.local_name(n.get("callee")) == "handler_clone"]
        okh = len(hc) == 1 and bool(H.origins(hc[0]["args"][0], env)) and all(o[0] == "call" and o[1].endswith("try_from") for o in H.origins(hc[0]["args"][0], env, extra=re.compile(r"map_err$")))
        r3.require(okh, (fn, "handler-arg"), "%s::new does not call the handler with the DID parsed from the input" % ty)
    if len(sigs) == 2:
        same = sigs["SendSyncCommand"] == sigs["SingleThreadedCommand"]
        r3.site("structural signatures equal: %s" % same)
        r3.require(same, (CM, "siblings-differ"), "SendSyncCommand::new and SingleThreadedCommand::new are no longer structurally identical")
    for ty in ("SendSyncCommand", "SingleThreadedCommand"):
        fn = (F.find(r"^<identity_resolver::resolution::commands::%s as identity_resolver::resolution::commands::Command(<.*>)?>::apply$" % ty) or [None])[0]
        h = F.hir(fn) if fn else None
        if r3.anchor(h, ty + "::apply"):
            env = H.Env(h)
            calls = [n for n in H.walk(H.root(h)) if n.get("k") == "call" and n.get("callee") is not None]
            ok = len(calls) == 1 and H.origins(calls[0]["callee"], env) == {("param", "self", "fun")} and H.origins(calls[0]["args"][0], env) == {("param", "input")}
            r3.site("%s::apply = (self.fun)(input): %s" % (ty, ok))
            r3.require(ok, (fn, "apply"), "%s::apply does not call the stored function with the input" % ty)
    tr = F.traits.get(CM + "::Command")
    if r3.anchor(tr, "Command trait"):
        sealed = any(s.get("exported") is False for s in tr["supertraits"])
        r3.site("Command supertraits %s" % tr["supertraits"])
        r3.require(sealed, (CM + "::Command", "sealed"), "the Command trait is no longer sealed")
    r3.floor(6)

    # ------------------------------------------------------------------ R4 did:jwk
    r4 = R.rule("C20-R4", "T3", "expand_did_jwk: the single method is VerificationMethod::try_from(did_jwk) = new_from_jwk(did, did.jwk(), \"0\"), referenced from four relationships; the document id is the DID")
    fn = CD + "::expand_did_jwk"
    h = F.hir(fn)
    if r4.anchor(h, fn):
        env = H.Env(h)
        steps = [n["name"] for n in H.walk(H.root(h)) if n.get("k") == "mcall" and (H.fn_name(n) or "").startswith("identity_document::document::builder::DocumentBuilder::")]
        r4.site("builder steps %s" % sorted(steps), h["value"]["sp"])
        r4.require(sorted(steps) == sorted(["id", "verification_method", "assertion_method", "authentication", "capability_invocation", "capability_delegation", "build"]), (fn, "builder-steps"),
                   "expand_did_jwk does not build {id, one verification method, four references}: %s" % sorted(steps))
        for n in H.walk(H.root(h)):
            if n.get("k") == "mcall" and n["name"] == "verification_method" and (H.fn_name(n) or "").startswith("identity_document::document::builder"):
                oo = H.origins(n["args"][0], env)
                r4.require(bool(oo) and all(o[0] == "call" and re.search(r"VerificationMethod as core::convert::TryFrom<identity_did::did_jwk::DIDJwk>>::try_from$|TryFrom::try_from$", o[1]) for o in oo), (fn, "method-source"), "the method is not VerificationMethod::try_from(did_jwk): %s" % sorted(map(str, oo)))
            if n.get("k") == "mcall" and n["name"] == "id" and (H.fn_name(n) or "").startswith("identity_document::document::builder"):
                oo = H.origins(n["args"][0], env)
                r4.require(oo == {("param", "did_jwk")}, (fn, "id"), "the document id is not the did:jwk DID itself")
    tfn = (F.find(r"^<identity_verification::verification_method::method::VerificationMethod as core::convert::TryFrom<identity_did::did_jwk::DIDJwk>>::try_from$") or [None])[0]
    h = F.hir(tfn) if tfn else None
    if r4.anchor(h, "TryFrom<DIDJwk> for VerificationMethod"):
        env = H.Env(h)
        nj = H.calls(h, VM + "::new_from_jwk")
        if r4.require(len(nj) == 1, (tfn, "new_from_jwk"), "TryFrom<DIDJwk> does not build the method with new_from_jwk"):
            a = nj[0]["args"]
            o0 = H.origins(a[0], env)
            o1 = H.origins(a[1], env, accessors=re.compile(r"DIDJwk::jwk$"))
            lits = H.literals(a[2])
            r4.site("new_from_jwk(did ← %s, key ← %s, fragment %s)" % (sorted(map(str, o0)), sorted(map(str, o1)), lits), nj[0]["sp"])
            r4.require(o0 == {("param", "did")}, (tfn, "did"), "the method's DID is not the did:jwk DID")
            r4.require(o1 == {("param", "did", "jwk")}, (tfn, "key"), "the method's key is not exactly did.jwk() (no projection or transformation): %s" % sorted(map(str, o1)))
            r4.require(lits == ["0"], (tfn, "fragment"), "the method fragment is not \"0\" (did:jwk specification)")
    r4.floor(2)
