"""C20 — The resolver dispatches by DID method and is independent of completion order."""
import re

import hir as H
import mir as M
import rulelib as L
import symrules as SR
import sym

CRATES = ["identity_resolver", "identity_document", "identity_verification", "identity_did"]
RS = "identity_resolver::resolution::resolver::Resolver"
CM = "identity_resolver::resolution::commands"
CD = "identity_document::document::core_document::CoreDocument"
VM = "identity_verification::verification_method::method::VerificationMethod"
ACC = re.compile(r"DID::(method|as_str)$")


def sig(node):
    """Structural signature of an expression tree (callee names, literals, variants; local names erased)."""
    if not isinstance(node, dict):
        return str(node)
    k = node.get("k")
    parts = [k]
    if k in ("call", "mcall", "binary"):
        parts.append((node.get("fn") or node.get("name") or "").rsplit("::", 1)[-1])
    if k == "lit":
        parts.append(str(H.literals(node)))
    if k == "path":
        r = node.get("res", {})
        parts.append(H.variant_name(r) if "def" in r or "ctor_of" in r else "local")
    if k == "struct":
        parts.append(H.variant_name(node.get("res", {})) + "{" + ",".join(f["name"] for f in node["fields"]) + "}")
    kids = [sig(c) for c in H.children(node)]
    return "(" + " ".join(parts) + (" " + " ".join(kids) if kids else "") + ")"


def run(F, R, tier):
    R.undecided += ["actual interleavings of the concurrently polled futures (a scheduler experiment); R2 decides the structural independence: each future pairs its own DID with its own result, no shared mutable state",
                    "determinism of user-supplied handlers"]

    P = lambda x: sym.Sym(("param", x))  # noqa: E731

    # ------------------------------------------------------------------ R1 dispatch
    r1 = R.rule("C20-R1", "T8", "evaluated abstractly on a handler table {m0→c0, m1→c1}: resolve applies exactly the command stored under did.method() to did.as_str() and returns its result; no entry → Err(UnsupportedMethodError) with no handler applied; attach_handler (both command kinds) stores Command::new(handler) under the given method, replacing an earlier entry and touching no other; attach_did_jwk_handler registers expand_did_jwk under DIDJwk::METHOD")
    fn = RS + "::resolve"
    if r1.anchor(F.hir(fn), fn):
        ev = sym.Evaluator(F, opaque=r"DID::(method|as_str)$|Command::apply$", inline_depth=6, concrete_vec=True)
        table = [("m0", "c0"), ("m1", "c1")]

        def mk():
            return [sym.St(RS, {"command_map": sym.MapV([(k, P(c)) for k, c in table])}), P("did")]
        try:
            paths = ev.explore(fn, args=mk)
        except (sym.Abort, sym.TooManyPaths) as e:
            paths = []
            r1.fail((fn, "not-evaluable"), "Resolver::resolve could not be evaluated: %s" % e)
        METHOD = ("call", "identity_did::did::DID::method", (("param", "did"),))
        seen = set()
        for q in paths:
            if not q.complete:
                r1.fail((fn, "not-evaluable"), "Resolver::resolve: a path could not be evaluated to the end (%s)" % q.note)
                continue
            # which entry does this path's world select?
            val = {}
            for (a, c, _, _) in q.decisions:
                if a[0] == "eq":
                    lits = [x[1] for x in (a[1], a[2]) if isinstance(x, tuple) and x[:1] == ("lit",)]
                    other = [x for x in (a[1], a[2]) if not (isinstance(x, tuple) and x[:1] == ("lit",))]
                    if len(lits) == 1 and other and SR.pure(other[0], METHOD, conv=re.compile(r"(as_ref|as_str|borrow|deref|to_owned|to_string|clone|into|from)$")):
                        val[lits[0]] = bool(c)
                    elif len(lits) == 1:
                        r1.fail((fn, "key"), "the handler table is searched under %s, not under did.method()" % sym.fmt(other[0] if other else a[1]))
            hit = [k for k, _ in table if val.get(k) is True]
            aps = q.calls(r"Command::apply$")
            if hit:
                seen.add(hit[0])
                want = dict(table)[hit[0]]
                ok = len(aps) == 1 and sym.term(aps[0].args[0]) == ("param", want)
                r1.require(ok, (fn, "delegate"), "did.method() == %s: the command applied is %s, not the one registered under that method (%s)" % (hit[0], [sym.fmt(sym.term(e.args[0])) for e in aps], want))
                if ok:
                    arg = sym.term(aps[0].args[1])
                    r1.require(arg == ("call", "identity_did::did::DID::as_str", (("param", "did"),)) or SR.pure(arg, ("call", "identity_did::did::DID::as_str", (("param", "did"),))), (fn, "argument"), "the handler is not applied to did.as_str(): %s" % sym.fmt(arg))
                    r1.require(q.ret is not None and SR.pure(q.ret, aps[0].result.t), (fn, "returns"), "resolve does not return the result of the handler it applied: %s" % (q.ret,))
            elif all(val.get(k) is False for k, _ in table):
                seen.add(None)
                r1.require(not aps, (fn, "apply-dominated"), "a handler is applied although no entry matches did.method()")
                r1.require(SR.is_failure(q.ret) and "UnsupportedMethodError" in str(q.ret), (fn, "unsupported"), "an unknown method is not reported as UnsupportedMethodError: %s" % (q.ret,))
            else:
                r1.fail((fn, "lookup"), "a path of resolve does not decide the method against the whole handler table: %s" % q.describe()[:200])
        r1.site("resolve: dispatch table over {m0, m1, unknown}: rows seen %s" % sorted(map(str, seen)))
        r1.require(seen == {"m0", "m1", None} or not paths, (fn, "lookup"), "resolve does not dispatch on did.method() over the whole table (rows %s)" % sorted(map(str, seen)))
    # attach_handler: both impl blocks share one path
    bodies = [b for b in F.bodies_all.get(RS + "::attach_handler", []) if b.get("hir")]
    r1.require(len(bodies) == 2, (RS + "::attach_handler", "both-kinds"), "expected attach_handler for both command kinds, found %d" % len(bodies))
    for bi_, b in enumerate(bodies):
        ev = sym.Evaluator(F, opaque=r"Command::new$", inline_depth=6, concrete_vec=True)

        def mk():
            return [sym.St(RS, {"command_map": sym.MapV([("m0", P("c0")), ("m1", P("c1"))])}), P("method"), P("handler")]

        def fin(p_, a):
            p_.final = [(k, sym.term(v)) for k, v in a[0].f["command_map"].items] if isinstance(a[0].f.get("command_map"), sym.MapV) else None
        try:
            paths = ev.explore(RS + "::attach_handler", args=mk, finalize=fin, hir=b["hir"])
        except (sym.Abort, sym.TooManyPaths) as e:
            paths = []
            r1.fail((RS + "::attach_handler", "not-evaluable"), "attach_handler could not be evaluated: %s" % e)
        good = bool(paths)
        for q in paths:
            if not q.complete or getattr(q, "final", None) is None:
                r1.fail((RS + "::attach_handler", "not-evaluable"), "attach_handler: a path could not be evaluated to the end (%s)" % q.note)
                good = False
                continue
            same = {k: c for (a, c, _, _) in q.decisions if a[0] == "eq" for k in ("m0", "m1") if ("lit", k) in (a[1], a[2]) and ("param", "method") in (a[1], a[2])}
            want = {"m0": ("param", "c0"), "m1": ("param", "c1")}
            tgt = next((k for k in ("m0", "m1") if same.get(k) is True), None)
            got = {}
            for k, v in q.final:
                kk = k if isinstance(k, str) else ("method" if sym.term(k) == ("param", "method") else sym.fmt(sym.term(k)))
                got[kk] = v
            stored = got.get(tgt if tgt else "method")
            okv = isinstance(stored, tuple) and stored[:1] == ("call",) and re.search(r"Command::new$", re.sub(r"<[^<>]*>", "", stored[1])) is not None and stored[2] == (("param", "handler"),)
            if not okv:
                good = False
                r1.fail((RS + "::attach_handler", "value"), "attach_handler leaves %s under the given method (expected Command::new(handler)): re-attaching does not replace the handler, or the command does not wrap the given handler" % (sym.fmt(stored) if stored else "nothing"))
            others = {k: v for k, v in got.items() if k != (tgt if tgt else "method")}
            exp = {k: v for k, v in want.items() if k != tgt}
            if others != exp:
                good = False
                r1.fail((RS + "::attach_handler", "key"), "attach_handler changes entries other than the given method: %s" % {k: sym.fmt(v) for k, v in others.items()})
        r1.site("attach_handler (impl %d): command_map[method] = Command::new(handler), replacing; other entries untouched: %s" % (bi_, good))
    for b in [b for b in F.bodies_all.get(RS + "::attach_did_jwk_handler", []) if b.get("hir")]:
        ev = sym.Evaluator(F, opaque=r"Resolver::attach_handler$|CoreDocument::expand_did_jwk$", inline_depth=4)
        try:
            paths = [q for q in ev.explore(RS + "::attach_did_jwk_handler", hir=b["hir"]) if q.complete]
        except (sym.Abort, sym.TooManyPaths):
            paths = []
        okj = bool(paths)
        for q in paths:
            ah = q.calls(r"Resolver::attach_handler$")
            if len(ah) != 1:
                okj = False
                continue
            m_ = ah[0].args[1]
            jm = ev.const_value("identity_did::did_jwk::DIDJwk::METHOD")
            r1.require(m_ == jm or sym.term(m_) == sym.term(jm), (RS + "::attach_did_jwk_handler", "method"), "did:jwk handler is not registered under DIDJwk::METHOD: %s" % (m_,))
            hd = ah[0].args[2]
            okh = False
            if isinstance(hd, sym.Clo):
                try:
                    for hq in ev.explore_closure(hd, [P("did_jwk")]):
                        ex = hq.calls(r"CoreDocument::expand_did_jwk$")
                        okh = hq.complete and len(ex) == 1 and sym.term(ex[0].args[0]) == ("param", "did_jwk") and SR.pure(hq.ret, ex[0].result.t)
                except (sym.Abort, sym.TooManyPaths):
                    okh = False
            r1.require(okh, (RS + "::attach_did_jwk_handler", "handler"), "did:jwk handler does not expand the DID it is given with CoreDocument::expand_did_jwk")
            okj = okj and okh
        r1.site("attach_did_jwk_handler registers |did_jwk| expand_did_jwk(did_jwk) under DIDJwk::METHOD: %s" % okj)
    r1.floor(5)

    # ------------------------------------------------------------------ R2 order independence
    r2 = R.rule("C20-R2", "T8+T13", "resolve_multiple evaluated abstractly on 0..3 input DIDs, every equality pattern among them, every success/failure pattern of self.resolve and both completion orders of the futures: one resolve per distinct DID; all succeed → a map with exactly one entry per distinct DID whose value is the result of resolving that same DID; one fails → Err; no shared mutable state")
    fn = RS + "::resolve_multiple"
    if r2.anchor(F.hir(fn), fn):
        n_cases = 0
        good = True
        for order in ("fifo", "lifo"):
            for n in range(4):
                D = ["d%d" % i for i in range(n)]
                ev = sym.Evaluator(F, opaque=r"Resolver::resolve$", inline_depth=6, concrete_vec=True)
                ev.completion = order
                try:
                    paths = ev.explore(fn, args=(lambda D=D: [P("self"), [P(x) for x in D]]), max_paths=6000)
                except (sym.Abort, sym.TooManyPaths) as e:
                    r2.fail((fn, "not-evaluable"), "resolve_multiple could not be evaluated on %d DID(s): %s" % (n, e))
                    good = False
                    break
                for q in paths:
                    if not q.complete:
                        r2.fail((fn, "not-evaluable"), "resolve_multiple on %d DID(s): a path could not be evaluated to the end (%s)" % (n, q.note))
                        good = False
                        continue
                    # the world of this path: equalities among the inputs
                    cls = {x: x for x in D}
                    consistent = True
                    neq = []
                    for (a, c, _, _) in q.decisions:
                        if a[0] == "eq" and all(isinstance(t_, tuple) and t_[:1] == ("param",) and t_[1] in cls for t_ in (a[1], a[2])):
                            x, y = a[1][1], a[2][1]
                            if c:
                                rx, ry = cls[x], cls[y]
                                for k in cls:
                                    if cls[k] == ry:
                                        cls[k] = rx
                            else:
                                neq.append((x, y))
                    if any(cls[x] == cls[y] for x, y in neq):
                        continue      # equality is not transitive for the evaluator: an impossible world
                    # undecided pairs: the code never compared them, so it treats them as it would distinct ones
                    rs = q.calls(r"Resolver::resolve$")
                    resolved = [sym.term(e.args[1]) for e in rs]
                    names = [t_[1] if isinstance(t_, tuple) and t_[:1] == ("param",) else sym.fmt(t_) for t_ in resolved]
                    n_cases += 1
                    ok_ = all(sym.term(e.args[0]) == ("param", "self") for e in rs)
                    r2.require(ok_, (fn, "own-did"), "a future does not resolve with self.resolve")
                    reps = {cls[x] for x in D}
                    if not r2.require(all(x in cls for x in names) and sorted(cls[x] for x in names) == sorted(reps) and len(names) == len(reps), (fn, "dedup"),
                                      "on input [%s] (%s) self.resolve is called for %s: not exactly once per distinct DID" % (", ".join(D), q.describe()[:120], names)):
                        good = False
                        continue
                    fails = [e for e in rs if q.variant.get(e.result.t) == "Err"]
                    if fails:
                        if not r2.require(SR.is_failure(q.ret), (fn, "returns"), "a resolution failed but resolve_multiple returns %s (first error must abort)" % (q.ret,)):
                            good = False
                        continue
                    m_ = q.ret.fields[0] if isinstance(q.ret, sym.V) and q.ret.name == "Ok" and q.ret.fields else None
                    if not r2.require(isinstance(m_, sym.MapV) and m_.kind == "map", (fn, "into-map"), "all resolutions succeed but the result is not a map keyed by DID: %s" % (q.ret,)):
                        good = False
                        continue
                    keys = []
                    for k, v in m_.items:
                        kt = sym.term(k)
                        kn = kt[1] if isinstance(kt, tuple) and kt[:1] == ("param",) and kt[1] in cls else None
                        keys.append(kn)
                        src = [e for e in rs if q.variant.get(e.result.t) != "Err" and SR.pure(v, ("payload", e.result.t, "Ok", 0))]
                        okp = kn is not None and len(src) == 1 and cls.get(names[rs.index(src[0])]) == cls[kn]
                        if not r2.require(okp, (fn, "paired-by-identity"), "completion order %s, input [%s]: the entry for %s holds %s — not the document resolved for that DID (pairing by position depends on completion order)" % (
                                order, ", ".join(D), sym.fmt(kt), sym.fmt(sym.term(v)))):
                            good = False
                    if not r2.require(None not in keys and sorted(cls[k] for k in keys if k) == sorted(reps), (fn, "returns"), "input [%s]: the returned map has entries for %s, expected one per distinct DID" % (", ".join(D), keys)):
                        good = False
        r2.site("resolve_multiple agrees with the model on 0..3 DIDs × equality patterns × outcome patterns × 2 completion orders (%d paths): %s" % (n_cases, good))
        r2.require(n_cases >= 30 or not good, (fn, "coverage"), "only %d cases decided: the model check has gone (partly) inert" % n_cases)
    # no interior mutability in Resolver's fields; resolve takes &self
    fs = F.adt_fields(RS)
    if r2.anchor(fs, RS):
        tys = [f["ty"] for f in fs]
        r2.site("Resolver fields: %s" % tys)
        bad = [t for t in tys if re.search(r"(RefCell|Cell<|Mutex|RwLock|Atomic|UnsafeCell|OnceCell)", t)]
        r2.require(not bad, (RS, "interior-mutability"), "Resolver has interior mutability (%s): concurrently polled futures could observe one another" % bad)
    fdef = F.fns.get(RS + "::resolve")
    if r2.anchor(fdef, RS + "::resolve (sig)"):
        r2.require("&'" in fdef["sig"] or "&resolution" in fdef["sig"] or fdef["sig"].startswith("for<") or "(&" in fdef["sig"], (RS + "::resolve", "shared-ref"), "resolve does not take &self")
    r2.floor(2)

    # ------------------------------------------------------------------ R3 command siblings
    r3 = R.rule("C20-R3", "T5+T8", "SendSyncCommand and SingleThreadedCommand, evaluated abstractly (new(handler) then apply(input)): D::try_from(input) fails → Err(DIDParsingError) and the handler is not called; otherwise the handler is called once with exactly the parsed DID; its Ok is returned (converted), its Err → Err(HandlerError); both kinds have the same table; the Command trait is sealed")
    tables = {}
    for ty in ("SendSyncCommand", "SingleThreadedCommand"):
        nf = CM + "::" + ty + "::new"
        af = (F.find(r"^<identity_resolver::resolution::commands::%s as identity_resolver::resolution::commands::Command(<.*>)?>::apply$" % ty) or [None])[0]
        if not (r3.anchor(F.hir(nf), nf) and r3.anchor(F.hir(af) if af else None, ty + "::apply")):
            continue
        ev = sym.Evaluator(F, opaque=r"TryFrom::try_from$", inline_depth=6, concrete_vec=True)
        rows = set()
        try:
            made = [q for q in ev.explore(nf, args=[P("handler")]) if q.complete]
            if not r3.require(len(made) == 1 and made[0].ret is not None, (nf, "not-evaluable"), "%s::new could not be evaluated to a single command value" % ty):
                continue
            cmd = made[0].ret
            paths = ev.explore(af, args=lambda: [cmd, P("input")])
        except (sym.Abort, sym.TooManyPaths) as e:
            r3.fail((nf, "not-evaluable"), "%s could not be evaluated: %s" % (ty, e))
            continue
        for q in paths:
            if not q.complete:
                r3.fail((nf, "not-evaluable"), "%s::apply: a path could not be evaluated to the end (%s)" % (ty, q.note))
                continue
            tf = q.calls(r"TryFrom::try_from$")
            hc = [e for e in q.events if e.kind == "call" and sym.term(e.args[0] if e.args else None) is not None and re.search(r"handler", e.name or e.fn or "")]
            if not r3.require(len(tf) == 1 and sym.term(tf[0].args[0]) == ("param", "input"), (nf, "parse-input"), "%s does not parse the input string with D::try_from(input)" % ty):
                continue
            parsed = q.variant.get(tf[0].result.t)
            if parsed == "Err":
                r3.require(not hc, (nf, "handler-arg"), "%s calls the handler although the input did not parse as a DID" % ty)
                r3.require(SR.is_failure(q.ret) and "DIDParsingError" in str(q.ret), (nf, "errors"), "%s: a DID parse failure is not reported as DIDParsingError: %s" % (ty, q.ret))
                rows.add("parse-err")
                continue
            if not r3.require(len(hc) == 1 and SR.pure(hc[0].args[-1], ("payload", tf[0].result.t, "Ok", 0)), (nf, "handler-arg"), "%s does not call the handler exactly once with the DID parsed from the input" % ty):
                continue
            hv = q.variant.get(hc[0].result.t)
            if hv == "Err":
                r3.require(SR.is_failure(q.ret) and "HandlerError" in str(q.ret), (nf, "errors"), "%s: a handler failure is not reported as HandlerError: %s" % (ty, q.ret))
                rows.add("handler-err")
            else:
                okr = isinstance(q.ret, sym.V) and q.ret.name == "Ok" and q.ret.fields and SR.pure(q.ret.fields[0], ("payload", hc[0].result.t, "Ok", 0))
                r3.require(okr, (nf, "returns"), "%s does not return the document the handler produced: %s" % (ty, q.ret))
                rows.add("ok")
        tables[ty] = rows
        r3.site("%s: rows %s" % (ty, sorted(rows)))
        r3.require(rows == {"parse-err", "handler-err", "ok"}, (nf, "errors"), "%s does not have the three outcomes parse error / handler error / document: %s" % (ty, sorted(rows)))
    if len(tables) == 2:
        r3.require(tables["SendSyncCommand"] == tables["SingleThreadedCommand"], (CM, "siblings-differ"), "SendSyncCommand and SingleThreadedCommand behave differently")
    tr = F.traits.get(CM + "::Command")
    if r3.anchor(tr, "Command trait"):
        sealed = any(s_.get("exported") is False for s_ in tr["supertraits"])
        r3.site("Command supertraits %s" % tr["supertraits"])
        r3.require(sealed, (CM + "::Command", "sealed"), "the Command trait is no longer sealed")
    r3.floor(3)

    # ------------------------------------------------------------------ R4 did:jwk
    r4 = R.rule("C20-R4", "T8", "expand_did_jwk, evaluated abstractly with the builder steps as recorded calls: the document id is the DID, the single embedded method is VerificationMethod::try_from(did_jwk)?, each of the four relationships references that method's id exactly once, the result is build(); TryFrom<DIDJwk> = new_from_jwk(did, did.jwk(), Some(\"0\"))")
    fn = CD + "::expand_did_jwk"
    if r4.anchor(F.hir(fn), fn):
        tab = SR.Table(F, fn, opaque=r"DocumentBuilder::\w+$|TryFrom::try_from$|TryFrom<.*>>::try_from$", rule=r4)
        DJ = SR.param("did_jwk")
        okb = bool(tab.ok())
        for q in tab.paths:
            tf = [e for e in q.calls(r"try_from$") if e.args and SR.pure(e.args[0], DJ)]
            if not r4.require(len(tf) == 1, (fn, "method-source"), "the method is not built by VerificationMethod::try_from(did_jwk)"):
                okb = False
                continue
            steps = [(e.name, e) for e in q.events if e.kind == "call" and re.search(r"DocumentBuilder::\w+$", re.sub(r"<[^<>]*>", "", e.fn or ""))]
            if q.variant.get(tf[0].result.t) == "Err":
                r4.require(SR.is_failure(q.ret), (fn, "method-source"), "expand_did_jwk succeeds although the verification method could not be built")
                continue
            VMT = ("payload", tf[0].result.t, "Ok", 0)
            names = sorted(n_ for n_, _ in steps if n_ not in ("default", "new"))
            if not r4.require(names == sorted(["id", "verification_method", "assertion_method", "authentication", "capability_invocation", "capability_delegation", "build"]), (fn, "builder-steps"),
                              "expand_did_jwk does not build {id, one verification method, four references}: %s" % names):
                okb = False
                continue
            for n_, e in steps:
                if n_ == "id":
                    r4.require(SR.pure(e.args[1], DJ), (fn, "id"), "the document id is not the did:jwk DID itself: %s" % sym.fmt(sym.term(e.args[1])))
                elif n_ == "verification_method":
                    r4.require(SR.pure(e.args[1], VMT), (fn, "method-source"), "the embedded method is not VerificationMethod::try_from(did_jwk)?: %s" % sym.fmt(sym.term(e.args[1])))
                elif n_ in ("assertion_method", "authentication", "capability_invocation", "capability_delegation"):
                    a_ = sym.term(e.args[1])
                    r4.require(SR.derives(a_, VMT) and not SR.pure(a_, VMT) and "id" in sym.fmt(a_), (fn, "reference", n_), "%s is not a reference to the embedded method's id: %s" % (n_, sym.fmt(a_)))
                elif n_ == "build":
                    r4.require(SR.pure(q.ret, e.result.t) or (isinstance(q.ret, sym.V) and q.ret.fields and SR.derives(q.ret.fields[0], e.result.t)) or SR.derives(q.ret, e.result.t), (fn, "returns"), "expand_did_jwk does not return the built document")
        r4.site("expand_did_jwk: id = did, method = try_from(did)?, 4 references to its id, build(): %s" % okb)
    tfn = (F.find(r"^<identity_verification::verification_method::method::VerificationMethod as core::convert::TryFrom<identity_did::did_jwk::DIDJwk>>::try_from$") or [None])[0]
    if r4.anchor(F.hir(tfn) if tfn else None, "TryFrom<DIDJwk> for VerificationMethod"):
        tab = SR.Table(F, tfn, opaque=r"VerificationMethod::new_from_jwk$|DIDJwk::jwk$", rule=r4)
        DID_ = SR.param("did")
        okt = bool(tab.paths)
        for q in tab.paths:
            nj = q.calls(r"VerificationMethod::new_from_jwk$")
            if not r4.require(len(nj) == 1, (tfn, "new_from_jwk"), "TryFrom<DIDJwk> does not build the method with new_from_jwk"):
                okt = False
                continue
            a = nj[0].args
            r4.require(SR.pure(a[0], DID_), (tfn, "did"), "the method's DID is not the did:jwk DID")
            kt = sym.term(a[1])
            r4.require(isinstance(kt, tuple) and kt[:1] == ("call",) and kt[1].endswith("DIDJwk::jwk") and all(SR.pure(x, DID_) for x in kt[2]) or SR.pure(kt, ("call", "identity_did::did_jwk::DIDJwk::jwk", (DID_,))), (tfn, "key"),
                       "the method's key is not exactly did.jwk() (no projection or transformation): %s" % sym.fmt(kt))
            fr = a[2]
            r4.require(isinstance(fr, sym.V) and fr.name == "Some" and fr.fields == ("0",), (tfn, "fragment"), "the method fragment is not \"0\" (did:jwk specification): %s" % (fr,))
            r4.require(SR.pure(q.ret, nj[0].result.t), (tfn, "returns"), "TryFrom<DIDJwk> does not return the method it built")
        r4.site("TryFrom<DIDJwk>: new_from_jwk(did, did.jwk(), Some(\"0\")): %s" % okt)
    r4.floor(2)
