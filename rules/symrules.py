"""Rule building blocks on top of the path-sensitive abstract evaluator (sym.py)."""
import re

import sym
from sym import Sym, V, St, fmt, term, subterms
from rulelib import short

SELF = ("param", "self")


def fld(*names, base=SELF):
    t = base
    for n in names:
        t = ("field", t, n)
    return t


def param(name):
    return ("param", name)


def derives(t, root):
    """Does term t contain root (is it computed from it)?"""
    if isinstance(t, Sym):
        t = t.t
    elif not isinstance(t, tuple):
        t = term(t)
    return any(x == root for x in subterms(t))


def derives_any(t, roots):
    return any(derives(t, r) for r in roots)


class Table:
    """All paths of a function, with bookkeeping for evidence."""

    def __init__(self, F, fn, opaque=None, rule=None, **kw):
        self.fn = fn
        self.paths = []
        self.incomplete = []
        self.error = None
        try:
            ps = sym.explore(F, fn, opaque=opaque, **kw)
        except sym.TooManyPaths as e:
            self.error = str(e)
            ps = []
        except sym.Abort as e:
            self.error = str(e)
            ps = []
        for p in ps:
            (self.paths if p.complete else self.incomplete).append(p)
        if rule is not None:
            if self.error or not self.paths:
                rule.fail((fn, "not-evaluable"), "%s could not be evaluated abstractly (%s): the rule cannot decide it" % (
                    short(fn), self.error or ("all %d paths incomplete: %s" % (len(self.incomplete), self.incomplete[0].note if self.incomplete else "no path"))))
            elif self.incomplete:
                # fail closed: a path that cannot be evaluated to its end is not judged, and an unjudged accepting path is how a rule that
                # quantifies over "every accepting path" would pass vacuously
                rule.fail((fn, "not-evaluable"), "%s: %d of %d paths could not be evaluated to the end (first: %s): the rule cannot decide them" % (
                    short(fn), len(self.incomplete), len(self.incomplete) + len(self.paths), self.incomplete[0].note))

    def ok(self):
        return [p for p in self.paths if is_success(p.ret)]

    def err(self):
        return [p for p in self.paths if is_failure(p.ret)]


def is_success(r):
    if isinstance(r, V):
        return r.name in ("Ok", "Some") or r.name not in ("Err", "None", "Panic")
    if isinstance(r, bool):
        return r
    return True


def is_failure(r):
    if isinstance(r, V):
        return r.name in ("Err", "None")
    if isinstance(r, bool):
        return not r
    return False


def err_name(r):
    """Name of the error variant/struct carried by an Err(..) return value."""
    if isinstance(r, V) and r.name == "Err" and r.fields:
        e = r.fields[0]
        seen = 0
        while seen < 4:
            seen += 1
            if isinstance(e, V):
                if e.fields and isinstance(e.fields[0], (V, St)) and e.name in ("Box", "Some"):
                    e = e.fields[0]
                    continue
                return e.name
            if isinstance(e, St):
                return e.ty.split("::")[-1]
            if isinstance(e, Sym):
                # new(kind) / with_source(..) wrappers: look for a constructor term inside
                for x in subterms(e.t):
                    if isinstance(x, tuple) and x and x[0] == "ctor":
                        return x[1]
                return fmt(e.t)
            break
    return None


def variant(p, t):
    v = p.variant.get(t)
    return v if isinstance(v, str) else None


def eq_value(p, ra, rb):
    """Truth value of an equality atom relating a term derived from ra with one derived from rb on path p (None if absent)."""
    for (a, c, _, _) in p.decisions:
        if a[0] == "eq":
            x, y = a[1], a[2]
            if (derives(x, ra) and derives(y, rb)) or (derives(x, rb) and derives(y, ra)):
                return c
    return None


def eq_values(p, ra, rb):
    out = []
    for (a, c, _, _) in p.decisions:
        if a[0] == "eq":
            x, y = a[1], a[2]
            if (derives(x, ra) and derives(y, rb)) or (derives(x, rb) and derives(y, ra)):
                out.append(c)
    return out


def lt_relation(p, ra, rb):
    """How path p constrains (value from ra) vs (value from rb): returns a set of facts among {'a<b','a>=b','b<a','b>=a'}."""
    out = set()
    for (a, c, _, _) in p.decisions:
        if a[0] == "lt":
            x, y = a[1], a[2]
            if derives(x, ra) and derives(y, rb):
                out.add("a<b" if c else "a>=b")
            elif derives(x, rb) and derives(y, ra):
                out.add("b<a" if c else "b>=a")
    return out


def truth_of(p, pred):
    """[(term, value)] of `truth` atoms whose term satisfies pred."""
    return [(a[1], c) for (a, c, _, _) in p.decisions if a[0] == "truth" and pred(a[1])]


def writes(p, field=None):
    return [e for e in p.events if e.kind == "write" and (field is None or e.name == field)]


def calls(p, pat):
    return p.calls(pat)


def require_on_success(rule, tab, label, pred, key=None, what=None):
    """pred(path) must hold on every complete accepting path."""
    bad = [p for p in tab.ok() if not pred(p)]
    n = len(tab.ok())
    rule.site("%s: %s on %d accepting path(s)" % (short(tab.fn), label, n))
    if bad:
        rule.fail(key or (tab.fn, label), "%s: an accepting path does not satisfy `%s`%s — path: %s" % (
            short(tab.fn), what or label, "", bad[0].describe()[:300] or "(unconditional)"))
    return not bad


def call_succeeded(p, pat, arg_preds=None):
    """Some call matching pat was made on path p, its result was examined and found Ok/Some/true, and its arguments satisfy arg_preds
    ({index: predicate(value)})."""
    for e in p.calls(pat):
        if p.succeeded(e) is not True:
            continue
        if arg_preds and not all(i < len(e.args) and f(e.args[i]) for i, f in arg_preds.items()):
            continue
        return True
    return False


def int_bounds(p, pred):
    """(lo, hi) implied on path p for an integer term satisfying pred, from its comparisons with literals (None = unbounded)."""
    lo = hi = None
    for (a, c, _, _) in p.decisions:
        if a[0] != "lt":
            continue
        x, y = a[1], a[2]
        if pred(x) and isinstance(y, tuple) and y[:1] == ("lit",) and isinstance(y[1], int):
            n = y[1]
            if c:
                hi = n - 1 if hi is None else min(hi, n - 1)      # x < n
            else:
                lo = n if lo is None else max(lo, n)              # x >= n
        elif pred(y) and isinstance(x, tuple) and x[:1] == ("lit",) and isinstance(x[1], int):
            n = x[1]
            if c:
                lo = n + 1 if lo is None else max(lo, n + 1)      # n < x
            else:
                hi = n if hi is None else min(hi, n)              # x <= n
    return lo, hi


CONVERSIONS = re.compile(r"(try_from|from_slice|from_bytes|from|into|try_into|as_ref|as_slice|as_bytes|as_str|deref|borrow|clone|to_vec|to_owned|to_bytes|into_boxed_slice|into_vec|new)$")


def pure(t, root, conv=CONVERSIONS):
    """t is root itself or root passed through payload projections and conversion calls only — the *whole* value, not a
    slice, index, element or arithmetic combination of it."""
    if isinstance(t, Sym):
        t = t.t
    elif not isinstance(t, tuple):
        t = term(t)
    if t == root:
        return True
    if isinstance(t, tuple) and t[:1] == ("payload",):
        return pure(t[1], root, conv)
    if isinstance(t, tuple) and t[:1] == ("field",) and t[2] == "0":
        return pure(t[1], root, conv)     # newtype projection (`Jwt(String)`, `Url(..)`)
    if isinstance(t, tuple) and t[:1] == ("ctor",) and len(t) == 3:
        return pure(t[2], root, conv)
    if isinstance(t, tuple) and t[:1] == ("call",) and conv.search(re.sub(r"<[^<>]*>", "", t[1])):
        return any(pure(a_, root, conv) for a_ in t[2]) and not any(derives(a_, root) and not pure(a_, root, conv) for a_ in t[2])
    return False


def eval_term(t, env):
    """Concrete value of a closed arithmetic / comparison term under `env` (a dict term → int/bool); None when the term has a part
    that is neither a literal, an `env` entry nor an integer / boolean operator.  Rust semantics for unsigned operands: Div and Rem
    truncate, Sub below zero and division by zero are None (a panic or a wrap — never what a rule wants to rely on)."""
    if t in env:
        return env[t]
    if not isinstance(t, tuple):
        return t if isinstance(t, (int, bool)) else None
    if t[:1] == ("lit",):
        return t[1] if isinstance(t[1], (int, bool)) else None
    if t[:1] == ("op",) and len(t) == 4:
        a, b = eval_term(t[2], env), eval_term(t[3], env)
        if a is None or b is None:
            return None
        a_, b_ = int(a), int(b)
        o = t[1]
        if o == "Add":
            return a_ + b_
        if o == "Sub":
            return a_ - b_ if a_ >= b_ else None
        if o == "Mul":
            return a_ * b_
        if o in ("Div", "Rem"):
            if b_ == 0:
                return None
            return a_ // b_ if o == "Div" else a_ % b_
        if o == "Shl":
            return a_ << b_
        if o == "Shr":
            return a_ >> b_
        if o in ("BitAnd", "And"):
            return (a and b) if isinstance(a, bool) and isinstance(b, bool) else a_ & b_
        if o in ("BitOr", "Or"):
            return (a or b) if isinstance(a, bool) and isinstance(b, bool) else a_ | b_
        if o == "BitXor":
            return a_ ^ b_
        if o in ("Eq", "Ne", "Lt", "Le", "Gt", "Ge"):
            return {"Eq": a_ == b_, "Ne": a_ != b_, "Lt": a_ < b_, "Le": a_ <= b_, "Gt": a_ > b_, "Ge": a_ >= b_}[o]
        return None
    if t[:1] == ("op",) and len(t) == 3 and t[1] == "Not":
        a = eval_term(t[2], env)
        return None if a is None else (not a)
    if t[0] in ("lt", "le", "eq") and len(t) == 3:
        a, b = eval_term(t[1], env), eval_term(t[2], env)
        if a is None or b is None:
            return None
        return {"lt": int(a) < int(b), "le": int(a) <= int(b), "eq": int(a) == int(b)}[t[0]]
    if t[0] == "truth" and len(t) == 2:
        return eval_term(t[1], env)
    if t[:1] == ("call",) and len(t) == 3 and len(t[2]) == 2 and re.search(r"(usize|u64|u32)::div_ceil$", t[1]):
        a, b = eval_term(t[2][0], env), eval_term(t[2][1], env)
        return None if a is None or not b else -(-int(a) // int(b))
    return None


def path_at(paths, env):
    """the complete paths whose every decision evaluates (eval_term) to the value the path took; (paths, unevaluable atoms)"""
    out, unk = [], []
    for q in paths:
        ok = True
        for (a, c, _, _) in q.decisions:
            v = eval_term(a, env)
            if v is None:
                unk.append(a)
                ok = False
                break
            if bool(v) != bool(c):
                ok = False
                break
        if ok:
            out.append(q)
    return out, unk
