"""Path-sensitive abstract evaluation of typed HIR bodies over uninterpreted atoms.

A function body is evaluated with its parameters bound to *symbolic* values (terms).  Everything that is computed from
literals is computed; everything else stays a term: `self.nonce`, `decode_b64(params.x)`, `payload(Some, options.nonce)`.
Whenever control flow depends on a term the evaluator *forks*: it asks the current path for the truth value of a canonical atom
(`eq(a,b)`, `lt(a,b)`, `truth(t)`, `variant(t)`, `nonempty(t)`), takes the recorded value if the path already has one, and
otherwise explores every alternative.  The result is the function's decision table: a list of paths, each with its atom
valuation, its return value and the ordered list of opaque calls it made (with argument terms and whether their result was
examined).  Workspace helpers are inlined, `?`, `let-else`, `match`, `if let`, early returns, closures, Option/Result/bool/iterator
combinators and `for` loops are interpreted, so the table does not depend on how the code spells its control flow.

Nothing of the repository is run: this folds an expression tree under assumptions, like constant folding with case splits.  No
solver is involved; an atom is split both ways unless the path already fixes it, so some listed paths may be infeasible
(over-approximation: a rule that demands something of *every* accepting path stays sound).
"""
import re

import hir as H


class Abort(Exception):
    """The evaluator met something it cannot interpret; the path is abandoned and reported as incomplete."""


class TooManyPaths(Exception):
    pass


class Infeasible(Exception):
    """The assumptions of the current path contradict each other (e.g. every variant of an enum excluded)."""


class Sym:
    __slots__ = ("t",)

    def __init__(self, t):
        self.t = t

    def __repr__(self):
        return "⟨%s⟩" % fmt(self.t)

    def __eq__(self, o):
        return isinstance(o, Sym) and o.t == self.t

    def __hash__(self):
        return hash(("Sym", self.t))


class V:
    """Enum variant value (Option/Result included): name + payload."""
    __slots__ = ("name", "fields", "named")

    def __init__(self, name, fields=(), named=None):
        self.name, self.fields, self.named = name, tuple(fields), named

    def __repr__(self):
        return "%s(%s)" % (self.name, ", ".join(repr(f) for f in self.fields)) if self.fields else self.name

    def __eq__(self, o):
        return isinstance(o, V) and o.name == self.name and o.fields == self.fields

    def __hash__(self):
        return hash(("V", self.name, self.fields))


class St:
    """Struct value: type path + field map."""
    __slots__ = ("ty", "f")

    def __init__(self, ty, f):
        self.ty, self.f = ty, dict(f)

    def __repr__(self):
        return "%s{%s}" % (self.ty.split("::")[-1], ", ".join("%s: %r" % kv for kv in self.f.items()))

    def __eq__(self, o):
        return isinstance(o, St) and o.ty == self.ty and o.f == self.f

    def __hash__(self):
        return hash(("St", self.ty, tuple(sorted(self.f))))


class Ch(int):
    pass


class Clo:
    __slots__ = ("node", "env", "ev")

    def __init__(self, node, env):
        self.node, self.env = node, env

    def __repr__(self):
        return "|closure@%s|" % self.node.get("sp", "?").split("/")[-1]


class Ctor:
    """A variant/struct constructor used as a function value (`.map(Some)`, `.map_err(Error::X)`)."""
    __slots__ = ("name",)

    def __init__(self, name):
        self.name = name

    def __repr__(self):
        return "ctor:%s" % self.name


class FnRef:
    __slots__ = ("path",)

    def __init__(self, path):
        self.path = path

    def __repr__(self):
        return "fn:%s" % self.path


class Iter:
    """Lazy iterator over a symbolic source with a pipeline of adapters."""
    __slots__ = ("src", "ops")

    def __init__(self, src, ops=()):
        self.src, self.ops = src, tuple(ops)

    def __repr__(self):
        return "iter(%s%s)" % (fmt(self.src), "".join("." + o[0] for o in self.ops))


class ChainIter:
    """`a.chain(b)…`: the generic element comes from one of the parts (decided per path)."""
    __slots__ = ("parts", "ops")

    def __init__(self, parts, ops=()):
        self.parts, self.ops = list(parts), tuple(ops)

    def __repr__(self):
        return "chain(%s)" % ", ".join(repr(p) for p in self.parts)


class CharStream:
    """`s.chars()` of a symbolic string as a positional stream: element k is the term at(src, k); whether it exists is the atom
    has(src, k) (monotone: has(k) ⇒ has(j) for j < k).  Clones share the source and keep their own position."""
    __slots__ = ("src", "pos", "indices")

    def __init__(self, src, pos=0, indices=False):
        # indices: `char_indices()` — element k is the pair (bidx(src, k), at(src, k)); bidx is the byte offset of character k
        self.src, self.pos, self.indices = src, pos, indices

    def __repr__(self):
        return "%s(%s)@%d" % ("char_indices" if self.indices else "chars", fmt(self.src), self.pos)


class SplitStream:
    """`s.split(sep)` / `s.splitn(n, sep)` of a symbolic string as a positional stream: segment k is the term seg(src, sep, k), it exists
    iff hasseg(src, sep, k) (monotone; segment 0 always exists).  With a limit n, element n-1 is rest(src, sep, n-1) — everything after
    the (n-1)th separator — and exists iff hasseg(src, sep, n-1)."""
    __slots__ = ("src", "sep", "pos", "limit", "start")

    def __init__(self, src, sep, pos=0, limit=None):
        self.src, self.sep, self.pos, self.limit, self.start = src, sep, pos, limit, pos

    def __repr__(self):
        return "split(%s, %r)@%d" % (fmt(self.src), self.sep, self.pos)


class SplitVec:
    """`s.split(sep).collect::<Vec<_>>()`: the segments from position `pos` on as a sequence whose length is decided by hasseg atoms
    (a slice pattern of n elements matches iff segment pos+n-1 exists and segment pos+n does not)."""
    __slots__ = ("st",)

    def __init__(self, st):
        self.st = st

    def __repr__(self):
        return "collect(%r)" % (self.st,)


class ElemRef:
    """`&mut xs[i]` of a concrete list (concrete_vec mode): reading through it gives the element, `*r = v` stores into the list."""
    __slots__ = ("lst", "idx")

    def __init__(self, lst, idx):
        self.lst, self.idx = lst, idx

    def get(self):
        return self.lst[self.idx]

    def __repr__(self):
        return "&mut [%d]=%r" % (self.idx, self.lst[self.idx])


class LIter(list):
    """The iterator obtained from a concrete list (`v.iter()`, `v.into_iter()`) in concrete_vec mode: a list (so that every adapter and
    terminal defined on lists applies) that `next()` consumes — the vector it came from is not touched."""
    __slots__ = ()


class MapV:
    """Concrete map / set (HashMap, BTreeMap, HashSet, …): an association list compared with `Eq` on the keys (symbolic keys
    give eq atoms).  Sets are maps to UNIT.  Iteration order is the insertion order — rules must not rely on it."""
    __slots__ = ("items", "kind")

    def __init__(self, items=(), kind="map"):
        self.items = [list(kv) for kv in items]
        self.kind = kind

    def __repr__(self):
        if self.kind == "set":
            return "{%s}" % ", ".join(repr(k) for k, _ in self.items)
        return "{%s}" % ", ".join("%r: %r" % (k, v) for k, v in self.items)


class EntryV:
    __slots__ = ("m", "key", "slot")

    def __init__(self, m, key, slot):
        self.m, self.key, self.slot = m, key, slot       # slot: the [k, v] cell when occupied, else None


UNIT = ()


def term(v):
    """Term of a value (for use inside other terms)."""
    if isinstance(v, Sym):
        return v.t
    if isinstance(v, bool):
        return ("lit", v)
    if isinstance(v, Ch):
        return ("lit", chr(int(v)))
    if isinstance(v, (int, str)):
        return ("lit", v)
    if isinstance(v, V):
        return ("ctor", v.name) + tuple(term(x) for x in v.fields)
    if isinstance(v, St):
        return ("struct", v.ty) + tuple((k, term(x)) for k, x in sorted(v.f.items()))
    if isinstance(v, tuple):
        return ("tuple",) + tuple(term(x) for x in v)
    if isinstance(v, list):
        return ("list",) + tuple(term(x) for x in v)
    if isinstance(v, ElemRef):
        return term(v.get())
    if isinstance(v, CharStream):
        return ("stream", v.src, v.pos)
    if isinstance(v, SplitStream):
        return ("splitstream", v.src, ("lit", v.sep), v.pos)
    if isinstance(v, SplitVec):
        return ("splitvec", v.st.src, ("lit", v.st.sep), v.st.pos)
    if isinstance(v, MapV):
        return ("map",) + tuple(("tuple", term(k), term(x)) for k, x in v.items)
    if isinstance(v, Iter):
        return ("iter", v.src) + tuple(o[0] for o in v.ops)
    if isinstance(v, ChainIter):
        return ("chain",) + tuple(term(p_) for p_ in v.parts)
    if isinstance(v, Clo):
        return ("closure", v.node.get("sp"))
    if isinstance(v, Ctor):
        return ("ctorfn", v.name)
    if isinstance(v, FnRef):
        return ("fn", v.path)
    if v is None:
        return ("none",)
    return ("?", repr(v))


def fmt(t, depth=0):
    if not isinstance(t, tuple) or not t:
        return str(t)
    if depth > 8:
        return "…"
    k = t[0]
    f = lambda x: fmt(x, depth + 1)  # noqa: E731
    if k == "struct" and depth <= 8:
        return "%s{%s}" % (str(t[1]).split("::")[-1], ", ".join("%s: %s" % (p_[0], f(p_[1])) for p_ in t[2:]))
    if k == "param":
        return t[1]
    if k == "field":
        return "%s.%s" % (f(t[1]), t[2])
    if k == "call":
        return "%s(%s)" % (re.sub(r"<[^<>]*>", "", t[1]).split("::")[-1], ", ".join(f(x) for x in t[2]))
    if k == "payload":
        return "%s!%s%s" % (f(t[1]), t[2], ("." + str(t[3])) if len(t) > 3 and t[3] else "")
    if k == "concat":
        return "concat(%s)" % ", ".join(repr(p_[1]) if p_[0] == "lit" else f(p_[1]) for p_ in t[1])
    if k == "at":
        return "%s[%s]" % (f(t[1]), t[2])
    if k == "stream":
        return "chars(%s)@%s" % (f(t[1]), t[2])
    if k == "elem":
        return "%s[*%s]" % (f(t[1]), t[2])
    if k == "lit":
        return repr(t[1])
    if k == "ctor":
        return "%s(%s)" % (t[1], ", ".join(f(x) for x in t[2:])) if len(t) > 2 else t[1]
    if k == "def":
        return t[1].split("::")[-1]
    if k == "tuple":
        return "(%s)" % ", ".join(f(x) for x in t[1:])
    if k == "op":
        return "(%s %s %s)" % (f(t[2]), t[1], f(t[3])) if len(t) == 4 else "%s(%s)" % (t[1], f(t[2]))
    if k == "index":
        return "%s[%s]" % (f(t[1]), f(t[2]))
    if k == "struct":
        return "%s{%s}" % (str(t[1]).split("::")[-1], ", ".join("%s: %s" % (p_[0], f(p_[1])) for p_ in t[2:]))
    return "%s(%s)" % (k, ", ".join(f(x) for x in t[1:]))


def subterms(t):
    yield t
    if isinstance(t, tuple):
        for x in (t[1:] if t and isinstance(t[0], str) else t):
            if isinstance(x, tuple):
                yield from subterms(x)


# ---------------------------------------------------------------------------------------------------------------------------

class Event:
    __slots__ = ("fn", "args", "result", "sp", "kind", "name", "nd")

    def __init__(self, kind, fn, args, result, sp, name=None):
        self.kind, self.fn, self.args, self.result, self.sp, self.name = kind, fn, args, result, sp, name
        self.nd = None     # number of decisions the path had made when the event happened (set by the path)

    def __repr__(self):
        return "%s %s(%s)" % (self.kind, (self.fn or self.name or "?").split("::")[-1], ", ".join(repr(a) for a in self.args))


class _Events(list):
    """event list that stamps each event with the number of decisions made so far"""

    def __init__(self, path):
        super().__init__()
        self._path = path

    def append(self, e):
        e.nd = len(self._path.decisions)
        super().append(e)


class Path:
    def __init__(self, prefix):
        self.prefix = list(prefix)      # forced choices (indices) for the first decisions
        self.decisions = []             # [(atom, choice, n_options)]
        self.val = {}                   # atom -> choice
        self.events = _Events(self)
        self.ret = None
        self.complete = True
        self.note = None
        self.variant = {}               # term -> variant name | ("not", frozenset)
        self.heap = {}                  # (term, field) -> value  (writes through symbolic places)

    def decide(self, atom, options):
        if atom in self.val:
            return self.val[atom]
        i = len(self.decisions)
        k = self.prefix[i] if i < len(self.prefix) else 0
        if k >= len(options):
            k = 0
        c = options[k]
        self.decisions.append((atom, c, len(options), k))
        self.val[atom] = c
        return c

    # ---- queries for rules
    def truth(self, atom):
        return self.val.get(atom)

    def calls(self, pat):
        rx = re.compile(pat) if isinstance(pat, str) else pat
        return [e for e in self.events if e.kind == "call" and rx.search(e.fn or e.name or "")]

    def succeeded(self, ev):
        """True if the path examined the event's result and took its Ok/Some side; False for Err/None; None if never examined."""
        if isinstance(ev.result, Sym):
            v = self.variant.get(ev.result.t)
            if v in ("Ok", "Some"):
                return True
            if v in ("Err", "None"):
                return False
            tv = self.val.get(("truth", ev.result.t))
            if tv is not None:
                return tv
        return None

    def outcome(self):
        r = self.ret
        if isinstance(r, V):
            if r.name in ("Err",) and r.fields:
                e = r.fields[0]
                return "Err(%s)" % (e.name if isinstance(e, V) else (e.ty.split("::")[-1] if isinstance(e, St) else "…"))
            return r.name
        if isinstance(r, bool):
            return str(r)
        return "?"

    def describe(self):
        return " ∧ ".join("%s=%s" % (fmt_atom(a), c) for a, c, _, _ in self.decisions)


def fmt_atom(a):
    if a[0] in ("eq", "lt"):
        return "%s(%s, %s)" % (a[0], fmt(a[1]), fmt(a[2]))
    return "%s(%s)" % (a[0], ", ".join(fmt(x) if isinstance(x, tuple) else str(x) for x in a[1:]))


class Panic(Exception):
    pass


_CANON = None


def param_name(F, fn, i, default=None):
    """name by which parameter i of fn is known to the evaluator's top-level exploration (reviewed name by position, else today's)"""
    canon = _canon_params().get(fn)
    h = F.hir(fn)
    ps = (h or {}).get("params", [])
    if canon is not None and len(canon) == len(ps) and i < len(canon) and canon[i]:
        return canon[i]
    if i < len(ps) and ps[i].get("k") == "bind" and ps[i].get("name"):
        return ps[i]["name"]
    return default or "_%d" % i


def _canon_params():
    global _CANON
    if _CANON is None:
        import json
        import os
        try:
            _CANON = json.load(open(os.path.join(os.path.dirname(os.path.abspath(__file__)), "param_names.json")))
        except Exception:
            _CANON = {}
    return _CANON


class _Return(Exception):
    def __init__(self, v):
        self.v = v


class _Break(Exception):
    def __init__(self, v):
        self.v = v


class _Continue(Exception):
    pass


IDENTITY_METHODS = {
    "as_ref", "as_mut", "as_deref", "as_deref_mut", "clone", "cloned", "copied", "to_owned", "to_string", "into", "borrow", "borrow_mut", "deref", "deref_mut", "as_str",
    "as_slice", "as_bytes", "to_vec", "into_boxed_slice", "into_vec", "into_inner", "as_mut_slice", "into_owned", "by_ref", "peekable", "fuse", "iter", "iter_mut", "into_iter",
    "to_lowercase_DISABLED",
}
IDENTITY_FNS = re.compile(
    r"(^|::)(core::convert::(Into|From|AsRef|AsMut)(<.*>)?(>)?::(into|from|as_ref|as_mut)|core::clone::Clone::clone|alloc::borrow::ToOwned::to_owned|alloc::string::ToString::to_string"
    r"|core::ops::deref::Deref(Mut)?::deref(_mut)?|core::borrow::Borrow(Mut)?(<.*>)?(>)?::borrow(_mut)?|alloc::boxed::Box::new|alloc::boxed::box_new|alloc::slice::<impl \[T\]>::(into_vec|to_vec)"
    r"|core::iter::traits::collect::IntoIterator::into_iter|core::future::into_future::IntoFuture::into_future|core::pin::Pin::new(_unchecked)?|alloc::boxed::Box::pin"
    r"|core::hint::must_use|core::ops::try_trait::Try::from_output_DISABLED)$")


class Evaluator:
    def __init__(self, F, oracle=None, inline_depth=4, opaque=None, loop_bound=2, inline_filter=None, concrete_vec=False, char_streams=False):
        self.F = F
        self.char_streams = char_streams  # `sym_str.chars()` evaluates to a positional CharStream
        self.concrete_vec = concrete_vec  # Vec::new()/with_capacity() evaluate to concrete (mutable) empty lists
        self.oracle = oracle            # callable(fn_path, node) -> None | "opaque"
        self.opaque = re.compile(opaque) if isinstance(opaque, str) else opaque
        self.inline_depth = inline_depth
        self.loop_bound = loop_bound
        self.inline_filter = inline_filter
        self.path = None
        self.fresh = 0
        self.types = {}                 # term -> type string (best effort, for enum variant domains)

    # ------------------------------------------------------------------ exploration
    def explore(self, fn, args=None, max_paths=3000, self_value=None, finalize=None, hir=None):
        """args: list of values, or a callable returning a fresh list per path (needed when the values are mutable places);
        finalize(path, args): called after each completed path (to snapshot the final state of mutable arguments)."""
        h = hir if hir is not None else self.F.hir(fn)     # hir=: one of several bodies sharing a path (impl blocks differing in type arguments)
        if h is None:
            raise Abort("no HIR for %s" % fn)
        done = []
        stack = [[]]
        while stack:
            prefix = stack.pop()
            p = Path(prefix)
            self.path = p
            self.fresh = 0
            self.stack_fns = [fn]
            infeasible = False
            try:
                a_ = args() if callable(args) else args
                p.ret = self.call_body(h, fn, a_, top=True)
                if finalize is not None:
                    finalize(p, a_)
            except Infeasible:
                infeasible = True
            except Panic as e:
                p.ret = V("Panic", (str(e),))
            except Abort as e:
                p.complete = False
                p.note = str(e)
            except RecursionError:
                p.complete = False
                p.note = "recursion limit"
            if not infeasible:
                done.append(p)
            if len(done) > max_paths:
                raise TooManyPaths("%s: more than %d paths" % (fn, max_paths))
            # schedule siblings of every decision made beyond the forced prefix
            for i in range(len(prefix), len(p.decisions)):
                _, _, n, k = p.decisions[i]
                for alt in range(k + 1, n):
                    stack.append([d[3] for d in p.decisions[:i]] + [alt])
        return done

    def explore_closure(self, clo, args, max_paths=2000):
        """Decision table of applying a closure value (captured environment as recorded when it was created) to `args`."""
        done = []
        stack = [[]]
        while stack:
            prefix = stack.pop()
            p = Path(prefix)
            self.path = p
            self.fresh = 1000
            self.stack_fns = ["<closure>"]
            infeasible = False
            try:
                c2 = Clo(clo.node, dict(clo.env))
                p.ret = self.apply(c2, list(args), 0)
            except Infeasible:
                infeasible = True
            except Panic as e:
                p.ret = V("Panic", (str(e),))
            except _Return as r:
                p.ret = r.v
            except Abort as e:
                p.complete = False
                p.note = str(e)
            if not infeasible:
                done.append(p)
            if len(done) > max_paths:
                raise TooManyPaths("closure: more than %d paths" % max_paths)
            for i in range(len(prefix), len(p.decisions)):
                _, _, n, k = p.decisions[i]
                for alt in range(k + 1, n):
                    stack.append([d[3] for d in p.decisions[:i]] + [alt])
        return done

    def call_body(self, h, fn, args, top=False, depth=0):
        env = {}
        params = h.get("params", [])
        if args is None:
            # parameters are known to the rules by the names they had on the reviewed tree, by position: renaming a parameter (not part of
            # a Rust signature) must not change what a rule sees
            canon = _canon_params().get(fn) if top else None
            if canon is not None and len(canon) != len(params):
                canon = None
            args = []
            for i, p in enumerate(params):
                nm = (canon[i] if canon is not None and canon[i] else None) or (p.get("name", "_%d" % i) if p.get("k") == "bind" else "_%d" % i)
                args.append(Sym(("param", nm)))
        for p, a in zip(params, args):
            if isinstance(a, Sym) and p.get("k") == "bind" and p.get("ty"):
                self.types.setdefault(a.t, p["ty"])
            if not self.bind(p, a, env):
                raise Abort("refutable parameter pattern")
        try:
            v = self.ev(H.root(h), env, depth)
        except _Return as r:
            v = r.v
        return self.run_future(v, depth)

    def run_future(self, v, depth):
        """`async fn` / `Box::pin(async move {..})`: evaluate the coroutine body eagerly."""
        if isinstance(v, Clo) and (v.node.get("ckind") or "").startswith("Coroutine"):
            try:
                return self.run_future(self.ev(v.node["body"], dict(v.env), depth), depth)
            except _Return as r:
                return r.v
        return v

    # ------------------------------------------------------------------ decisions
    def decide_bool(self, v):
        if isinstance(v, bool):
            return v
        if isinstance(v, Sym):
            t = v.t
            if t == ("default",):
                return False
            if t[0] == "op" and t[1] == "!":
                return not self.decide_bool(Sym(t[2]))
            return self.path.decide(("truth", t), [True, False])
        raise Abort("non-boolean condition %r" % (v,))

    def enum_variants(self, t):
        ty = self.types.get(t)
        if not ty:
            return None
        ty = re.sub(r"^(&(mut )?)+", "", ty)
        head = ty.split("<")[0]
        a = self.resolve_adt(head)
        if a and a.get("kind") == "Enum":
            return [x["name"] for x in a["variants"]]
        if head.endswith("::Option"):
            return ["Some", "None"]
        if head.endswith("::Result"):
            return ["Ok", "Err"]
        return None

    def resolve_adt(self, head):
        a = self.F.adts.get(head)
        if a is not None or "::" not in head and not head[:1].isupper():
            return a
        cache = self.__dict__.setdefault("_adt_cache", {})
        if head not in cache:
            c = [x for p_, x in self.F.adts.items() if p_.endswith("::" + head)]
            cache[head] = c[0] if len(c) == 1 else None
        return cache[head]

    def variant_of(self, v, options):
        """Decide which variant the symbolic value has; options: candidate names (plus '*' for 'any other')."""
        t = v.t
        known = self.path.variant.get(t)
        if isinstance(known, str):
            return known
        excluded = known[1] if known else frozenset()
        allv = self.enum_variants(t)
        opts = [o for o in options if o not in excluded]
        if allv is not None:
            named = [o for o in opts if o != "*"]
            rest = [x for x in allv if x not in excluded and x not in named]
            opts = [o for o in named if o in allv]
            if "*" in options and rest:
                opts.append("*" if len(rest) > 1 else rest[0])
        if not opts:
            raise Infeasible()
        if len(opts) == 1:
            c = opts[0]
        else:
            c = self.path.decide(("variant", t, tuple(opts)), opts)
        if c == "*":
            self.path.variant[t] = ("not", excluded | frozenset(o for o in options if o != "*"))
        else:
            self.path.variant[t] = c
        return c

    def force(self, v, family):
        """Turn a symbolic Option/Result into a concrete variant value by case split. family: ('Some','None') or ('Ok','Err')."""
        if isinstance(v, V):
            return v
        if isinstance(v, Sym):
            c = self.variant_of(v, list(family))
            if c in ("Some", "Ok", "Err"):
                pt = ("payload", v.t, c, 0)
                ty = self.types.get(v.t)
                if ty and pt not in self.types:
                    m = re.match(r"^(?:&(?:mut )?)*[\w:]*(?:Option|Result)<(.*)>$", ty)
                    if m:
                        inner = split_targs(m.group(1))
                        if c in ("Some", "Ok") and inner:
                            self.types[pt] = inner[0]
                        elif c == "Err" and len(inner) > 1:
                            self.types[pt] = inner[1]
                return V(c, (Sym(pt),))
            return V(c, ())
        raise Abort("expected Option/Result, got %r" % (v,))

    def compare(self, op, a, b):
        conc = lambda x: isinstance(x, (bool, int, str)) and not isinstance(x, Sym)  # noqa: E731
        if isinstance(a, tuple) and isinstance(b, tuple) and not isinstance(a, Sym) and len(a) == len(b) and op in ("Lt", "Le", "Gt", "Ge"):
            # lexicographic, as derived PartialOrd on tuples
            for x, y in zip(a, b):
                if not self.compare("Eq", x, y):
                    return self.compare({"Le": "Lt", "Ge": "Gt"}.get(op, op), x, y)
            return op in ("Le", "Ge")
        if isinstance(a, V) and isinstance(b, V) and op in ("Lt", "Le", "Gt", "Ge") and {a.name, b.name} <= {"Some", "None"}:
            # Option's derived order: None < Some(_), Some(x) vs Some(y) by x vs y
            if a.name == "Some" and b.name == "Some":
                return self.compare(op, a.fields[0], b.fields[0])
            ra, rb = (0 if a.name == "None" else 1), (0 if b.name == "None" else 1)
            return {"Lt": ra < rb, "Le": ra <= rb, "Gt": ra > rb, "Ge": ra >= rb}[op]
        if isinstance(a, tuple) and isinstance(b, tuple) and not isinstance(a, Sym) and not isinstance(b, Sym) and len(a) == len(b) and op in ("Eq", "Ne") \
                and (self.has_sym(a) or self.has_sym(b)):
            # component-wise, left to right, as the tuple impls of PartialEq do
            res = True
            for x, y in zip(a, b):
                if not self.compare("Eq", x, y):
                    res = False
                    break
            return res if op == "Eq" else not res
        if isinstance(a, St) and isinstance(b, St) and op in ("Eq", "Ne") and a.ty == b.ty and set(a.f) == set(b.f):
            res = all(self.compare("Eq", a.f[k_], b.f[k_]) for k_ in sorted(a.f))
            return res if op == "Eq" else not res
        if conc(a) and conc(b) or (isinstance(a, (V, tuple, list, St)) and isinstance(b, type(a)) and not self.has_sym(a) and not self.has_sym(b)
                                   and not (op in ("Eq", "Ne") and isinstance(a, V))):
            try:
                return {"Eq": a == b, "Ne": a != b, "Lt": a < b, "Le": a <= b, "Gt": a > b, "Ge": a >= b}[op]
            except TypeError:
                raise Abort("incomparable %r %r" % (a, b))
        if isinstance(a, V) and isinstance(b, V) and op in ("Eq", "Ne"):
            if a.name != b.name or len(a.fields) != len(b.fields):
                return op == "Ne"
            res = True
            for x, y in zip(a.fields, b.fields):
                if not self.compare("Eq", x, y):
                    res = False
                    break
            return res if op == "Eq" else not res
        if isinstance(a, V) and isinstance(b, Sym) and a.name in ("Some", "None", "Ok", "Err"):
            b = self.force(b, ("Some", "None") if a.name in ("Some", "None") else ("Ok", "Err"))
            return self.compare(op, a, b)
        if isinstance(b, V) and isinstance(a, Sym) and b.name in ("Some", "None", "Ok", "Err"):
            a = self.force(a, ("Some", "None") if b.name in ("Some", "None") else ("Ok", "Err"))
            return self.compare(op, a, b)
        if op in ("Eq", "Ne") and (isinstance(a, V) and isinstance(b, Sym) or isinstance(b, V) and isinstance(a, Sym)):
            vv, sv = (a, b) if isinstance(a, V) else (b, a)
            c = self.variant_of(sv, [vv.name, "*"])
            if c != vv.name:
                return op == "Ne"
            res = all(self.compare("Eq", x, Sym(("payload", sv.t, vv.name, i))) for i, x in enumerate(vv.fields))
            return res if op == "Eq" else not res
        ta, tb = term(a), term(b)
        if op in ("Eq", "Ne"):
            if ta == tb:
                return op == "Eq"
            x, y = sorted((ta, tb), key=repr)
            r = self.path.decide(("eq", x, y), [True, False])
            return r if op == "Eq" else not r
        if ta == tb:
            return op in ("Le", "Ge")
        # a < b | a <= b == !(b < a) | a > b == b < a | a >= b == !(a < b)
        if op == "Lt":
            return self.lt(ta, tb)
        if op == "Gt":
            return self.lt(tb, ta)
        if op == "Le":
            return not self.lt(tb, ta)
        if op == "Ge":
            return not self.lt(ta, tb)
        raise Abort("comparison %s" % op)

    def lt(self, ta, tb):
        # keep lt(a,b) and lt(b,a) consistent: at most one holds
        if self.path.val.get(("lt", tb, ta)) is True:
            return False
        return self.path.decide(("lt", ta, tb), [True, False])

    def has_sym(self, v):
        if isinstance(v, (Sym, Iter, Clo, ChainIter)):
            return True
        if isinstance(v, V):
            return any(self.has_sym(x) for x in v.fields)
        if isinstance(v, St):
            return any(self.has_sym(x) for x in v.f.values())
        if isinstance(v, (tuple, list)):
            return any(self.has_sym(x) for x in v)
        return False

    # ------------------------------------------------------------------ patterns
    def bind(self, p, v, env):
        k = p.get("k")
        if k == "wild":
            return True
        if isinstance(v, EntryV) and k in ("tuplestruct", "struct", "path"):
            v = V("Occupied" if v.slot is not None else "Vacant", (v,))
        if k == "bind":
            if p.get("sub") and not self.bind(p["sub"], v, env):
                return False
            env[p["id"]] = v
            return True
        if k == "ref":
            return self.bind(p["sub"], v, env)
        if k == "lit":
            return self.compare("Eq", v, lit_value(p["v"]))
        if k == "range":
            lo, hi = p.get("lo"), p.get("hi")
            ok = True
            if lo is not None:
                ok = ok and self.compare("Ge", v, lit_value(lo["v"]))
            if ok and hi is not None:
                ok = ok and self.compare("Le" if p.get("inclusive") else "Lt", v, lit_value(hi["v"]))
            return ok
        if k == "or":
            for a in p["alts"]:
                e2 = dict(env)
                if self.bind(a, v, e2):
                    env.update(e2)
                    return True
            return False
        if k == "tuple":
            if isinstance(v, Sym):
                v = tuple(Sym(("field", v.t, str(i))) for i in range(len(p["subs"])))
            if not isinstance(v, tuple) or len(v) != len(p["subs"]):
                raise Abort("tuple pattern on %r" % (v,))
            return all(self.bind(s, x, env) for s, x in zip(p["subs"], v))
        if k in ("tuplestruct", "path", "struct"):
            res = p.get("res", {})
            name = H.variant_name(res)
            is_variant = res.get("dk") in ("Ctor", "Variant") and (res.get("adt") is not None or "ctor_of" in res) and self.is_enum_variant(res)
            if not is_variant and k != "path":
                # plain struct / tuple struct pattern: irrefutable destructuring
                return self.bind_fields(p, v, env)
            if k == "path" and res.get("dk") in ("Const", "AssocConst"):
                return self.compare("Eq", v, self.const_value(res["def"]))
            if isinstance(v, Sym):
                fam = ("Some", "None") if name in ("Some", "None") else (("Ok", "Err") if name in ("Ok", "Err") else None)
                if fam:
                    v = self.force(v, fam)
                else:
                    c = self.variant_of(v, [name, "*"])
                    if c != name:
                        return False
                    v = V(name, tuple(Sym(("payload", v.t, name, i)) for i in range(len(p.get("subs", [])))), named={"__sym": v.t})
            if isinstance(v, V):
                if v.name != name:
                    return False
                if k == "tuplestruct":
                    subs = p["subs"]
                    fields = list(v.fields)
                    if len(fields) < len(subs):
                        fields += [Sym(("payload", term(v), name, i)) for i in range(len(fields), len(subs))]
                    return all(self.bind(s, x, env) for s, x in zip(subs, fields))
                if k == "struct":
                    for f in p["fields"]:
                        if v.named and f["name"] in v.named:
                            x = v.named[f["name"]]
                        elif v.named and "__sym" in v.named:
                            x = Sym(("payload", v.named["__sym"], name, f["name"]))
                        else:
                            x = Sym(("payload", term(v), name, f["name"]))
                        if not self.bind(f["pat"], x, env):
                            return False
                    return True
                return True
            raise Abort("variant pattern %s on %r" % (name, v))
        if k == "slice":
            if isinstance(v, SplitVec):
                b, a, mid = p["before"], p["after"], p.get("mid")
                if mid is not None or a:
                    raise Abort("slice pattern with a rest on collected segments")
                n, st_ = len(b), v.st
                if n == 0 or not self.split_has(st_, st_.pos + n - 1) or self.split_has(st_, st_.pos + n):
                    return False
                for i, s in enumerate(b):
                    if not self.bind(s, self.split_elem(st_, st_.pos + i), env):
                        return False
                return True
            if isinstance(v, list):
                b, a, mid = p["before"], p["after"], p.get("mid")
                if mid is None and len(v) != len(b) + len(a):
                    return False
                if len(v) < len(b) + len(a):
                    return False
                for s, x in zip(b, v):
                    if not self.bind(s, x, env):
                        return False
                for s, x in zip(a, v[len(v) - len(a):] if a else []):
                    if not self.bind(s, x, env):
                        return False
                if mid is not None:
                    self.bind(mid, v[len(b):len(v) - len(a)], env)
                return True
            if isinstance(v, Sym):
                n = len(p["before"]) + len(p["after"])
                exact = p.get("mid") is None
                if n == 0 and exact:
                    # `[]` is the emptiness test: the same fact as is_empty() / the first step of an iteration
                    return not self.path.decide(("nonempty", v.t), [True, False])
                ok = self.path.decide(("slice-shape", v.t, n, exact), [True, False])
                if not ok:
                    return False
                if n >= 1 and self.path.val.get(("nonempty", v.t)) is None:
                    self.path.val[("nonempty", v.t)] = True       # at least n elements
                for i, s in enumerate(p["before"]):
                    if not self.bind(s, Sym(("index", v.t, ("lit", i))), env):
                        return False
                for i, s in enumerate(p["after"]):
                    if not self.bind(s, Sym(("index", v.t, ("lit", -(len(p["after"]) - i)))), env):
                        return False
                if p.get("mid") is not None:
                    self.bind(p["mid"], Sym(("slice", v.t)), env)
                return True
        raise Abort("pattern %s" % k)

    def is_enum_variant(self, res):
        adt = res.get("adt")
        if adt is None:
            d = res.get("ctor_of") or res.get("def") or ""
            adt = d.rsplit("::", 1)[0]
        a = self.F.adts.get(adt)
        if a is not None:
            return a.get("kind") == "Enum"
        return adt.endswith("::Option") or adt.endswith("::Result") or adt.endswith("::ControlFlow") or adt.endswith("::Poll") or adt.endswith("::Cow") or adt.endswith("::Ordering") \
            or adt.endswith("::Value") or bool(re.search(r"::(Option|Result|ControlFlow|Poll|Cow|Ordering|Value|Bound|Entry)$", adt))

    def bind_fields(self, p, v, env):
        if p.get("k") == "tuplestruct":
            subs = p["subs"]
            for i, s in enumerate(subs):
                x = self.get_field(v, str(i))
                if not self.bind(s, x, env):
                    return False
            return True
        for f in p.get("fields", []):
            if not self.bind(f["pat"], self.get_field(v, f["name"]), env):
                return False
        return True

    # ------------------------------------------------------------------ places
    def get_field(self, base, name):
        if isinstance(base, St):
            if name in base.f:
                return base.f[name]
            # auto-deref (`impl Deref for Outer { Target = Inner }`, `fn common(&self) -> &Inner { self }`): the field of the single
            # struct-valued member that has it
            inner = [v_ for v_ in base.f.values() if isinstance(v_, St) and name in v_.f]
            if len(inner) == 1:
                return inner[0].f[name]
            return Sym(("field", term(base), name))
        if isinstance(base, tuple) and name.isdigit() and int(name) < len(base):
            return base[int(name)]
        if isinstance(base, V) and name.isdigit() and int(name) < len(base.fields):
            return base.fields[int(name)]
        if isinstance(base, Sym):
            key = (base.t, name)
            if key in self.path.heap:
                return self.path.heap[key]
            return Sym(("field", base.t, name))
        raise Abort("field %s of %r" % (name, base))

    def assign(self, lhs, v, env, depth):
        if self.concrete_vec and lhs.get("k") == "unary" and lhs.get("op") == "Deref":
            inner_ = H.strip(lhs["e"])
            if inner_.get("k") == "path" and "local" in inner_.get("res", {}) and isinstance(env.get(inner_["res"]["id"]), ElemRef):
                r_ = env[inner_["res"]["id"]]
                r_.lst[r_.idx] = v.get() if isinstance(v, ElemRef) else v
                return
        if self.concrete_vec and lhs.get("k") == "unary" and lhs.get("op") == "Deref" and isinstance(v, V):
            inner = H.strip(lhs["e"])
            if inner.get("k") == "path" and "local" in inner.get("res", {}):
                cur = env.get(inner["res"]["id"])
                if isinstance(cur, V) and cur is not v:
                    # `*r = value` through a `&mut` to an enum value: the referent changes, and with it what every holder of the reference
                    # (the caller's variable the method was invoked on) sees
                    cur.name, cur.fields, cur.named = v.name, v.fields, v.named
                    return
        lhs = H.strip(lhs)
        k = lhs.get("k")
        if k == "path" and "local" in lhs.get("res", {}):
            env[lhs["res"]["id"]] = v
            return
        if k == "field":
            base = self.ev(lhs["base"], env, depth)
            if isinstance(base, St):
                base.f[lhs["name"]] = v
                return
            if isinstance(base, Sym):
                self.path.heap[(base.t, lhs["name"])] = v
                self.path.events.append(Event("write", None, [Sym(("field", base.t, lhs["name"])), v], None, lhs.get("sp"), name=lhs["name"]))
                return
        if k == "index":
            base = self.ev(lhs["base"], env, depth)
            idx = self.ev(lhs["idx"], env, depth)
            if isinstance(base, list) and isinstance(idx, int):
                base[idx] = v
                return
            self.path.events.append(Event("write", None, [Sym(("index", term(base), term(idx))), v], None, lhs.get("sp"), name="[]"))
            return
        if k == "unary" and lhs.get("op") == "Deref":
            inner = H.strip(lhs["e"])
            if self.concrete_vec and inner.get("k") == "path" and "local" in inner.get("res", {}) and isinstance(v, V):
                cur = env.get(inner["res"]["id"])
                if isinstance(cur, V) and cur is not v:
                    # `*r = value` through a `&mut` to an enum value: the referent changes, and with it what every holder of the reference
                    # (the caller's variable the method was invoked on) sees
                    cur.name, cur.fields, cur.named = v.name, v.fields, v.named
                    return
            return self.assign(lhs["e"], v, env, depth)
        if k in ("mcall", "call"):
            # `*place_returning_call() = v`
            place = self.ev(lhs, env, depth)
            self.path.events.append(Event("write", None, [place, v], None, lhs.get("sp"), name="*"))
            return
        raise Abort("assignment to %s" % k)

    # ------------------------------------------------------------------ constants
    def const_value(self, path):
        b = self.F.bodies.get(path)
        if b and b.get("hir"):
            outside = self.path is None
            if outside:            # asked for outside an exploration: evaluate on a throw-away path
                self.path = Path([])
                self.stack_fns = getattr(self, "stack_fns", None) or ["<const>"]
            try:
                return self.ev(H.root(b["hir"]), {}, 0)
            except (Abort, _Return):
                pass
            finally:
                if outside:
                    self.path = None
        return Sym(("def", path))

    # ------------------------------------------------------------------ expressions
    def ev(self, n, env, depth):
        k = n.get("k")
        m = getattr(self, "ev_" + k, None)
        if m is None:
            raise Abort("expression kind %s" % k)
        return m(n, env, depth)

    def ev_lit(self, n, env, depth):
        return lit_value(n["v"])

    def ev_path(self, n, env, depth):
        r = n.get("res", {})
        if "local" in r:
            if r["id"] not in env:
                raise Abort("unbound local %s" % r["local"])
            return env[r["id"]]
        dk = r.get("dk")
        if dk == "Ctor" or "selfctor" in r:
            name = H.variant_name(r)
            # unit variant / unit struct value, or constructor function
            adt = r.get("adt") or (r.get("ctor_of") or "").rsplit("::", 1)[0]
            a = self.F.adts.get(adt) or self.F.adts.get(r.get("ctor_of") or "")
            if a:
                for v in a["variants"]:
                    if v["name"] == name and v.get("ctor", "").startswith("Some(Const"):
                        return V(name, ())
                    if v["name"] == name and not v["fields"]:
                        return V(name, ())
                return Ctor(name)
            if name == "None":
                return V("None", ())
            return Ctor(name)
        if dk in ("Const", "AssocConst", "Static"):
            if "cstr" in r:
                return r["cstr"]          # constant of another crate: the compiler's evaluated value
            if "cint" in r and not isinstance(r["cint"], bool):
                v = self.const_value(r["def"])
                return v if not isinstance(v, Sym) else r["cint"]
            return self.const_value(r["def"])
        if dk in ("Fn", "AssocFn"):
            return FnRef(r["def"])
        if dk == "Variant":
            return V(H.variant_name(r), ())
        return Sym(("def", r.get("def") or "?"))

    def ev_addrof(self, n, env, depth):
        if self.concrete_vec and n.get("mut"):
            e = n["e"]
            while isinstance(e, dict) and e.get("k") == "block" and not e.get("stmts") and e.get("expr"):
                e = e["expr"]
            if e.get("k") == "index":
                b, i = self.ev(e["base"], env, depth), self.ev(e["idx"], env, depth)
                if isinstance(b, ElemRef):
                    b = b.get()
                if isinstance(b, list) and isinstance(i, int) and not isinstance(i, bool):
                    if 0 <= i < len(b):
                        return ElemRef(b, i)
                    raise Panic("index out of bounds: the len is %d but the index is %d" % (len(b), i))
        return self.ev(n["e"], env, depth)

    def ev_cast(self, n, env, depth):
        v = self.ev(n["e"], env, depth)
        if isinstance(v, Ch):
            return int(v)
        return v

    def ev_unary(self, n, env, depth):
        v = self.ev(n["e"], env, depth)
        op = n.get("op")
        if op == "Deref":
            return v.get() if isinstance(v, ElemRef) else v
        if isinstance(v, ElemRef):
            v = v.get()
        if op == "Not":
            if isinstance(v, bool):
                return not v
            if isinstance(v, int):
                if v >= 0:
                    # bitwise complement needs a width, which the facts do not carry on literals: the narrowest standard width holding the
                    # operand (exact for u8 operands — byte masks — which is where this tree complements a concrete integer)
                    w_ = 8 if v < (1 << 8) else 16 if v < (1 << 16) else 32 if v < (1 << 32) else 64
                    return (~v) & ((1 << w_) - 1)
                return ~v
            if isinstance(v, Sym):
                return not self.decide_bool(v)
        if op == "Neg" and isinstance(v, int):
            return -v
        if isinstance(v, Sym):
            return Sym(("op", op, v.t))
        raise Abort("unary %s on %r" % (op, v))

    def ev_binary(self, n, env, depth):
        op = n["op"]
        if op == "And":
            return self.decide_bool(self.ev(n["l"], env, depth)) and self.decide_bool(self.ev(n["r"], env, depth))
        if op == "Or":
            return self.decide_bool(self.ev(n["l"], env, depth)) or self.decide_bool(self.ev(n["r"], env, depth))
        a, b = self.ev(n["l"], env, depth), self.ev(n["r"], env, depth)
        a = a.get() if isinstance(a, ElemRef) else a
        b = b.get() if isinstance(b, ElemRef) else b
        if op in ("Eq", "Ne", "Lt", "Le", "Gt", "Ge"):
            return self.compare(op, a, b)
        if isinstance(a, int) and isinstance(b, int) and not isinstance(a, bool) and not isinstance(b, bool):
            try:
                return {"Add": a + b, "Sub": a - b, "Mul": a * b, "Div": a // b if b else None, "Rem": a % b if b else None, "BitAnd": a & b, "BitOr": a | b,
                        "BitXor": a ^ b, "Shl": a << b if 0 <= b < 128 else None, "Shr": a >> b if 0 <= b < 128 else None}[op]
            except KeyError:
                pass
        if isinstance(a, bool) and isinstance(b, bool):
            if op == "BitAnd":
                return a and b
            if op == "BitOr":
                return a or b
            if op == "BitXor":
                return a != b
        if isinstance(a, str) and isinstance(b, str) and op == "Add":
            return a + b
        return Sym(("op", op, term(a), term(b)))

    def ev_assignop(self, n, env, depth):
        cur = self.ev(n["l"], env, depth)
        r = self.ev(n["r"], env, depth)
        op = n["op"][:-6] if n["op"].endswith("Assign") else n["op"]      # `x &= y` is `x = x & y`
        fake = {"k": "binary", "op": op, "l": {"k": "__val", "v": cur}, "r": {"k": "__val", "v": r}}
        self.assign(n["l"], self.ev_binary(fake, env, depth), env, depth)
        return UNIT

    def ev___val(self, n, env, depth):
        return n["v"]

    def ev_tup(self, n, env, depth):
        return tuple(self.ev(x, env, depth) for x in n.get("es", []))

    def ev_array(self, n, env, depth):
        return [self.ev(x, env, depth) for x in n.get("es", [])]

    def ev_repeat(self, n, env, depth):
        v = self.ev(n["e"], env, depth)
        m = re.search(r";\s*(\d+)(?:_?usize)?\]$", n.get("ty", ""))
        if m and int(m.group(1)) <= 64:
            # `[v; N]` with a literal N: N copies (closures are Copy values: each copy shares the captured environment)
            return [v] * int(m.group(1))
        return Sym(("repeat", term(v)))

    def ev_field(self, n, env, depth):
        v = self.get_field(self.ev(n["base"], env, depth), n["name"])
        if isinstance(v, Sym) and v.t not in self.types and n.get("adt"):
            for f in self.F.adt_fields(n["adt"]) or []:
                if f["name"] == n["name"]:
                    self.types[v.t] = f["ty"] if "::" in f["ty"].split("<")[0] else f.get("ty_head", f["ty"])
        return v

    def ev_index(self, n, env, depth):
        b, i = self.ev(n["base"], env, depth), self.ev(n["idx"], env, depth)
        if isinstance(b, (list, str)) and isinstance(i, int) and not isinstance(i, bool):
            if 0 <= i < len(b):
                return b[i]
            raise Panic("index out of bounds: the len is %d but the index is %d" % (len(b), i))
        if isinstance(b, (list, str)) and isinstance(i, St) and i.ty.startswith("core::ops::range::Range"):
            lo = i.f.get("start", 0)
            hi = i.f.get("end", len(b))
            if isinstance(lo, int) and isinstance(hi, int):
                if i.ty.endswith("Inclusive"):
                    hi += 1
                if 0 <= lo <= hi <= len(b):
                    return b[lo:hi]
                raise Panic("slice index out of range")
        if self.char_streams and isinstance(b, Sym) and isinstance(i, St) and i.ty.startswith("core::ops::range::RangeFrom") \
                and isinstance(i.f.get("start"), Sym) and i.f["start"].t[0] == "bidx" and i.f["start"].t[1] == b.t:
            # `&s[i..]` where i is the byte offset of character k of s (always a character boundary): the suffix from character k
            x = Sym(("suffix", b.t, i.f["start"].t[2]))
            self.types.setdefault(x.t, "str")
            return x
        if isinstance(b, Sym):
            # recorded so that a rule can ask whether the path established a sufficient length before this point
            self.path.events.append(Event("index", None, [b, i], None, n.get("sp"), name="[]"))
        return Sym(("index", term(b), term(i)))

    def ev_struct(self, n, env, depth):
        res = n.get("res", {})
        fields = {f["name"]: self.ev(f["e"], env, depth) for f in n.get("fields", [])}
        if n.get("base") is not None:
            base = self.ev(n["base"], env, depth)
            if isinstance(base, St):
                for kk, vv in base.f.items():
                    fields.setdefault(kk, vv)
            else:
                fields["__base"] = base
        if res.get("dk") == "Variant" or (res.get("adt") and self.is_enum_variant(res)):
            return V(H.variant_name(res), tuple(fields.values()), named=fields)
        return St(res.get("def") or n.get("ty") or "?", fields)

    def ev_block(self, n, env, depth):
        env2 = env  # blocks share the function environment (ids are unique)
        for s in n.get("stmts", []):
            self.ev(s, env2, depth)
        if n.get("expr") is not None:
            return self.ev(n["expr"], env2, depth)
        return UNIT

    def ev_semi(self, n, env, depth):
        self.ev(n["e"], env, depth)
        return UNIT

    def ev_let(self, n, env, depth):
        if n.get("init") is None:
            return UNIT
        v = self.ev(n["init"], env, depth)
        e2 = dict(env)
        if self.bind(n["pat"], v, e2):
            env.update(e2)
            return UNIT
        if n.get("els") is None:
            raise Abort("refutable let without else")
        self.ev(n["els"], env, depth)
        raise Abort("let-else block fell through")

    def ev_letexpr(self, n, env, depth):
        v = self.ev(n["init"], env, depth)
        e2 = dict(env)
        if self.bind(n["pat"], v, e2):
            env.update(e2)
            return True
        return False

    def ev_if(self, n, env, depth):
        if self.decide_bool(self.ev(n["cond"], env, depth)):
            return self.ev(n["then"], env, depth)
        if n.get("else") is not None:
            return self.ev(n["else"], env, depth)
        return UNIT

    def ev_ret(self, n, env, depth):
        raise _Return(self.ev(n["e"], env, depth) if n.get("e") is not None else UNIT)

    def ev_break(self, n, env, depth):
        raise _Break(self.ev(n["e"], env, depth) if n.get("e") is not None else UNIT)

    def ev_yield(self, n, env, depth):
        return UNIT

    def ev_assign(self, n, env, depth):
        self.assign(n["l"], self.ev(n["r"], env, depth), env, depth)
        return UNIT

    def ev_closure(self, n, env, depth):
        return Clo(n, env)

    def ev_loop(self, n, env, depth):
        for _ in range(self.loop_bound + 1):
            try:
                self.ev(n["body"], env, depth)
            except _Break as b:
                return b.v
            except _Continue:
                continue
        raise Abort("loop bound exceeded")

    def ev_match(self, n, env, depth):
        src = n.get("src")
        if src == "try":
            return self.ev_try(n, env, depth)
        if src == "await":
            sc = n["scrut"]
            inner = sc["args"][0] if sc.get("k") == "call" and sc.get("args") else sc
            return self.run_future(self.ev(inner, env, depth), depth)
        if src == "for":
            return self.ev_for(n, env, depth)
        v = self.ev(n["scrut"], env, depth)
        for a in n["arms"]:
            e2 = dict(env)
            if self.bind(a["pat"], v, e2):
                if a.get("guard") is not None and not self.decide_bool(self.ev(a["guard"], e2, depth)):
                    continue
                env.update(e2)
                return self.ev(a["body"], env, depth)
        # rustc guarantees exhaustiveness: reaching this point means the path's assumptions contradict each other
        raise Infeasible()

    def ev_try(self, n, env, depth):
        sc = n["scrut"]
        inner = sc["args"][0] if sc.get("k") == "call" and sc.get("args") else sc
        v = self.run_future(self.ev(inner, env, depth), depth)
        if isinstance(v, Sym):
            # Option or Result?  the Break arm's payload pattern tells: Result residual is `Err(e)`, Option's is `None`
            fam = ("Ok", "Err")
            known = self.path.variant.get(v.t)
            if known in ("Some", "None"):
                fam = ("Some", "None")
            elif re.match(r"^(&(mut )?)*(core|std)::option::Option<", self.types.get(v.t, "")):
                fam = ("Some", "None")
            elif self._try_is_option(n):
                fam = ("Some", "None")
            v = self.force(v, fam)
        if isinstance(v, V):
            if v.name in ("Ok", "Some"):
                return v.fields[0] if v.fields else UNIT
            if v.name == "Err":
                raise _Return(V("Err", v.fields))
            if v.name == "None":
                raise _Return(V("None", ()))
            if v.name == "Continue":
                return v.fields[0] if v.fields else UNIT
            if v.name == "Break":
                raise _Return(v.fields[0] if v.fields else UNIT)
        raise Abort("`?` on %r" % (v,))

    def _try_is_option(self, n):
        sc = n["scrut"]
        targs = sc.get("targs") or []
        a0 = sc.get("a0ty") or ""
        return a0.endswith("option::Option") or any(t.endswith("::Option") or t == "core::option::Option" for t in targs[:1])

    def ev_for(self, n, env, depth):
        sc = n["scrut"]
        it = sc["args"][0] if sc.get("k") == "call" and sc.get("args") else sc
        coll = self.ev(it, env, depth)
        # locate `Some(pat) => body`
        pat = body = None
        for x in H.walk(n["arms"][0]["body"]):
            if x.get("k") == "match" and x.get("src") == "for":
                for a in x["arms"]:
                    if H.pat_str(a["pat"]).startswith("Some"):
                        ap = a["pat"]
                        pat = ap["subs"][0] if ap.get("subs") else ap["fields"][0]["pat"]
                        body = a["body"]
        if body is None:
            raise Abort("for-loop shape")
        items = self.items_of(coll)
        if isinstance(coll, LIter):
            items = list(coll)
            del coll[:]          # the loop drains the iterator
        try:
            for x in items:
                e2 = dict(env)
                if not self.bind(pat, x, e2):
                    raise Abort("refutable for pattern")
                env.update(e2)
                try:
                    self.ev(body, env, depth)
                except _Continue:
                    continue
                except _Return as r_:
                    # a `return` from inside a loop body: recorded so that a rule over a "for every element" loop can tell an early
                    # success exit (the remaining elements are never examined) from falling through after the last element
                    self.path.events.append(Event("loop-return", None, [r_.v], None, n.get("sp"), name="return"))
                    raise
        except _Break:
            pass
        return UNIT

    def items_of(self, coll):
        """Concrete list → its items.  Symbolic source → zero or one generic element (decided)."""
        if isinstance(coll, list):
            return list(coll)
        if isinstance(coll, tuple):
            return list(coll)
        if isinstance(coll, MapV):
            return [(c[0], c[1]) for c in coll.items] if coll.kind == "map" else [c[0] for c in coll.items]
        if isinstance(coll, V) and coll.name in ("Some", "None"):
            return list(coll.fields)
        if isinstance(coll, ChainIter):
            flat = []
            for p_ in coll.parts:
                flat.extend(p_.parts if isinstance(p_, ChainIter) and not p_.ops else [p_])
            if all(isinstance(p_, (list, tuple)) for p_ in flat):
                items = [x for p_ in flat for x in p_]
            else:
                k = self.path.decide(("chain-pick", term(coll)), list(range(len(flat))) + ["none"])
                items = [] if k == "none" else self.items_of(flat[k])
            out = []
            for x in items:
                keep = True
                for kind, f in coll.ops:
                    if kind == "map":
                        x = self.apply(f, [x], 0)
                    elif kind == "filter":
                        if not self.decide_bool(self.apply(f, [x], 0)):
                            keep = False
                            break
                    elif kind == "filter_map":
                        r = self.force(self.apply(f, [x], 0), ("Some", "None"))
                        if r.name == "None":
                            keep = False
                            break
                        x = r.fields[0]
                    elif kind == "enumerate":
                        x = (Sym(("pos", term(coll))), x)
                if keep:
                    out.append(x)
            return out
        if isinstance(coll, Iter):
            src, ops = coll.src, coll.ops
        elif isinstance(coll, Sym):
            src, ops = coll.t, ()
        else:
            raise Abort("iteration over %r" % (coll,))
        self.fresh += 1
        tag = self.fresh
        if src == ("default",):
            return []
        if not self.path.decide(("nonempty", src), [True, False]):
            return []
        x = Sym(("elem", src, tag))
        for op in ops:
            kind, f = op
            if kind == "map":
                x = self.apply(f, [x], 0)
            elif kind == "filter":
                if not self.decide_bool(self.apply(f, [x], 0)):
                    return []
            elif kind == "filter_map":
                r = self.force(self.apply(f, [x], 0), ("Some", "None"))
                if r.name == "None":
                    return []
                x = r.fields[0]
            elif kind == "enumerate":
                x = (Sym(("pos", src, tag)), x)
            elif kind == "chain":
                pass
            else:
                raise Abort("iterator adapter %s" % kind)
        return [x]

    # ------------------------------------------------------------------ calls
    def apply(self, f, args, depth, node=None):
        if isinstance(f, Clo):
            env = dict(f.env)
            ps = f.node.get("params", [])
            for p, a in zip(ps, args):
                if not self.bind(p, a, env):
                    raise Abort("refutable closure parameter")
            try:
                v = self.ev(f.node["body"], env, depth)
            except _Return as r:
                v = r.v
            v = self.run_future(v, depth)   # `|x| async move {..}`: futures are evaluated eagerly (no interleavings modelled)
            # propagate captured mutations back (closures share ids with the parent)
            for kk, vv in env.items():
                if kk in f.env:
                    f.env[kk] = vv
            return v
        if isinstance(f, Ctor):
            return V(f.name, tuple(args))
        if isinstance(f, FnRef):
            return self.call_fn(f.path, args, depth, node or {"sp": None})
        if isinstance(f, Sym):
            r = Sym(("call", fmt(f.t), tuple(term(a) for a in args)))
            self.path.events.append(Event("call", None, list(args), r, (node or {}).get("sp"), name=fmt(f.t)))
            return r
        raise Abort("call of %r" % (f,))

    def ev_call(self, n, env, depth):
        if n.get("ctor") is not None:
            args = [self.ev(a, env, depth) for a in n["args"]]
            name = H.variant_name(n["ctor"])
            res = n["ctor"]
            adt = res.get("adt")
            if adt is None and ("selfctor" in res or not self.is_enum_variant(res)):
                ty = res.get("selfctor") or res.get("ctor_of") or res.get("def") or n.get("ty") or name
                return St(ty, {str(i): a for i, a in enumerate(args)})
            if adt is not None and not self.is_enum_variant(res):
                return St(adt, {str(i): a for i, a in enumerate(args)})
            return V(name, args)
        fn = n.get("resolved") or n.get("fn")
        if fn is None:
            f = self.ev(n["callee"], env, depth)
            args = [self.ev(a, env, depth) for a in n["args"]]
            return self.apply(f, args, depth, n)
        args = [self.ev(a, env, depth) for a in n["args"]]
        return self.call_fn(fn, args, depth, n)

    def ev_mcall(self, n, env, depth):
        fn = n.get("resolved") or n.get("fn") or ("?::" + n["name"])
        if n["name"] == "zeroize" and not n["args"] and "eroize" in fn:
            # Zeroize for Option<Z>: the value is wiped and the Option left as None (zeroize 1.x) — on a member of a structured value
            r_ = H.strip(n["recv"])
            if r_.get("k") == "field":
                base_ = self.ev(r_["base"], env, depth)
                if isinstance(base_, St):
                    fty_ = next((f_["ty"] for f_ in (self.F.adt_fields(base_.ty) or []) if f_["name"] == r_["name"]), "").replace(" ", "")
                    if fty_.startswith(("core::option::Option<", "Option<")):
                        base_.f[r_["name"]] = V("None")
                        return UNIT
        if n["name"] == "clone_from" and len(n["args"]) == 1 and "clone_from" in fn:
            # `place.clone_from(&source)` is `place = source.clone()`
            self.assign(n["recv"], self.ev(n["args"][0], env, depth), env, depth)
            return UNIT
        recv = self.ev(n["recv"], env, depth)
        args = [recv] + [self.ev(a, env, depth) for a in n["args"]]
        return self.call_fn(fn, args, depth, n, method=n["name"])

    def call_fn(self, fn, args, depth, node, method=None):
        name = method or re.sub(r"<[^<>]*>", "", fn).rsplit("::", 1)[-1]
        # 1. rule-designated opaque calls (oracles)
        if self.opaque is not None and self.opaque.search(fn):
            return self.opaque_call(fn, args, node, name)
        # 2. interpreted library functions
        r = self.builtin(fn, name, args, depth, node)
        if r is not NotImplemented:
            return r
        # 3. workspace functions: inline
        h = self.F.hir(fn) if not fn.startswith("?") else None
        if h is not None and depth < self.inline_depth and fn not in self.stack_fns and (self.inline_filter is None or self.inline_filter(fn)):
            self.stack_fns.append(fn)
            try:
                return self.call_body(h, fn, args, depth=depth + 1)
            finally:
                self.stack_fns.pop()
        return self.opaque_call(fn, args, node, name)

    def opaque_call(self, fn, args, node, name):
        # an async block handed to an opaque consumer (futures.push(async move {..})) is evaluated eagerly: its effects and its
        # output value are what the consumer eventually observes
        args = [self.run_future(a, 0) if isinstance(a, Clo) and (a.node.get("ckind") or "").startswith("Coroutine") else a for a in args]
        targs_ = tuple(term(a) for a in args)
        eff_ = getattr(self, "effectful", None)
        if eff_ is not None and eff_.search(fn):
            # an effectful oracle (a storage call): the same call made again is another occurrence with its own outcome
            k_ = sum(1 for e_ in self.path.events if e_.kind == "call" and e_.fn == fn and tuple(term(a) for a in e_.args) == targs_)
            if k_:
                targs_ = targs_ + (("occurrence", k_),)
        r = Sym(("call", fn, targs_))
        if node.get("rty") and fn in (node.get("fn"), node.get("resolved")) and "::" in node["rty"] and not re.search(r"\bimpl\b|\{|\bdyn\b", node["rty"]):
            self.types.setdefault(r.t, node["rty"])      # the compiler's type of the call expression (variant domains, Option vs Result)
        self.path.events.append(Event("call", fn, list(args), r, node.get("sp"), name=name))
        return r

    # ---- builtins ---------------------------------------------------------------------------------------------------------
    def builtin(self, fn, name, args, depth, node):
        a0 = args[0] if args else None
        base = re.sub(r"<[^<>]*>", "", fn)
        # Try / From glue
        if fn.endswith("FromResidual>::from_residual") or base.endswith("::from_residual"):
            return a0
        if base.endswith("Try::from_output"):
            return V("Ok", (a0,))
        if self.concrete_vec and isinstance(a0, list) and name == "into" and "convert::Into" in base and node is not None and len(node.get("targs_full") or []) == 2:
            # `vec.into()` with a workspace target type: its `From<Vec<T>>` impl, evaluated
            head = node["targs_full"][1].split("<")[0]
            if not head.endswith("vec::Vec"):
                cands = self.F.find(r"^<(\w+::)*%s as core::convert::From<alloc::vec::Vec>>::from$" % re.escape(head))
                if cands:
                    return self.call_fn(cands[0], [a0], depth, node)
        if self.char_streams and isinstance(a0, Sym) and name in ("chars", "char_indices") and (base.endswith("str::" + name) or "str" in base):
            # the characters of `&s[bidx(s, k)..]` are the characters of `s` from position k on
            if a0.t[0] == "suffix" and name == "chars":
                return CharStream(a0.t[1], a0.t[2])
            return CharStream(a0.t, 0, name == "char_indices")
        if isinstance(a0, CharStream):
            r = self.stream_builtin(name, a0, args, depth, node)
            if r is not NotImplemented:
                return r
        if getattr(self, "split_streams", False) and isinstance(a0, Sym) and name == "split" and len(args) == 2 and isinstance(args[1], Clo) and ("slice" in base or "[T]" in base):
            # `bytes.split(|b| *b == b'.')`: the same positional model, the separator being "whatever this predicate accepts"
            return SplitStream(a0.t, "pred@%s" % (args[1].node.get("sp") or "?").rsplit(":", 2)[0].rsplit("/", 1)[-1])
        if getattr(self, "split_streams", False) and isinstance(a0, Sym) and "str" in base:
            sep_ = lambda x: chr(int(x)) if isinstance(x, Ch) else (x if isinstance(x, str) and not isinstance(x, Sym) else None)  # noqa: E731

            def base_(t_, sp_):
                # splitting "everything after the k-th separator" of s at the same separator continues the segments of s from k
                if isinstance(t_, tuple) and t_[:1] == ("rest",) and t_[2] == ("lit", sp_):
                    return t_[1], t_[3]
                return t_, 0
            if name == "split" and len(args) == 2 and sep_(args[1]) is not None:
                src_, k0_ = base_(a0.t, sep_(args[1]))
                return SplitStream(src_, sep_(args[1]), k0_)
            if name == "splitn" and len(args) == 3 and isinstance(args[1], int) and not isinstance(args[1], bool) and sep_(args[2]) is not None and args[1] >= 1:
                src_, k0_ = base_(a0.t, sep_(args[2]))
                return SplitStream(src_, sep_(args[2]), k0_, k0_ + args[1])
            if name == "split_once" and len(args) == 2 and sep_(args[1]) is not None:
                src_, k0_ = base_(a0.t, sep_(args[1]))
                st_ = SplitStream(src_, sep_(args[1]), k0_, k0_ + 2)
                if self.split_has(st_, k0_ + 1):
                    return V("Some", ((self.split_elem(st_, k0_), self.split_elem(st_, k0_ + 1)),))
                return V("None")
        if isinstance(a0, SplitStream):
            st_ = a0
            if name == "next" and len(args) == 1:
                if self.split_has(st_, st_.pos):
                    x_ = self.split_elem(st_, st_.pos)
                    st_.pos += 1
                    return V("Some", (x_,))
                return V("None")
            if name == "nth" and len(args) == 2 and isinstance(args[1], int) and not isinstance(args[1], bool):
                k_ = st_.pos + args[1]
                if self.split_has(st_, k_):
                    st_.pos = k_ + 1
                    return V("Some", (self.split_elem(st_, k_),))
                st_.pos = k_ + 1
                return V("None")
            if name in ("by_ref", "into_iter", "iter", "fuse", "peekable"):
                return st_
            if name == "clone":
                return SplitStream(st_.src, st_.sep, st_.pos, st_.limit)
            if name == "collect" and len(args) == 1 and st_.limit is None:
                return SplitVec(SplitStream(st_.src, st_.sep, st_.pos, None))
            raise Abort("SplitStream::%s" % name)
        if isinstance(a0, SplitVec):
            st_ = a0.st
            if name in ("as_slice", "deref", "as_ref", "borrow", "clone", "to_vec", "into_boxed_slice") and len(args) == 1:
                return a0
            if name in ("iter", "into_iter") and len(args) == 1:
                return SplitStream(st_.src, st_.sep, st_.pos, None)
            if name == "is_empty" and len(args) == 1:
                return False          # a split has at least one segment
            if name in ("get", "first") and (name == "first" or (len(args) == 2 and isinstance(args[1], int) and not isinstance(args[1], bool))):
                k_ = st_.pos + (0 if name == "first" else args[1])
                return V("Some", (self.split_elem(st_, k_),)) if self.split_has(st_, k_) else V("None")
            raise Abort("SplitVec::%s" % name)
        if isinstance(a0, list) and name in ("try_from", "try_into") and "convert::Try" in base and node is not None and node.get("targs_full"):
            # Vec<T>/slice → [T; N]: succeeds exactly when the length is N (the Vec is handed back otherwise)
            for t_ in node["targs_full"]:
                m = re.match(r"^\[.*;\s*(\d+)(?:_?usize)?\]$", t_.strip())
                if m:
                    return V("Ok", (list(a0),)) if len(a0) == int(m.group(1)) else V("Err", (a0,))
        # format_args!/format!: the formatted text as a structured term ("concat", pieces) — `format!("{}.{}", a, b)` and
        # `[a, b].join(".")` denote the same term.  The Arguments::new call is still recorded (rules read templates from it).
        if re.search(r"fmt::Arguments::(new|new_v1|new_const)$", base) and args and isinstance(a0, list) and all(isinstance(b_, int) for b_ in a0):
            from c08 import decode_fmt
            argv = args[1] if len(args) > 1 and isinstance(args[1], list) else []
            pieces, k_ = [], 0
            for pc in decode_fmt(a0):
                if pc[0] == "arg":
                    x_ = term(argv[k_]) if k_ < len(argv) else ("?",)
                    k_ += 1
                    if isinstance(x_, tuple) and x_[:1] == ("call",) and len(x_[2]) == 1 and re.search(r"Argument::new_\w+$", x_[1]):
                        x_ = x_[2][0]
                    pieces.append(("lit", x_[1]) if isinstance(x_, tuple) and x_[:1] == ("lit",) and isinstance(x_[1], str) else ("arg", x_))
                else:
                    pieces.append(pc)
            r_ = St("core::fmt::Arguments", {"pieces": pieces})
            self.path.events.append(Event("call", fn, list(args), Sym(("call", fn, tuple(term(a) for a in args))), node.get("sp") if node else None, name=name))
            return r_
        if (base.endswith("fmt::format") or base.endswith("fmt::format::format_inner")) and isinstance(a0, St) and a0.ty == "core::fmt::Arguments":
            return Sym(("concat", tuple(a0.f["pieces"])))
        if name == "join" and len(args) == 2 and isinstance(a0, list) and isinstance(args[1], str) and not isinstance(args[1], Sym) and ("slice" in base or "[T]" in base or "Join" in base or "str" in base):
            pieces = []
            for k_, x in enumerate(a0):
                if k_ and args[1] != "":
                    pieces.append(("lit", args[1]))
                tx = term(x)
                pieces.append(("lit", tx[1]) if isinstance(tx, tuple) and tx[:1] == ("lit",) and isinstance(tx[1], str) else ("arg", tx))
            return Sym(("concat", tuple(pieces)))
        if base.startswith("core::panicking::") or base.startswith("std::panicking::") or base in ("std::rt::begin_panic", "core::option::unwrap_failed", "core::result::unwrap_failed", "core::option::expect_failed"):
            self.path.events.append(Event("panic", fn, list(args), None, node.get("sp") if node else None, name=name))
            raise Panic(name)       # panic!/unreachable!/unimplemented!/assert! failure
        # futures::join! / try_join!: each future is evaluated eagerly (no interleaving), the poll closure then finds all of them done
        if base.endswith("maybe_done::maybe_done") and len(args) == 1:
            return St("futures_util::future::maybe_done::MaybeDone", {"out": self.run_future(a0, depth)})
        if isinstance(a0, St) and a0.ty.endswith("maybe_done::MaybeDone"):
            if name == "poll":
                return V("Ready", (UNIT,))
            if name == "take_output":
                return V("Some", (a0.f["out"],))
        if base.endswith("task::poll::Poll::is_ready") and isinstance(a0, V):
            return a0.name == "Ready"
        if base.endswith("task::poll::Poll::is_pending") and isinstance(a0, V):
            return a0.name == "Pending"
        if base.endswith("poll_fn::poll_fn") and len(args) == 1 and isinstance(a0, Clo):
            r = self.apply(a0, [Sym(("ctx",))], depth, node)
            if isinstance(r, V) and r.name == "Ready" and r.fields:
                return r.fields[0]
            raise Abort("poll_fn whose closure is not ready at once")
        if re.search(r"cmp::Ordering::(then_with|then)$", base) and len(args) == 2:
            # lexicographic composition: the second comparison counts only when the first is Equal
            if self.compare("Eq", a0, Ctor("Equal")) if isinstance(a0, Sym) else (isinstance(a0, (V, Ctor)) and getattr(a0, "name", None) == "Equal"):
                return self.apply(args[1], [], depth, node) if name == "then_with" else args[1]
            return a0
        if re.search(r"(core|std)::mem::size_of$", base) and not args and node is not None and node.get("targs_full"):
            sz = {"u8": 1, "i8": 1, "bool": 1, "u16": 2, "i16": 2, "u32": 4, "i32": 4, "char": 4, "f32": 4, "u64": 8, "i64": 8, "f64": 8, "u128": 16, "i128": 16}.get(node["targs_full"][0].strip())
            if sz is not None:
                return sz
        if self.concrete_vec and name == "into_iter" and len(args) == 1 and type(a0) is list and "IntoIterator" in fn:
            return LIter(a0)          # a consuming view: `next()` advances the iterator, not the vector
        if IDENTITY_FNS.search(fn):
            return a0
        is_opt = base.startswith("core::option::Option::")
        is_res = base.startswith("core::result::Result::")
        if is_opt or is_res:
            return self.opt_res(name, args, depth, ("Some", "None") if is_opt else ("Ok", "Err"), node)
        if ((fn.startswith("core::bool::") or fn.startswith("bool::")) and name in ("then", "then_some", "not")) or (isinstance(a0, bool) and name in ("then", "then_some", "not")):
            b = self.decide_bool(a0)
            if name == "then":
                return V("Some", (self.apply(args[1], [], depth),)) if b else V("None")
            if name == "then_some":
                return V("Some", (args[1],)) if b else V("None")
            if name == "not":
                return not b
        if self.concrete_vec and re.search(r"^alloc::vec::Vec(<.*>)?::(new|with_capacity)$", base):
            return []
        if self.concrete_vec and re.search(r"^(std|hashbrown|alloc)::collections::(hash::map::HashMap|hash::set::HashSet|btree::map::BTreeMap|btree::set::BTreeSet|hash_map::HashMap|hash_set::HashSet)(<.*>)?::(new|with_capacity|default)$", base):
            return MapV(kind="set" if "Set" in base else "map")
        if isinstance(a0, MapV):
            r = self.map_builtin(name, a0, args, depth, node)
            if r is not NotImplemented:
                return r
        if isinstance(a0, EntryV):
            r = self.entry_builtin(name, a0, args, depth, node)
            if r is not NotImplemented:
                return r
        if self.concrete_vec and re.search(r"(RwLock|Mutex|RefCell)(<.*>)?::(read|write|lock|borrow|borrow_mut|blocking_read|blocking_write|get_mut|into_inner)$", base) and isinstance(a0, (MapV, list, St)):
            return a0     # the guard is the protected value itself (one thread of control; lock spans are decided elsewhere)
        if self.concrete_vec and re.search(r"(RwLock|Mutex|RefCell)(<.*>)?::new$", base) and isinstance(a0, (MapV, list, St)):
            return a0
        if self.concrete_vec and re.search(r"FuturesUnordered(<.*>)?::new$|FuturesOrdered(<.*>)?::new$", base):
            return []     # the outputs of the futures pushed so far (each future is evaluated eagerly; completion order is not modelled)
        if self.concrete_vec and isinstance(a0, list) and "futures" in base and name in ("push", "push_back"):
            a0.append(self.run_future(args[1], depth))
            return UNIT
        if self.concrete_vec and isinstance(a0, list) and name in ("try_collect", "try_collect_into") and node is not None and node.get("targs_full"):
            # TryStreamExt::try_collect::<C>: Err as soon as one output is Err, otherwise the Ok payloads collected into C
            outs = list(reversed(a0)) if getattr(self, "completion", "fifo") == "lifo" else a0
            return self.collect_into(outs, "core::result::Result<%s, _>" % node["targs_full"][-1], depth, node)
        if self.concrete_vec and isinstance(a0, list) and "futures" in base and name in ("next", "try_next") and len(args) == 1:
            at = -1 if getattr(self, "completion", "fifo") == "lifo" else 0
            if name == "next":
                return V("Some", (a0.pop(at),)) if a0 else V("None")
            if not a0:
                return V("Ok", (V("None"),))
            x = a0.pop(at)
            x = self.force(x, ("Ok", "Err")) if isinstance(x, Sym) else x
            return V("Ok", (V("Some", (x.fields[0],)),)) if x.name == "Ok" else x
        if self.concrete_vec and isinstance(a0, list) and name == "size_hint":
            # exact by default; a rule may ask for another *valid* hint (lower <= len <= upper, or no upper bound) through `size_hint_of`,
            # to decide that a collector's result does not depend on the hint its source happens to give
            hf = getattr(self, "size_hint_of", None)
            if hf is not None:
                lo_, hi_ = hf(len(a0))
                return (lo_, V("None") if hi_ is None else V("Some", (hi_,)))
            return (len(a0), V("Some", (len(a0),)))
        if self.concrete_vec and isinstance(a0, list) and name == "reserve":
            return UNIT
        if re.search(r"core::iter::sources::once_with::once_with$|core::iter::once_with$", base) and len(args) == 1:
            return [self.apply(args[0], [], depth, node)]     # evaluated eagerly: which checks run matters here, not when
        if re.search(r"core::iter::sources::once::once$|core::iter::once$", base) and len(args) == 1:
            return [args[0]]
        if re.search(r"core::iter::sources::empty::empty$|core::iter::empty$", base) and not args:
            return []
        if base.endswith("ops::range::RangeInclusive::new") and len(args) == 2:
            return St("core::ops::range::RangeInclusive", {"start": args[0], "end": args[1]})
        if name == "contains" and len(args) == 2 and isinstance(a0, St) and a0.ty.startswith("core::ops::range::Range"):
            x = args[1]
            kind = a0.ty.rsplit("::", 1)[-1]
            okl = True
            if "start" in a0.f:
                okl = self.compare("Ge", x, a0.f["start"])
            if not okl:
                return False
            if "end" in a0.f:
                return self.compare("Le" if kind in ("RangeInclusive", "RangeToInclusive") else "Lt", x, a0.f["end"])
            return True
        if base in ("core::cmp::PartialEq::eq", "core::cmp::PartialEq::ne") and len(args) == 2:
            return self.compare("Eq" if name == "eq" else "Ne", args[0], args[1])
        if base.startswith("core::cmp::PartialOrd::") and name in ("lt", "le", "gt", "ge") and len(args) == 2:
            return self.compare(name.capitalize(), args[0], args[1])
        if base in ("core::mem::replace",) and len(args) == 2:
            if self.concrete_vec and isinstance(args[0], V) and isinstance(args[1], V) and args[0] is not args[1]:
                old_ = V(args[0].name, args[0].fields, args[0].named)
                args[0].name, args[0].fields, args[0].named = args[1].name, args[1].fields, args[1].named
                return old_
            return args[0]
        if name in ("to_le_bytes", "to_be_bytes") and len(args) == 1 and isinstance(a0, int) and not isinstance(a0, bool):
            m_ = re.match(r"^(u8|u16|u32|u64|u128|usize)::to_(le|be)_bytes$", base)
            if m_ and a0 >= 0:
                nb = {"u8": 1, "u16": 2, "u32": 4, "u64": 8, "u128": 16, "usize": 8}[m_.group(1)]
                if a0 < (1 << (8 * nb)):
                    bs_ = [(a0 >> (8 * k_)) & 0xFF for k_ in range(nb)]
                    return bs_ if m_.group(2) == "le" else bs_[::-1]
        if name == "try_from" and len(args) == 1 and isinstance(a0, int) and not isinstance(a0, bool) and node is not None:
            m_ = re.search(r"Result<(u8|u16|u32|u64|usize|i8|i16|i32|i64|isize),\s*core::num::(error::)?TryFromIntError>", str(node.get("rty") or ""))
            if m_:
                t_ = m_.group(1)
                bits = {"u8": 8, "u16": 16, "u32": 32, "u64": 64, "usize": 64, "i8": 8, "i16": 16, "i32": 32, "i64": 64, "isize": 64}[t_]
                lo_, hi_ = (0, (1 << bits) - 1) if t_[0] == "u" else (-(1 << (bits - 1)), (1 << (bits - 1)) - 1)
                return V("Ok", (a0,)) if lo_ <= a0 <= hi_ else V("Err", (Sym(("call", fn, (("lit", a0),))),))
        if base == "core::mem::take":
            return a0
        if base in ("core::mem::drop", "core::mem::swap"):
            if base.endswith("swap"):
                self.path.events.append(Event("call", fn, list(args), None, node.get("sp"), name=name))
            return UNIT
        if isinstance(a0, list) and (base.startswith("alloc::vec::Vec") or base.startswith("<alloc::vec::Vec")) and name in self.VEC_MUTATORS:
            r = self.vec_mutator(name, a0, args, depth, node)
            if r is not NotImplemented:
                return r
            if name in ("extend", "extend_from_slice", "append") and len(args) == 2 and isinstance(args[1], Sym):
                # a concrete list extended by an unknown number of unknown elements is no longer a concrete list: say so instead of dropping them
                raise Abort("Vec::%s of a concrete list with a symbolic operand %s" % (name, fmt(args[1].t)[:60]))
        # iterator sources / adapters / terminals
        r = self.iter_builtin(base, name, args, depth, node)
        if r is not NotImplemented:
            return r
        # concrete strings / lists
        if isinstance(a0, str) and not isinstance(a0, Sym):
            r = self.str_builtin(name, args)
            if r is not NotImplemented:
                return r
        if isinstance(a0, list):
            if name == "len":
                return len(a0)
            if name == "is_empty":
                return len(a0) == 0
            if name == "contains" and len(args) == 2:
                for x in a0:
                    if self.compare("Eq", x, args[1]):
                        return True
                return False
            if name in ("first", "last"):
                return V("Some", (a0[0 if name == "first" else -1],)) if a0 else V("None")
            if name == "get" and isinstance(args[1], int):
                return V("Some", (a0[args[1]],)) if 0 <= args[1] < len(a0) else V("None")
            if name == "push":
                a0.append(args[1])
                return UNIT
        if name == "is_empty" and len(args) == 1 and isinstance(a0, (Sym, Iter)) and not fn.startswith("identity_"):
            src = a0.t if isinstance(a0, Sym) else a0.src
            if src == ("default",):
                return True
            return not self.path.decide(("nonempty", src), [True, False])
        if isinstance(a0, Ch):
            import charpred
            if name in charpred.CHAR_METHODS and len(args) == 1:
                return bool(charpred.CHAR_METHODS[name](int(a0)))
        if self.concrete_vec and name in ("iter", "into_iter") and len(args) == 1 and type(a0) is list and not fn.startswith("identity_"):
            return LIter(a0)          # a consuming view: `next()` advances the iterator, not the vector
        if base.endswith("intrinsics::write_box_via_move") and len(args) == 2 and isinstance(args[1], list):
            return args[1]            # `vec![a, b]` (boxed array literal → Vec): the elements
        if base.endswith("boxed::box_assume_init_into_vec_unsafe") and len(args) == 1 and isinstance(a0, list):
            return a0
        if name in IDENTITY_METHODS and len(args) == 1 and not fn.startswith("identity_"):
            return a0
        return NotImplemented

    def str_builtin(self, name, args):
        s = args[0]
        o = args[1] if len(args) > 1 else None
        oc = (chr(int(o)) if isinstance(o, Ch) else o) if isinstance(o, (str, Ch)) and not isinstance(o, Sym) else None
        if name == "len":
            return len(s.encode())
        if name == "is_empty":
            return s == ""
        # a pattern that is a set of chars (`['/', '?', '#']`, `&[..]`) or a char predicate (closure / fn item)
        pred = None
        if isinstance(o, (list, tuple)) and o and all(isinstance(c, (Ch, str)) and not isinstance(c, Sym) for c in o):
            cs = {chr(int(c)) if isinstance(c, Ch) else c for c in o}
            pred = lambda ch: ch in cs  # noqa: E731
        elif isinstance(o, (Clo, FnRef)):
            pred = lambda ch: self.decide_bool(self.apply(o, [Ch(ord(ch))], 0))  # noqa: E731
        if pred is not None:
            if name == "starts_with":
                return bool(s) and pred(s[0])
            if name == "ends_with":
                return bool(s) and pred(s[-1])
            if name == "contains":
                return any(pred(c) for c in s)
            if name in ("find", "rfind"):
                idxs = [len(s[:k].encode()) for k, c in enumerate(s) if pred(c)]
                return V("Some", (idxs[0] if name == "find" else idxs[-1],)) if idxs else V("None")
            if name == "trim_start_matches":
                while s and pred(s[0]):
                    s = s[1:]
                return s
            if name == "trim_end_matches":
                while s and pred(s[-1]):
                    s = s[:-1]
                return s
            if name == "strip_prefix":
                return V("Some", (s[1:],)) if s and pred(s[0]) else V("None")
        if oc is not None:
            if name == "contains":
                return oc in s
            if name == "starts_with":
                return s.startswith(oc)
            if name == "ends_with":
                return s.endswith(oc)
            if name == "strip_prefix":
                return V("Some", (s[len(oc):],)) if s.startswith(oc) else V("None")
            if name == "find":
                i = s.find(oc)
                return V("Some", (i,)) if i >= 0 else V("None")
        if oc is not None:
            if name == "rfind":
                i = s.rfind(oc)
                return V("Some", (i,)) if i >= 0 else V("None")
            if name == "split_once":
                i = s.find(oc)
                return V("Some", ((s[:i], s[i + len(oc):]),)) if i >= 0 else V("None")
            if name == "rsplit_once":
                i = s.rfind(oc)
                return V("Some", ((s[:i], s[i + len(oc):]),)) if i >= 0 else V("None")
            if name == "strip_suffix":
                return V("Some", (s[:len(s) - len(oc)],)) if s.endswith(oc) else V("None")
            if name == "trim_start_matches":
                while oc and s.startswith(oc):
                    s = s[len(oc):]
                return s
        if name == "split_at" and isinstance(o, int) and not isinstance(o, bool) and 0 <= o <= len(s):
            return (s[:o], s[o:])
        if name in ("to_string", "to_owned", "as_str", "into", "as_ref"):
            return s
        if name == "chars":
            return [Ch(ord(c)) for c in s]
        return NotImplemented

    def opt_res(self, name, args, depth, fam, node):
        a0 = args[0]
        okn, ern = fam
        if name in ("as_ref", "as_mut", "as_deref", "as_deref_mut", "cloned", "copied", "clone", "iter", "iter_mut", "into_iter", "take", "as_slice", "by_ref"):
            if name in ("iter", "iter_mut", "into_iter") and not isinstance(a0, V):
                pass
            else:
                return a0
        if name in ("unwrap", "expect", "unwrap_unchecked"):
            v = self.force(a0, fam)
            if v.name == okn:
                return v.fields[0] if v.fields else UNIT
            self.path.events.append(Event("panic", None, [a0], None, node.get("sp"), name=name))
            raise Panic("%s on %s" % (name, v.name))
        v = self.force(a0, fam)
        ok = v.name == okn
        x = v.fields[0] if v.fields else UNIT
        ap = lambda f, xs: self.apply(f, xs, depth, node)  # noqa: E731
        if name in ("is_some", "is_ok"):
            return ok
        if name in ("is_none", "is_err"):
            return not ok
        if name in ("is_some_and", "is_ok_and"):
            return self.decide_bool(ap(args[1], [x])) if ok else False
        if name == "is_none_or":
            return self.decide_bool(ap(args[1], [x])) if ok else True
        if name == "is_err_and":
            return (not ok) and self.decide_bool(ap(args[1], [x]))
        if name == "map":
            return V(okn, (ap(args[1], [x]),)) if ok else v
        if name == "map_err":
            return v if ok else V(ern, (ap(args[1], [x]),))
        if name == "and_then":
            return ap(args[1], [x]) if ok else v
        if name == "and":
            return args[1] if ok else v
        if name == "or":
            return v if ok else args[1]
        if name == "or_else":
            return v if ok else ap(args[1], [x] if fam[0] == "Ok" else [])
        if name == "unwrap_or":
            return x if ok else args[1]
        if name == "unwrap_or_else":
            return x if ok else ap(args[1], [x] if fam[0] == "Ok" else [])
        if name == "unwrap_or_default":
            return x if ok else Sym(("default",))
        if name == "map_or":
            return ap(args[2], [x]) if ok else args[1]
        if name == "map_or_else":
            return ap(args[2], [x]) if ok else ap(args[1], [x] if fam[0] == "Ok" else [])
        if name == "ok_or":
            return V("Ok", (x,)) if ok else V("Err", (args[1],))
        if name == "ok_or_else":
            return V("Ok", (x,)) if ok else V("Err", (ap(args[1], []),))
        if name == "ok":
            return V("Some", (x,)) if ok else V("None")
        if name == "err":
            return V("None") if ok else V("Some", (x,))
        if name == "filter":
            return v if ok and self.decide_bool(ap(args[1], [x])) else V("None")
        if name == "flatten":
            return self.force(x, fam) if ok else v
        if name == "xor":
            o = self.force(args[1], fam)
            return v if ok and o.name != okn else (o if not ok and o.name == okn else V("None"))
        if name == "zip":
            o = self.force(args[1], fam)
            return V("Some", ((x, o.fields[0]),)) if ok and o.name == okn else V("None")
        if name == "transpose":
            if not ok:
                return V("Ok", (V("None"),)) if fam[0] == "Some" else v
            inner = self.force(x, ("Ok", "Err") if fam[0] == "Some" else ("Some", "None"))
            if fam[0] == "Some":
                return V("Ok", (V("Some", inner.fields),)) if inner.name == "Ok" else inner
            return V("Some", (V("Ok", inner.fields),)) if inner.name == "Some" else V("None")
        if name in ("iter", "iter_mut", "into_iter"):
            return [x] if ok else []
        if name in ("insert", "get_or_insert_with", "get_or_insert", "replace"):
            raise Abort("Option mutation %s" % name)
        if name == "inspect" or name == "inspect_err":
            return v
        return NotImplemented

    ITER_SOURCES = {"iter", "iter_mut", "into_iter", "chars", "bytes", "keys", "values", "values_mut", "char_indices", "lines", "split", "splitn", "drain", "into_values", "into_keys",
                    "split_whitespace", "query_pairs", "windows", "chunks"}
    ITER_ADAPTERS = {"map", "filter", "filter_map", "enumerate", "chain", "rev", "skip", "take", "cloned", "copied", "peekable", "by_ref", "flatten", "flat_map", "skip_while", "take_while",
                     "inspect", "zip", "step_by", "fuse", "map_while"}

    def iter_builtin(self, base, name, args, depth, node):
        a0 = args[0] if args else None
        is_iter_fn = base.startswith("core::iter::") or "::iter::" in base or base.startswith("core::slice::") or base.startswith("core::str::") or base.startswith("alloc::vec::") \
            or base.startswith("alloc::collections::") or base.startswith("std::collections::") or base.startswith("[T]::") or base.startswith("str::") or base.startswith("alloc::string::") \
            or base.startswith("indexmap::") or "::OrderedSet::" in base
        symbolic = isinstance(a0, (Sym, Iter))
        if name in self.ITER_SOURCES and len(args) >= 1 and (is_iter_fn or base.startswith("?")) and not base.startswith("identity_") or (name in ("iter", "into_iter", "iter_mut") and symbolic and not isinstance(a0, Iter)):
            if isinstance(a0, Sym):
                if name in ("iter", "iter_mut", "into_iter"):
                    return Iter(a0.t)
                return Iter(("call", base, tuple(term(a) for a in args)))
            if isinstance(a0, Iter):
                return a0
            if isinstance(a0, list):
                return a0
            if isinstance(a0, V):
                return list(a0.fields) if a0.name in ("Some", "Ok") else []
            return NotImplemented
        if isinstance(a0, list) and (is_iter_fn or name in ("any", "all", "find", "position", "map", "filter", "collect", "count", "next", "filter_map", "take", "skip", "last", "flatten", "take_while", "skip_while")):
            return self.list_iter(name, args, depth, node)
        if name == "chain" and len(args) == 2 and isinstance(a0, (Iter, ChainIter, Sym, list)) and isinstance(args[1], (Iter, ChainIter, Sym, list)):
            mk = lambda x: Iter(x.t) if isinstance(x, Sym) else x  # noqa: E731
            return ChainIter([mk(a0), mk(args[1])])
        if isinstance(a0, ChainIter):
            if name in ("map", "filter", "filter_map"):
                return ChainIter(a0.parts, a0.ops + ((name, args[1]),))
            if name == "enumerate":
                return ChainIter(a0.parts, a0.ops + (("enumerate", None),))
            if name in ("cloned", "copied", "peekable", "by_ref", "rev", "fuse", "inspect", "into_iter", "iter"):
                return a0
            ap = lambda f, xs: self.apply(f, xs, depth, node)  # noqa: E731
            items = None
            if name in ("any", "all", "find", "find_map", "position", "for_each", "try_for_each", "next", "last", "count", "collect"):
                items = self.items_of(a0)
            if name == "any":
                return any(self.decide_bool(ap(args[1], [x])) for x in items)
            if name == "all":
                return all(self.decide_bool(ap(args[1], [x])) for x in items)
            if name == "find":
                for x in items:
                    if self.decide_bool(ap(args[1], [x])):
                        return V("Some", (x,))
                return V("None")
            if name == "find_map":
                for x in items:
                    r = self.force(ap(args[1], [x]), ("Some", "None"))
                    if r.name == "Some":
                        return r
                return V("None")
            if name == "position":
                for x in items:
                    if self.decide_bool(ap(args[1], [x])):
                        return V("Some", (Sym(("pos", term(a0))),))
                return V("None")
            if name in ("next", "last"):
                return V("Some", (items[0],)) if items else V("None")
            if name == "for_each":
                for x in items:
                    ap(args[1], [x])
                return UNIT
            if name == "try_for_each":
                for x in items:
                    r = ap(args[1], [x])
                    r = self.force(r, ("Ok", "Err")) if isinstance(r, Sym) else r
                    if isinstance(r, V) and r.name in ("Err", "None", "Break"):
                        return r
                return V("Ok", (UNIT,))
            if name in ("count", "collect"):
                return Sym(("call", name, (term(a0),) + tuple(term(x) for x in items)))
            return NotImplemented
        if isinstance(a0, Iter) or (isinstance(a0, Sym) and is_iter_fn and (name in self.ITER_ADAPTERS or name in ("any", "all", "find", "find_map", "position", "try_for_each", "for_each", "next", "count",
                                                                                                      "collect", "last", "nth", "fold", "try_fold", "max", "min", "sum"))):
            it = a0 if isinstance(a0, Iter) else Iter(a0.t)
            if name in ("map", "filter", "filter_map"):
                return Iter(it.src, it.ops + ((name, args[1]),))
            if name == "enumerate":
                return Iter(it.src, it.ops + (("enumerate", None),))
            if name in ("cloned", "copied", "peekable", "by_ref", "rev", "fuse", "inspect"):
                return it
            if name in ("skip", "take", "step_by", "skip_while", "take_while", "zip", "flatten", "flat_map", "map_while"):
                return Iter(("call", name, (it.src,) + tuple(o[0] for o in it.ops) + tuple(term(a) for a in args[1:])))
            ap = lambda f, xs: self.apply(f, xs, depth, node)  # noqa: E731
            if name in ("any", "all", "find", "find_map", "position", "try_for_each", "for_each", "next", "last", "nth"):
                if name in ("any", "all", "find", "position") and len(args) > 1 and isinstance(args[1], (Clo, FnRef)):
                    # the per-element predicate is recorded so that a rule can fold it (e.g. over the code-point domain)
                    self.path.events.append(Event("pred", None, [Sym(it.src), args[1]], None, node.get("sp") if node else None, name=name))
                items = self.items_of(it)
                if name == "next" or name == "last" or name == "nth":
                    return V("Some", (items[0],)) if items else V("None")
                if name == "any":
                    return bool(items) and self.decide_bool(ap(args[1], [items[0]]))
                if name == "all":
                    return (not items) or self.decide_bool(ap(args[1], [items[0]]))
                if name == "find":
                    return V("Some", (items[0],)) if items and self.decide_bool(ap(args[1], [items[0]])) else V("None")
                if name == "find_map":
                    if not items:
                        return V("None")
                    return self.force(ap(args[1], [items[0]]), ("Some", "None"))
                if name == "position":
                    return V("Some", (Sym(("pos", it.src, self.fresh)),)) if items and self.decide_bool(ap(args[1], [items[0]])) else V("None")
                if name == "for_each":
                    for x in items:
                        ap(args[1], [x])
                    return UNIT
                if name == "try_for_each":
                    for x in items:
                        r = ap(args[1], [x])
                        r = self.force(r, ("Ok", "Err")) if isinstance(r, Sym) else r
                        if isinstance(r, V) and r.name in ("Err", "None", "Break"):
                            return r
                    return V("Ok", (UNIT,))
            if name in ("collect", "count", "fold", "try_fold", "max", "min", "sum", "unzip", "partition"):
                # evaluate the pipeline on a generic element so that its checks/effects are on the path
                items = self.items_of(it)
                pay = tuple(term(x) for x in items)
                r = Sym(("call", name, (it.src,) + tuple(o[0] for o in it.ops) + pay))
                return r
        return NotImplemented

    def collect_into(self, xs, ty, depth, node):
        """`xs.into_iter().collect::<ty>()` for a concrete sequence: Vec → the list, Result/Option → first failure or the collected
        payloads, a workspace type → its FromIterator impl evaluated on the list."""
        ty = ty.strip()
        m = re.match(r"^(?:core|std)::(result::Result|option::Option)<(.*)>$", ty)
        if m:
            fam = ("Ok", "Err") if m.group(1).endswith("Result") else ("Some", "None")
            inner = split_targs(m.group(2))
            oks = []
            for x in xs:
                v = self.force(x, fam) if isinstance(x, Sym) else x
                if not isinstance(v, V):
                    raise Abort("collect of %r" % (x,))
                if v.name == fam[1]:
                    return v
                oks.append(v.fields[0])
            return V(fam[0], (self.collect_into(oks, inner[0], depth, node),))
        head = ty.split("<")[0]
        if head.endswith("vec::Vec") or head.endswith("VecDeque"):
            return list(xs)
        if re.search(r"(HashMap|BTreeMap|IndexMap|HashSet|BTreeSet|IndexSet)$", head):
            m = MapV(kind="set" if head.endswith("Set") else "map")
            for x in xs:
                if m.kind == "set":
                    if self.map_find(m, x) is None:
                        m.items.append([x, UNIT])
                elif isinstance(x, tuple) and len(x) == 2:
                    c = self.map_find(m, x[0])
                    if c:
                        c[1] = x[1]
                    else:
                        m.items.append([x[0], x[1]])
                else:
                    raise Abort("collect of a non-pair into a map")
            return m
        # type strings are crate-relative inside their own crate: match the ADT path by suffix
        cands = [f for f in self.F.find(r"^<(\w+::)*%s as core::iter::traits::collect::FromIterator(<.*>)?>::from_iter$" % re.escape(head))]
        if cands:
            return self.call_fn(cands[0], [list(xs)], depth, node)
        return list(xs)

    def stream_has(self, st, k):
        if k > getattr(self, "max_stream_len", 1 << 30):
            raise Abort("stream length bound")
        for (a, c) in list(self.path.val.items()):
            if a[0] == "has" and a[1] == st.src:
                if c and a[2] >= k:
                    return True
                if (not c) and a[2] <= k:
                    return False
        return self.path.decide(("has", st.src, k), [True, False])

    def split_has(self, st, k):
        if k == 0:
            return True
        if st.limit is not None and k >= st.limit:
            return False
        if isinstance(getattr(st, "start", None), int) and k == st.start:
            return True          # the first element of any split always exists (the whole remainder)
        if k > getattr(self, "max_stream_len", 8):
            raise Abort("split stream bound")
        for (a, c) in list(self.path.val.items()):
            if a[0] == "hasseg" and a[1] == st.src and a[2] == ("lit", st.sep):
                if c and a[3] >= k:
                    return True
                if (not c) and a[3] <= k:
                    return False
        return self.path.decide(("hasseg", st.src, ("lit", st.sep), k), [True, False])

    def split_elem(self, st, k):
        kind = "rest" if st.limit is not None and k == st.limit - 1 else "seg"
        x = Sym((kind, st.src, ("lit", st.sep), k))
        self.types.setdefault(x.t, "str")
        return x

    def stream_elem(self, st, k):
        x = Sym(("at", st.src, k))
        self.types.setdefault(x.t, "char")
        if st.indices:
            i = Sym(("bidx", st.src, k))
            self.types.setdefault(i.t, "usize")
            return (i, x)
        return x

    def stream_next(self, st):
        if self.stream_has(st, st.pos):
            x = self.stream_elem(st, st.pos)
            st.pos += 1
            return V("Some", (x,))
        return V("None")

    def stream_builtin(self, name, st, args, depth, node):
        if name == "next" and len(args) == 1:
            return self.stream_next(st)
        if name == "clone":
            return CharStream(st.src, st.pos, st.indices)
        if name in ("by_ref", "peekable", "into_iter", "fuse", "iter"):
            return st
        if name == "peek" and len(args) == 1:
            if self.stream_has(st, st.pos):
                return V("Some", (self.stream_elem(st, st.pos),))
            return V("None")
        if name in ("take", "skip", "nth", "advance_by") and len(args) == 2 and isinstance(args[1], int) and not isinstance(args[1], bool):
            n = args[1]
            if name == "take":
                out = []
                for _ in range(n):
                    v = self.stream_next(st)
                    if v.name == "None":
                        break
                    out.append(v.fields[0])
                return out
            if name in ("skip", "advance_by"):
                for _ in range(n):
                    if self.stream_next(st).name == "None":
                        break
                return st if name == "skip" else UNIT
            v = V("None")
            for _ in range(n + 1):
                v = self.stream_next(st)
                if v.name == "None":
                    break
            return v
        if name in ("all", "any", "for_each", "find", "position") and len(args) == 2 and isinstance(getattr(self, "max_stream_len", None), int):
            # bounded traversal: the closure is applied element by element (it may update captured state) until the stream ends
            # (has(k) = false) or the answer is known; the stream-length bound aborts the path as for explicit loops
            k0 = st.pos
            while True:
                v = self.stream_next(st)
                if v.name == "None":
                    return {"all": True, "any": False, "for_each": UNIT, "find": V("None"), "position": V("None")}[name]
                r = self.apply(args[1], [v.fields[0]], depth)
                if name == "for_each":
                    continue
                b = self.decide_bool(r)
                if name == "all" and not b:
                    return False
                if name == "any" and b:
                    return True
                if name == "find" and b:
                    return V("Some", (v.fields[0],))
                if name == "position" and b:
                    return V("Some", (st.pos - 1 - k0,))
        if name in ("all", "any", "find", "position", "count", "last", "collect", "for_each", "try_for_each", "map", "filter", "rev", "enumerate", "zip", "chain", "fold"):
            raise Abort("CharStream::%s (unbounded traversal of a positional stream)" % name)
        return NotImplemented

    def map_find(self, m, key):
        for cell in m.items:
            if self.compare("Eq", cell[0], key):
                return cell
        return None

    def map_builtin(self, name, m, args, depth, node):
        if name in ("get", "get_mut") and len(args) == 2:
            c = self.map_find(m, args[1])
            return V("Some", (c[1] if m.kind == "map" else c[0],)) if c else V("None")
        if name == "get_key_value" and len(args) == 2:
            c = self.map_find(m, args[1])
            return V("Some", ((c[0], c[1]),)) if c else V("None")
        if name in ("contains_key", "contains") and len(args) == 2:
            return self.map_find(m, args[1]) is not None
        if name == "insert" and len(args) == 3:
            c = self.map_find(m, args[1])
            if c:
                old = c[1]
                c[1] = args[2]          # the key of an occupied entry is kept, the value replaced
                return V("Some", (old,))
            m.items.append([args[1], args[2]])
            return V("None")
        if name == "insert" and len(args) == 2 and m.kind == "set":
            if self.map_find(m, args[1]):
                return False
            m.items.append([args[1], UNIT])
            return True
        if name in ("remove", "remove_entry", "take") and len(args) == 2:
            c = self.map_find(m, args[1])
            if c is None:
                return V("None") if m.kind == "map" or name == "take" else False
            m.items.remove(c)
            if m.kind == "set":
                return True if name == "remove" else V("Some", (c[0],))
            return V("Some", (c[1],)) if name == "remove" else V("Some", ((c[0], c[1]),))
        if name == "entry" and len(args) == 2:
            return EntryV(m, args[1], self.map_find(m, args[1]))
        if name == "len" and len(args) == 1:
            return len(m.items)
        if name == "is_empty" and len(args) == 1:
            return not m.items
        if name == "clear" and len(args) == 1:
            del m.items[:]
            return UNIT
        if name in ("iter", "iter_mut", "into_iter", "drain"):
            out = [(c[0], c[1]) for c in m.items] if m.kind == "map" else [c[0] for c in m.items]
            if name == "drain":
                del m.items[:]
            return out
        if name in ("keys", "into_keys"):
            return [c[0] for c in m.items]
        if name in ("values", "into_values", "values_mut"):
            return [c[1] for c in m.items]
        if name == "extend" and len(args) == 2 and isinstance(args[1], (list, MapV)):
            src = args[1].items if isinstance(args[1], MapV) else args[1]
            for x in src:
                k, v = (x[0], x[1]) if m.kind == "map" else (x if not isinstance(x, list) else x[0], UNIT)
                c = self.map_find(m, k)
                if c:
                    c[1] = v
                else:
                    m.items.append([k, v])
            return UNIT
        if name in ("clone", "to_owned"):
            return MapV([list(c) for c in m.items], m.kind)
        if name in ("reserve", "shrink_to_fit"):
            return UNIT
        return NotImplemented

    def entry_builtin(self, name, e, args, depth, node):
        def put(v):
            if e.slot is None:
                e.slot = [e.key, v]
                e.m.items.append(e.slot)
            return e.slot[1]
        if name == "or_insert" and len(args) == 2:
            return put(args[1])
        if name == "or_insert_with" and len(args) == 2:
            return e.slot[1] if e.slot is not None else put(self.apply(args[1], [], depth, node))
        if name == "or_default":
            return e.slot[1] if e.slot is not None else put(Sym(("default",)))
        if name == "key":
            return e.key
        if name == "and_modify":
            raise Abort("Entry::and_modify")
        # occupied / vacant views (after `match map.entry(k) { Entry::Occupied(o) => .., Entry::Vacant(v) => .. }`)
        if name == "insert" and len(args) == 2:
            if e.slot is None:
                return put(args[1])
            old = e.slot[1]
            e.slot[1] = args[1]
            return old
        if name in ("get", "get_mut", "into_mut") and e.slot is not None:
            return e.slot[1]
        if name in ("remove", "remove_entry") and e.slot is not None:
            e.m.items.remove(e.slot)
            return e.slot[1] if name == "remove" else (e.slot[0], e.slot[1])
        return NotImplemented

    VEC_MUTATORS = ("push", "insert", "remove", "swap_remove", "drain", "extend", "clear", "truncate", "retain", "pop", "append", "reverse", "swap", "extend_from_slice", "split_off")

    def vec_mutator(self, name, xs, args, depth, node):
        """In-place Vec operations on a concrete list (the list object is the place: `&mut self.0` evaluates to it)."""
        def idx(v):
            if isinstance(v, int) and not isinstance(v, bool):
                return v
            raise Abort("Vec::%s at a symbolic position" % name)

        def bounds(r):
            if isinstance(r, St) and r.ty.startswith("core::ops::range::Range"):
                kind = r.ty.rsplit("::", 1)[-1]
                lo = idx(r.f["start"]) if "start" in r.f else 0
                hi = idx(r.f["end"]) + (1 if kind in ("RangeInclusive", "RangeToInclusive") else 0) if "end" in r.f else len(xs)
                if lo > hi or hi > len(xs):
                    raise Panic("Vec::%s range out of bounds" % name)
                return lo, hi
            raise Abort("Vec::%s with a symbolic range" % name)
        if name == "push" and len(args) == 2:
            xs.append(args[1])
            return UNIT
        if name == "insert" and len(args) == 3:
            i = idx(args[1])
            if i > len(xs):
                raise Panic("Vec::insert index out of bounds")
            xs.insert(i, args[2])
            return UNIT
        if name in ("remove", "swap_remove") and len(args) == 2:
            i = idx(args[1])
            if i >= len(xs):
                raise Panic("Vec::%s index out of bounds" % name)
            if name == "remove":
                return xs.pop(i)
            v = xs[i]
            xs[i] = xs[-1]
            xs.pop()
            return v
        if name == "drain" and len(args) == 2:
            lo, hi = bounds(args[1])
            out = xs[lo:hi]
            del xs[lo:hi]
            return out
        if name in ("extend", "extend_from_slice", "append") and len(args) == 2 and isinstance(args[1], list):
            ys = list(args[1])
            if name == "append":
                del args[1][:]
            xs.extend(ys)
            return UNIT
        if name == "clear" and len(args) == 1:
            del xs[:]
            return UNIT
        if name == "truncate" and len(args) == 2:
            del xs[idx(args[1]):]
            return UNIT
        if name == "split_off" and len(args) == 2:
            i = idx(args[1])
            if i > len(xs):
                raise Panic("Vec::split_off out of bounds")
            out = xs[i:]
            del xs[i:]
            return out
        if name == "retain" and len(args) == 2:
            keep = [x for x in xs if self.decide_bool(self.apply(args[1], [x], depth, node))]
            xs[:] = keep
            return UNIT
        if name == "pop" and len(args) == 1:
            return V("Some", (xs.pop(),)) if xs else V("None")
        if name == "reverse" and len(args) == 1:
            xs.reverse()
            return UNIT
        if name == "swap" and len(args) == 3:
            i, j = idx(args[1]), idx(args[2])
            if i >= len(xs) or j >= len(xs):
                raise Panic("slice::swap out of bounds")
            xs[i], xs[j] = xs[j], xs[i]
            return UNIT
        return NotImplemented

    def list_iter(self, name, args, depth, node):
        xs = args[0]
        ap = lambda f, ys: self.apply(f, ys, depth, node)  # noqa: E731
        if name == "collect" and self.concrete_vec and node is not None and node.get("targs_full"):
            return self.collect_into(xs, node["targs_full"][-1], depth, node)
        if self.concrete_vec and name in ("iter", "into_iter") and type(xs) is list:
            return LIter(xs)
        if name in ("iter", "into_iter", "iter_mut", "cloned", "copied", "peekable", "by_ref", "to_vec", "collect", "rev"):
            return list(reversed(xs)) if name == "rev" else xs
        if name == "any":
            for x in xs:
                if self.decide_bool(ap(args[1], [x])):
                    return True
            return False
        if name == "all":
            for x in xs:
                if not self.decide_bool(ap(args[1], [x])):
                    return False
            return True
        if name == "find":
            for x in xs:
                if self.decide_bool(ap(args[1], [x])):
                    return V("Some", (x,))
            return V("None")
        if name == "position":
            for i, x in enumerate(xs):
                if self.decide_bool(ap(args[1], [x])):
                    return V("Some", (i,))
            return V("None")
        if name == "map":
            return [ap(args[1], [x]) for x in xs]
        if name == "filter":
            return [x for x in xs if self.decide_bool(ap(args[1], [x]))]
        if name == "enumerate":
            return [(i, x) for i, x in enumerate(xs)]
        if name == "filter_map":
            out = []
            for x in xs:
                r = ap(args[1], [x])
                r = self.force(r, ("Some", "None")) if isinstance(r, Sym) else r
                if isinstance(r, V) and r.name == "Some":
                    out.append(r.fields[0])
            return out
        if name in ("take_while", "skip_while") and len(args) == 2:
            k_ = 0
            while k_ < len(xs) and self.decide_bool(ap(args[1], [xs[k_]])):
                k_ += 1
            return xs[:k_] if name == "take_while" else xs[k_:]
        if name == "take" and isinstance(args[1], int):
            return xs[:args[1]]
        if name == "skip" and isinstance(args[1], int):
            return xs[args[1]:]
        if name == "last":
            return V("Some", (xs[-1],)) if xs else V("None")
        if name == "flatten":
            out = []
            for x in xs:
                if isinstance(x, list):
                    out += x
                elif isinstance(x, V) and x.name in ("Some", "Ok"):
                    out += list(x.fields)
                elif isinstance(x, V):
                    pass
                else:
                    raise Abort("flatten of %r" % (x,))
            return out
        if name == "chain":
            o = args[1]
            if isinstance(o, list):
                return xs + o
            raise Abort("chain with symbolic iterator")
        if name == "count" or name == "len":
            return len(xs)
        if name == "next":
            if isinstance(xs, LIter):
                return V("Some", (xs.pop(0),)) if xs else V("None")
            return V("Some", (xs[0],)) if xs else V("None")
        if name == "for_each":
            for x in xs:
                ap(args[1], [x])
            return UNIT
        if name == "try_for_each":
            for x in xs:
                r = ap(args[1], [x])
                r = self.force(r, ("Ok", "Err")) if isinstance(r, Sym) else r
                if isinstance(r, V) and r.name in ("Err", "None", "Break"):
                    return r
            return V("Ok", (UNIT,))
        if name == "contains":
            for x in xs:
                if self.compare("Eq", x, args[1]):
                    return True
            return False
        return NotImplemented


def split_targs(s):
    out, depth, cur = [], 0, ""
    for ch in s:
        if ch == "<":
            depth += 1
        elif ch == ">":
            depth -= 1
        if ch == "," and depth == 0:
            out.append(cur.strip())
            cur = ""
        else:
            cur += ch
    if cur.strip():
        out.append(cur.strip())
    return out


def lit_value(v):
    if "bool" in v:
        return bool(v["bool"])
    if "char" in v:
        return Ch(v["int"]) if "int" in v else Ch(ord(v["char"]))
    if "str" in v:
        return v["str"]
    if "int" in v:
        return int(v["int"])
    if "bytes" in v:
        return v["bytes"]
    if "float" in v:
        return v["float"]
    return Sym(("lit?", repr(v)))


def explore(F, fn, opaque=None, **kw):
    ev = Evaluator(F, opaque=opaque, **{k: v for k, v in kw.items() if k in ("inline_depth", "loop_bound", "inline_filter", "concrete_vec", "char_streams")})
    if kw.get("split_streams"):
        ev.split_streams = True
    if kw.get("effectful"):
        ev.effectful = re.compile(kw["effectful"]) if isinstance(kw["effectful"], str) else kw["effectful"]
    return ev.explore(fn, **{k: v for k, v in kw.items() if k in ("args", "max_paths", "finalize")})
