"""Semantic sibling checks for Eq / Ord / Hash / Display implementations, on decision tables of the abstract evaluator.

The value under test is given as a struct of opaque components (`self = {a: sa, b: sb}`, `other = {a: oa, b: ob}`); the checks state
what the implementation computes from them, whatever it is spelled like."""
import re

import sym as SY
import symrules as SR
from c08 import decode_fmt

EQUAL = ("ctorfn", "Equal")


def explore(F, fn, args, opaque=None, rule=None, depth=4):
    try:
        ps = SY.Evaluator(F, opaque=opaque, inline_depth=depth).explore(fn, args=args)
    except (SY.Abort, SY.TooManyPaths) as e:
        if rule is not None:
            rule.fail((fn, "not-evaluable"), "%s could not be evaluated abstractly: %s" % (fn, e))
        return []
    bad = [p for p in ps if not p.complete]
    if bad and rule is not None:
        rule.fail((fn, "not-evaluable"), "%s: a path could not be evaluated to the end (%s)" % (fn, bad[0].note))
        return []
    return ps


def check_eq(rule, fn, paths, pairs, proj=None):
    """`eq` returns true exactly when every pair (self component, other component) compares equal; nothing else is compared.
    pairs: [(name, self term, other term)];  proj: regex of calls allowed around a component (accessors such as as_str)."""
    ok = bool(paths)
    conv = proj or re.compile(r"(as_ref|as_str|as_deref|deref|borrow|clone|unwrap_or_default)$")
    seen_true = False
    for q in paths:
        val = {}
        for (a, c, _, _) in q.decisions:
            if a[0] != "eq":
                rule.fail((fn, "field-pair", "other-decision"), "%s depends on something other than component equality: %s" % (fn, SY.fmt(a)))
                ok = False
                continue
            hit = None
            for nm, st, ot in pairs:
                if (SR.pure(a[1], st, conv) and SR.pure(a[2], ot, conv)) or (SR.pure(a[1], ot, conv) and SR.pure(a[2], st, conv)):
                    hit = nm
            if hit is None:
                rule.fail((fn, "field-pair", SY.fmt(a[1]), SY.fmt(a[2])), "%s compares %s with %s: not the same component of both sides" % (fn, SY.fmt(a[1]), SY.fmt(a[2])))
                ok = False
            else:
                val[hit] = bool(c)
        want = all(val.get(nm) is True for nm, _, _ in pairs)
        any_false = any(v is False for v in val.values())
        if q.ret is True:
            seen_true = True
            if not want:
                rule.fail((fn, "field-order"), "%s returns true without having compared %s" % (fn, [nm for nm, _, _ in pairs if val.get(nm) is not True]))
                ok = False
        elif q.ret is False:
            if not any_false:
                rule.fail((fn, "field-order"), "%s returns false although every compared component is equal (%s)" % (fn, val))
                ok = False
        else:
            rule.fail((fn, "not-evaluable"), "%s returns %s, not a decided boolean" % (fn, q.ret))
            ok = False
    if paths and not seen_true:
        rule.fail((fn, "field-order"), "%s never returns true" % fn)
        ok = False
    return ok


def _is_equal_decision(q, res_t):
    """True / False / None: did path q decide that the Ordering term res_t is Equal?"""
    v = q.variant.get(res_t)
    if isinstance(v, str):
        return v == "Equal"
    for (a, c, _, _) in q.decisions:
        if a[0] == "eq" and ((a[1] == res_t and a[2] == EQUAL) or (a[2] == res_t and a[1] == EQUAL)):
            return bool(c)
        if a[0] == "variant" and a[1] == res_t:
            return c == "Equal"
    return None


def check_cmp(rule, fn, paths, pairs, cmp_pat=r"Ord::cmp$|::cmp$", proj=None):
    """lexicographic: components are compared in the given order, a later one only when all earlier ones are Equal, and the result
    is the first non-Equal comparison (or the last one)."""
    ok = bool(paths)
    conv = proj or re.compile(r"(as_ref|as_str|as_deref|deref|borrow|clone|unwrap_or_default)$")
    full = False
    for q in paths:
        cs = q.calls(cmp_pat)
        if len(cs) > len(pairs):
            rule.fail((fn, "field-order"), "%s makes %d comparisons for %d components" % (fn, len(cs), len(pairs)))
            ok = False
            continue
        for k, e in enumerate(cs):
            nm, st, ot = pairs[k]
            if not (SR.pure(e.args[0], st, conv) and SR.pure(e.args[1], ot, conv)):
                rule.fail((fn, "field-order"), "%s: comparison %d is %s.cmp(%s); expected self.%s.cmp(other.%s)" % (fn, k + 1, SY.fmt(SY.term(e.args[0])), SY.fmt(SY.term(e.args[1])), nm, nm))
                ok = False
        if not cs:
            rule.fail((fn, "field-order"), "%s compares nothing on some path" % fn)
            ok = False
            continue
        for k, e in enumerate(cs[:-1]):
            if _is_equal_decision(q, e.result.t) is not True:
                rule.fail((fn, "lexicographic", pairs[k + 1][0]), "%s: the %s comparison is evaluated although the %s comparison was not decided Equal" % (fn, pairs[k + 1][0], pairs[k][0]))
                ok = False
        last = cs[-1]
        if len(cs) < len(pairs):
            if _is_equal_decision(q, last.result.t) is not False:
                rule.fail((fn, "lexicographic", pairs[len(cs)][0]), "%s stops after the %s comparison without it being non-Equal" % (fn, pairs[len(cs) - 1][0]))
                ok = False
        else:
            full = True
        if not (SR.pure(q.ret, last.result.t) or (len(cs) == len(pairs) and _is_equal_decision(q, last.result.t) is True and SY.term(q.ret) in (EQUAL, ("ctor", "Equal")))):
            rule.fail((fn, "lexicographic", "result"), "%s does not return the deciding comparison (returns %s)" % (fn, SY.fmt(SY.term(q.ret))))
            ok = False
    if paths and not full:
        rule.fail((fn, "field-order"), "%s never compares all of %s" % (fn, [p[0] for p in pairs]))
        ok = False
    return ok


def rendered(q):
    """what a Display::fmt path writes, in order: [('arg', term) | ('lit', text)]"""
    out = []
    for e in q.events:
        if e.kind != "call":
            continue
        f = re.sub(r"<[^<>]*>", "", e.fn or "")
        if f.endswith("fmt::Arguments::new") or f.endswith("Arguments::new_v1") or f.endswith("Arguments::new_const"):
            tpl = e.args[0] if e.args else None
            argv = e.args[1] if len(e.args) > 1 and isinstance(e.args[1], list) else []
            if isinstance(tpl, list) and all(isinstance(b, int) for b in tpl):
                k = 0
                for piece in decode_fmt(tpl):
                    if piece[0] == "arg":
                        a = argv[k] if k < len(argv) else None
                        k += 1
                        t = SY.term(a) if a is not None else None
                        if isinstance(t, tuple) and t[:1] == ("call",) and len(t[2]) == 1:
                            t = t[2][0]            # Argument::new_display(&x) → x
                        out.append(("arg", t))
                    else:
                        out.append(piece)
            else:
                out.append(("?", SY.fmt(SY.term(tpl)) if tpl is not None else "?"))
        elif f.endswith("Formatter::write_str") or f.endswith("Write::write_str") or f.endswith("Formatter::pad"):
            a = e.args[1] if len(e.args) > 1 else None
            out.append(("lit", a) if isinstance(a, str) and not isinstance(a, SY.Sym) else ("arg", SY.term(a)))
        elif f.endswith("Display::fmt") and e.args:
            out.append(("arg", SY.term(e.args[0])))
    return out


def check_display(rule, fn, paths, parts, proj=None):
    """Display writes exactly the given components, in order, with nothing between them."""
    conv = proj or re.compile(r"(as_ref|as_str|as_deref|deref|borrow|clone|unwrap_or_default)$")
    ok = bool(paths)
    for q in paths:
        r = [x for x in rendered(q) if not (x[0] == "lit" and x[1] == "")]
        good = len(r) == len(parts) and all(x[0] == "arg" and x[1] is not None and SR.pure(x[1], pt, conv) for x, (nm, pt) in zip(r, parts))
        if not good:
            rule.fail((fn, "template"), "%s writes %s; expected the components %s and nothing else" % (fn, [(k, SY.fmt(t) if isinstance(t, tuple) else t) for k, t in r], [nm for nm, _ in parts]))
            ok = False
    return ok


def check_hash_is_display(rule, fn, paths):
    """Hash feeds exactly the Display string of self to the hasher."""
    ok = bool(paths)
    for q in paths:
        ts = [e for e in q.calls(r"to_string$") if e.args and SY.term(e.args[0])[:1] in (("struct",), ("param",))]
        hs = q.calls(r"Hash::hash$|::hash$")
        good = len(ts) == 1 and len(hs) == 1 and SR.pure(hs[0].args[0], ts[0].result.t)
        if not good:
            rule.fail((fn, "to_string"), "%s does not hash exactly the Display form of self" % fn)
            ok = False
    return ok


def render_pattern(q):
    """(pattern, [argument terms]) of everything a path formats: constant arguments are folded into the pattern text"""
    pat, argv = "", []
    for kind, x in rendered(q):
        if kind == "lit":
            pat += x
        elif kind == "arg" and isinstance(x, tuple) and x[:1] == ("lit",) and isinstance(x[1], str):
            pat += x[1]
        elif kind == "arg":
            pat += "{}"
            argv.append(x)
        else:
            pat += "{?}"
    return pat, argv
