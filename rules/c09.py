"""C09 — Storage-backed method generation/purge is all-or-nothing under storage faults."""
import re

import hir as H
import mir as M
import rulelib as L

CRATES = ["identity_storage", "identity_document", "identity_iota_core"]
X = "identity_storage::storage::jwk_document_ext"
EXT = X + "::JwkDocumentExt"
CD = "identity_document::document::core_document::CoreDocument"
UNDO = X + "::try_undo_key_generation"

GEN = {"core": X + "::generate_method_core_document", "iota": X + "::iota_document::generate_method_iota_document"}
PURGE = {"core": X + "::purge_method_core_document", "iota": X + "::iota_document::purge_method_iota_document"}
STORAGE_CALL = re.compile(r"(JwkStorage|KeyIdStorage|JwkStorageBbsPlusExt)::(generate|generate_bbs|insert|sign|delete|exists|insert_key_id|get_key_id|delete_key_id)$")


def block_of_exit(tree, node):
    """Statements of the innermost block containing the exit that precede it (same branch only)."""
    for p, role, idx, child in tree.ancestors(node):
        if p.get("k") == "block":
            if role == "stmts":
                return p["stmts"][:idx]
            if role == "expr":
                return p["stmts"]
    return []


def run(F, R, tier):
    R.undecided += ["the fault × call-occurrence enumeration itself (a dynamic experiment): the rules decide that every error exit after an effect passes its compensation, for every path",
                    "behaviour of concrete stores under faults (their own atomicity)"]

    # ------------------------------------------------------------------ R1 compensation in generate_method
    r1 = R.rule("C09-R1", "T11", "generate_method: after `generate` succeeded every error exit goes through try_undo_key_generation; after insert_method succeeded additionally through remove_method; the only `?` exits after generate are the two reviewed infallible ones")
    for kind, fn in GEN.items():
        h = F.hir(fn)
        if not r1.anchor(h, fn):
            continue
        env = H.Env(h)
        tree, infos = L.exit_infos(h)
        gen_calls = [n for n in H.walk(H.root(h)) if n.get("k") == "call" and re.search(r"JwkStorage::generate$|JwkStorageBbsPlusExt::generate_bbs$", H.fn_name(n) or "")]
        if not r1.require(len(gen_calls) == 1, (fn, "generate-call"), "expected exactly one key generation call"):
            continue
        ins = [n for n in H.walk(H.root(h)) if n.get("k") == "mcall" and n["name"] == "insert_method"]
        r1.require(len(ins) == 1, (fn, "insert_method-call"), "expected exactly one insert_method call")
        errs = [e for e in infos if e.outcome.startswith("Err(")]
        n_undo = 0
        for e in errs:
            after_gen = any(any(x is gen_calls[0] for x in H.walk(s)) for s in e.pre) or any(any(x is gen_calls[0] for x in H.walk(c[1])) for c in e.conds if isinstance(c[1], dict))
            if not after_gen:
                continue
            _, inner = H.ctor_class(e.node)
            aw = H.await_inner(inner) if inner is not None else None
            callee = H.strip(aw) if aw is not None else H.strip(inner) if inner is not None else {}
            is_undo = callee.get("k") == "call" and H.fn_name(callee) == UNDO
            r1.site("%s: error exit after generate → %s" % (kind, "try_undo_key_generation" if is_undo else H.outcome(e.node)), e.node.get("sp"))
            if not r1.require(is_undo, (fn, "error-without-undo"), "%s: an error exit after key generation does not go through try_undo_key_generation: the generated key is orphaned" % L.short(fn), e.node.get("sp")):
                continue
            n_undo += 1
            a = callee["args"]
            ko = H.origins(a[1], env)
            r1.require(H.origins(a[0], env) == {("param", "storage")} and bool(ko) and all(o[0] == "call" and o[-1] == "key_id" for o in ko), (fn, "undo-args"), "try_undo_key_generation is not given (storage, &key_id of the generated key): %s" % sorted(map(str, ko)))
            # after insert_method succeeded: the branch removes the method first
            # insert_method *succeeded*: the statement containing the call completed (the exit is not inside that statement's own error branch)
            in_own_cond = any(c[0] == "if" and isinstance(c[1], dict) and any(x is ins[0] for x in H.walk(c[1])) for c in e.conds) if ins else False
            encl_conds = []
            for p_, role_, idx_, child_ in tree.ancestors(e.node):
                if p_.get("k") == "if" and role_ in ("then", "else"):
                    encl_conds.append(p_["cond"])
            in_own_cond = any(any(x is ins[0] for x in H.walk(c_)) for c_ in encl_conds) if ins else False
            after_ins = (any(any(x is ins[0] for x in H.walk(s)) for s in e.pre) and not in_own_cond) if ins else False
            if after_ins:
                blk = block_of_exit(tree, e.node)
                rm = [x for s in blk for x in H.walk(s) if x.get("k") == "mcall" and x["name"] == "remove_method"]
                r1.require(len(rm) == 1 and H.local_name(rm[0]["args"][0]) == "method_id", (fn, "undo-insert_method"), "%s: an error exit after insert_method succeeded does not first remove the inserted method from the document" % L.short(fn), e.node.get("sp"))
                r1.site("%s: error after insert_method → remove_method(&method_id) then undo" % kind, e.node.get("sp"))
        r1.require(n_undo == 3, (fn, "undo-exits"), "%s: expected 3 compensated error exits (method construction, insert_method, insert_key_id), found %d" % (L.short(fn), n_undo))
        # `?` exits positioned after the generate call
        tries = []
        seen_gen = False
        for n in H.walk(H.root(h)):
            if n is gen_calls[0]:
                seen_gen = True
            if n.get("k") == "match" and n.get("src") == "try":
                inner = n["scrut"]["args"][0] if n["scrut"].get("args") else None
                calls = [H.fn_name(c) or c.get("name", "") for c in H.tried_calls([n])]
                is_gen = any(x is gen_calls[0] for x in H.walk(n))
                tries.append((is_gen, [c.rsplit("::", 1)[-1] for c in calls]))
        after = [t for g, t in tries if not g]
        after = [t for t in after if not ("generate" in t or "generate_bbs" in t)]
        allowed = [t for t in after if "new" in t and "map_err" in t or "ok_or" in t and "fragment" in t or ("fragment" in t)]
        r1.site("%s: `?` exits other than generate: %s" % (kind, after))
        r1.require(len(after) == 2 and any("fragment" in t for t in after) and any(t[-1] == "new" or "new" in t for t in after), (fn, "uncompensated-try"),
                   "%s: the `?` exits besides key generation are %s; only MethodDigest::new(..)? and the fragment extraction may return without undo (neither touches storage and both are infallible for a JWK method with a fragment)" % (L.short(fn), after))
        r1.exception(fn + " `MethodDigest::new(&method)?`", "reviewed", "total for PublicKeyJwk methods produced by new_from_jwk; no storage effect between generate and this exit is left behind only if it cannot fail")
        r1.exception(fn + " `method_id.fragment().ok_or(..)?`", "reviewed", "new_from_jwk always sets a fragment")
        # order of effects: generate → insert_method → insert_key_id
        order = []
        for n in H.walk(H.root(h)):
            nm = (H.fn_name(n) or n.get("name") or "") if n.get("k") in ("call", "mcall") else ""
            if re.search(r"(JwkStorage::generate|generate_bbs)$", nm):
                order.append("generate")
            elif n.get("k") == "mcall" and n["name"] == "insert_method":
                order.append("insert_method")
            elif nm.endswith("KeyIdStorage::insert_key_id"):
                order.append("insert_key_id")
        r1.require(order == ["generate", "insert_method", "insert_key_id"], (fn, "effect-order"), "%s: effects are not generate → insert_method → insert_key_id: %s" % (L.short(fn), order))
    # try_undo_key_generation
    h = F.hir(UNDO)
    if r1.anchor(h, UNDO):
        env = H.Env(h)
        dels = [n for n in H.walk(H.root(h)) if n.get("k") == "call" and (H.fn_name(n) or "").endswith("JwkStorage::delete")]
        ok = len(dels) == 1 and H.origins(dels[0]["args"][1], env) == {("param", "key_id")}
        r1.require(ok, (UNDO, "delete"), "try_undo_key_generation does not delete exactly the given key id")
        others = [H.fn_name(n) for n in H.walk(H.root(h)) if n.get("k") == "call" and STORAGE_CALL.search(H.fn_name(n) or "") and not (H.fn_name(n) or "").endswith("JwkStorage::delete")]
        r1.require(not others, (UNDO, "extra-storage-calls", ",".join(sorted(x.rsplit("::", 1)[-1] for x in others))), "try_undo_key_generation consults the store with %s before deleting: a failure of that call can skip the undo silently" % sorted(x.rsplit("::", 1)[-1] for x in others))
        iff = H.find_first(h, lambda n: n.get("k") == "if" and H.strip(n["cond"]).get("k") == "letexpr")
        okt = False
        if iff is not None and iff.get("else") is not None:
            ps = H.pat_str(H.strip(iff["cond"])["pat"])
            t_v = H.err_variant(iff["then"].get("expr") or iff["then"]) if iff["then"].get("k") == "block" else None
            then_struct = [x for x in H.walk(iff["then"]) if x.get("k") == "struct" and H.variant_name(x["res"]) == "UndoOperationFailed"]
            else_o = H.origins(iff["else"], env)
            okt = ps.startswith("Err") and bool(then_struct) and else_o == {("param", "source_error")}
            if then_struct:
                fl = {f["name"]: H.origins(f["e"], env, extra=re.compile(r"Box::new$")) for f in then_struct[0]["fields"]}
                okt = okt and fl.get("source") == {("param", "source_error")}
        r1.site("try_undo_key_generation: delete failed → UndoOperationFailed{source: source_error}, else source_error: %s" % okt)
        r1.require(okt, (UNDO, "table"), "try_undo_key_generation does not return UndoOperationFailed exactly when the deletion failed and the source error otherwise")
    r1.floor(11)

    # ------------------------------------------------------------------ R2 compensation in purge_method
    r2 = R.rule("C09-R2", "T11+T4", "purge_method: after remove_method_and_scope succeeded every error exit re-inserts the method under the scope it was found in, or reports UndoOperationFailed; the (key deletion, key-id deletion) table is complete")
    for kind, fn in PURGE.items():
        h = F.hir(fn)
        if not r2.anchor(h, fn):
            continue
        env = H.Env(h)
        tree, infos = L.exit_infos(h)
        rms = [n for n in H.walk(H.root(h)) if n.get("k") == "mcall" and n["name"] == "remove_method_and_scope"]
        if not r2.require(len(rms) == 1, (fn, "remove-call"), "expected one remove_method_and_scope call"):
            continue
        reins = [n for n in H.walk(H.root(h)) if n.get("k") == "mcall" and n["name"] == "insert_method"]
        for ri in reins:
            a = ri["args"]
            o0 = H.origins(a[0], env)
            o1 = H.origins(a[1], env)
            ok = bool(o0) and all(o[0] == "call" and o[1].endswith("remove_method_and_scope") and o[-1] == "0" for o in o0) and bool(o1) and all(o[0] == "call" and o[1].endswith("remove_method_and_scope") and o[-1] == "1" for o in o1)
            r2.site("%s: undo insert_method(method ← %s, scope ← %s)" % (kind, sorted(o[-1] for o in o0), sorted(map(str, o1))[:2]), ri["sp"])
            r2.require(ok, (fn, "reinsert-args"), "%s: an undo re-inserts the method with %s instead of the (method, scope) pair returned by remove_method_and_scope: the method comes back in another scope" % (L.short(fn), sorted(map(str, o1))), ri["sp"])
        errs = [e for e in infos if e.outcome.startswith("Err(")]
        n_comp = 0
        for e in errs:
            after_rm = any(any(x is rms[0] for x in H.walk(s)) for s in e.pre)
            if not after_rm:
                continue
            is_undo_failed = e.outcome == "Err(UndoOperationFailed)"
            blk = block_of_exit(tree, e.node)
            re_ins = [x for s in blk for x in H.walk(s) if x.get("k") == "mcall" and x["name"] == "insert_method"]
            r2.site("%s: error exit %s → %s" % (kind, e.outcome, "UndoOperationFailed" if is_undo_failed else ("re-inserts method" if re_ins else "NO COMPENSATION")), e.node.get("sp"))
            r2.require(is_undo_failed or len(re_ins) == 1, (fn, "error-without-reinsert", e.outcome), "%s: error exit %s after the method was removed neither re-inserts it nor reports UndoOperationFailed" % (L.short(fn), e.outcome), e.node.get("sp"))
            n_comp += 1
        r2.require(n_comp == 6, (fn, "compensated-exits"), "%s: expected 6 error exits after removal (digest, get_key_id, and four in the deletion table), found %d" % (L.short(fn), n_comp))
        # the 4-row table
        ms = [m for m in H.walk(H.root(h)) if m.get("k") == "match" and m.get("src") == "normal" and H.strip(m["scrut"]).get("k") == "tup" and len(H.strip(m["scrut"])["es"]) == 2
              and {H.local_name(x) for x in H.strip(m["scrut"])["es"]} == {"key_deletion_result", "key_id_deletion_result"}]
        if r2.require(len(ms) == 1, (fn, "table"), "the (key_deletion_result, key_id_deletion_result) table was not found"):
            rows = {}
            for arm in ms[0]["arms"]:
                ps = H.pat_str(arm["pat"])
                fns = [x["name"] if x.get("k") == "mcall" else (H.fn_name(x) or "").rsplit("::", 1)[-1] for x in H.walk(arm["body"]) if x.get("k") in ("mcall", "call") and not x.get("ctor")]
                outs = sorted({H.outcome(n_) for n_, _ in H.exits({"value": arm["body"]})})
                rows[ps] = (outs, [f for f in fns if f in ("insert_method", "insert_key_id")])
                r2.site("%s: row %s → %s %s" % (kind, ps, outs, rows[ps][1]), arm["body"].get("sp"))
            want = {
                "(Ok(_), Ok(_))": (["Ok"], []),
                "(Ok(_), Err(_))": (["Err(UndoOperationFailed)"], []),
                "(Err(_), Ok(_))": (["Err(KeyStorageError)", "Err(UndoOperationFailed)"], ["insert_key_id", "insert_method"]),
                "(Err(_), Err(_))": (["Err(KeyIdStorageError)"], ["insert_method"]),
            }
            r2.require(rows == want, (fn, "table-rows"), "%s: the deletion table is %s, expected %s" % (L.short(fn), rows, want))
            # (Err, Ok): the key id is re-inserted before the method, and only when that succeeded is the method re-inserted
            for arm in ms[0]["arms"]:
                if H.pat_str(arm["pat"]) == "(Err(_), Ok(_))":
                    iff = H.find_first({"value": arm["body"]}, lambda n: n.get("k") == "if" and H.strip(n["cond"]).get("k") == "letexpr")
                    ok = False
                    if iff is not None and iff.get("else") is not None:
                        ok = "insert_key_id" in [(H.fn_name(x) or "").rsplit("::", 1)[-1] for x in H.walk(H.strip(iff["cond"])["init"]) if x.get("k") == "call"] and \
                            any(x.get("k") == "mcall" and x["name"] == "insert_method" for x in H.walk(iff["else"])) and not any(x.get("k") == "mcall" and x["name"] == "insert_method" for x in H.walk(iff["then"]))
                        ik = [x for x in H.walk(H.strip(iff["cond"])["init"]) if x.get("k") == "call" and (H.fn_name(x) or "").endswith("insert_key_id")]
                        if ik:
                            ao = [H.origins(a_, env, extra=re.compile(r"::clone$")) for a_ in ik[0]["args"][1:]]
                            ok = ok and all(o[0] == "call" and o[1].endswith("MethodDigest::new") for o in ao[0]) and all(o[0] == "call" and o[1].endswith("get_key_id") for o in ao[1])
                    r2.require(ok, (fn, "row-err-ok"), "%s: row (key deletion failed, key-id deletion succeeded) does not re-insert the same (digest, key id) and then — only on success — the method" % L.short(fn))
        # deletions use the key id recorded for this method's digest
        for pat_, want_src in ((r"JwkStorage::delete$", "get_key_id"), (r"KeyIdStorage::delete_key_id$", "MethodDigest::new")):
            for c in [n for n in H.walk(H.root(h)) if n.get("k") == "call" and re.search(pat_, H.fn_name(n) or "")]:
                oo = H.origins(c["args"][1], env)
                r2.require(bool(oo) and all(o[0] == "call" and o[1].endswith(want_src) for o in oo), (fn, "delete-arg", want_src), "%s: %s is not applied to the value obtained from %s" % (L.short(fn), L.short(H.fn_name(c)), want_src))
        for c in [n for n in H.walk(H.root(h)) if n.get("k") == "call" and (H.fn_name(n) or "").endswith("MethodDigest::new")]:
            oo = H.origins(c["args"][0], env)
            r2.require(bool(oo) and all(o[0] == "call" and o[1].endswith("remove_method_and_scope") for o in oo), (fn, "digest-of-removed"), "the digest is not computed of the removed method")
    r2.floor(28)

    # ------------------------------------------------------------------ R3 nothing removed is dropped
    r3 = R.rule("C09-R3", "T11", "everything remove_method_and_scope takes out of the document is returned to the caller (so that a failing purge_method can put it back)")
    fn = CD + "::remove_method_and_scope"
    h = F.hir(fn)
    fdef = F.fns.get(fn)
    if r3.anchor(h, fn) and r3.anchor(fdef, fn + " (sig)"):
        env = H.Env(h)
        tree = H.Tree(h)
        rem = [n for n in H.walk(H.root(h)) if n.get("k") == "mcall" and n["name"] == "remove" and (H.fn_name(n) or "").startswith("identity_core::common::ordered_set::OrderedSet::")]
        uncond = [n for n in rem if not [c for c in tree.path_conditions(n) if c[0] in ("if", "loop", "arm")]]
        ret = fdef["sig"].split("->")[-1].strip()
        single = "Option<(" in ret.replace(" ", "") and "Vec" not in ret
        r3.site("remove_method_and_scope: %d removing calls, %d unconditional; returns %s" % (len(rem), len(uncond), ret), h["value"]["sp"])
        # entries of kind Refer removed by the unconditional calls are only inspected by a refutable `if let (Embed(..), _)`
        drops_refer = False
        for n in H.walk(H.root(h)):
            if n.get("k") == "if" and H.strip(n["cond"]).get("k") == "letexpr" and "Embed" in H.pat_str(H.strip(n["cond"])["pat"]) and n.get("else") is None:
                drops_refer = True
        if len(uncond) > 1 and single and drops_refer:
            for kind, pfn in PURGE.items():
                ph = F.hir(pfn)
                if ph is None:
                    continue
                reattach = [x for x in H.walk(H.root(ph)) if x.get("k") == "mcall" and x["name"] == "attach_method_relationship"]
                if not reattach:
                    r3.fail((pfn, "undo-loses-references"),
                            "remove_method_and_scope unconditionally removes the id from all five relationship sets but returns a single (method, scope): removed MethodRef::Refer entries are dropped, and %s's undo paths re-insert only the method — a failing purge of a general-purpose method silently loses its relationship references" % L.short(pfn),
                            ph["value"]["sp"])
    r3.floor(1)

    # ------------------------------------------------------------------ R4 ignored undo results
    r4 = R.rule("C09-R4", "T9", "results ignored with `let _ =` on undo paths are exactly the reviewed re-insertions/removals")
    for kind, fn in list(GEN.items()) + list(PURGE.items()):
        h = F.hir(fn)
        if not h:
            continue
        ign = []
        for n in H.walk(H.root(h)):
            if n.get("k") == "let" and n["pat"].get("k") == "wild" and n.get("init") is not None:
                c = H.strip(n["init"])
                ign.append(c.get("name") or (H.fn_name(c) or "?").rsplit("::", 1)[-1])
        want = ["remove_method"] if fn in GEN.values() else ["insert_method"] * 4
        r4.site("%s ignores results of %s" % (L.short(fn), ign))
        r4.require(sorted(ign) == sorted(want), (fn, "ignored-results"), "%s ignores the results of %s; reviewed set is %s (a storage call result must never be ignored)" % (L.short(fn), ign, want))
    r4.exception("let _ = document.insert_method(method, scope)", "reviewed", "the id was freed by the immediately preceding removal and insert_method's gate (C04-R2) admits it")
    r4.exception("let _ = document.remove_method(&method_id)", "reviewed", "removes the method inserted a few lines earlier; None cannot occur")
    r4.floor(4)

    # ------------------------------------------------------------------ R5 both document types, sealed trait
    r5 = R.rule("C09-R5", "T13+T5", "JwkDocumentExt is sealed to CoreDocument and IotaDocument; both impls delegate to the macro-generated functions with their own arguments")
    tr = F.traits.get(EXT)
    if r5.anchor(tr, EXT):
        r5.site("JwkDocumentExt supertraits %s" % tr["supertraits"])
        r5.require(any(s.get("exported") is False for s in tr["supertraits"]), (EXT, "sealed"), "JwkDocumentExt is no longer sealed: foreign document types could implement it without the undo logic")
    for ty, kind in ((CD, "core"), ("identity_iota_core::document::iota_document::IotaDocument", "iota")):
        for m, table in (("generate_method", GEN), ("purge_method", PURGE)):
            fn = "<%s as %s>::%s" % (ty, EXT, m)
            b = F.bodies.get(fn)
            if not r5.anchor(b, fn):
                continue
            fns = H.called_fns(H.root(b["hir"]))
            r5.site("%s → %s" % (L.short(fn), L.short(table[kind])))
            r5.require(table[kind] in fns, (fn, "delegates"), "%s does not delegate to %s" % (L.short(fn), L.short(table[kind])))
    r5.floor(5)
