"""C09 — Storage-backed method generation/purge is all-or-nothing under storage faults."""
import re

import hir as H
import mir as M
import rulelib as L
import symrules as SR
import sym

CRATES = ["identity_storage", "identity_document", "identity_iota_core"]
X = "identity_storage::storage::jwk_document_ext"
EXT = X + "::JwkDocumentExt"
CD = "identity_document::document::core_document::CoreDocument"
UNDO = X + "::try_undo_key_generation"

GEN = {"core": X + "::generate_method_core_document", "iota": X + "::iota_document::generate_method_iota_document"}
PURGE = {"core": X + "::purge_method_core_document", "iota": X + "::iota_document::purge_method_iota_document"}
STORAGE_CALL = re.compile(r"(JwkStorage|KeyIdStorage|JwkStorageBbsPlusExt)::(generate|generate_bbs|insert|sign|delete|exists|insert_key_id|get_key_id|delete_key_id)$")


def block_of_exit(tree, node):
    """Statements of the innermost block containing the exit that precede it (same branch only)."""
    for p, role, idx, child in tree.ancestors(node):
        if p.get("k") == "block":
            if role == "stmts":
                return p["stmts"][:idx]
            if role == "expr":
                return p["stmts"]
    return []


def run(F, R, tier):
    R.undecided += ["the fault × call-occurrence enumeration itself (a dynamic experiment): the rules decide that every error exit after an effect passes its compensation, for every path",
                    "behaviour of concrete stores under faults (their own atomicity)"]

    # ------------------------------------------------------------------ R1 compensation in generate_method
    r1 = R.rule("C09-R1", "T8+T11", "generate_method, evaluated abstractly with every storage/document call an oracle that may succeed or fail: on every path the net effect is all (key generated, method inserted, key id recorded → Ok) or nothing (key deleted again ✓, method removed again, no key id → the original error), the only other outcome being Err(UndoOperationFailed) when the key deletion itself failed; try_undo_key_generation deletes exactly the given key and reports a failed deletion")
    OPQ = (r"JwkStorage::(generate|delete|insert|sign|exists)$|JwkStorageBbsPlusExt::generate_bbs$|KeyIdStorage::(insert_key_id|get_key_id|delete_key_id)$|::insert_method$|::remove_method$|"
           r"VerificationMethod::new_from_jwk$|MethodDigest::new$|Storage::key_(id_)?storage$|DIDUrl::fragment$|::id$|::resolve_(method|service)$")
    for kind, fn in GEN.items():
        if not r1.anchor(F.hir(fn), fn):
            continue
        tab = SR.Table(F, fn, opaque=OPQ, rule=r1, inline_depth=5, effectful=r"JwkStorage::|JwkStorageBbsPlusExt::|KeyIdStorage::|::insert_method$|::remove_method$")
        rows = {"ok": 0, "rolled-back": 0, "undo-failed": 0, "before-generate": 0}
        for q in tab.paths:
            gens = q.calls(r"JwkStorage::generate$|JwkStorageBbsPlusExt::generate_bbs$")
            if not r1.require(len(gens) <= 1, (fn, "generate-call"), "expected at most one key generation call on a path"):
                continue
            G = bool(gens) and q.succeeded(gens[0]) is True
            GP = ("payload", gens[0].result.t, "Ok", 0) if gens else None
            dels = q.calls(r"JwkStorage::delete$")
            ims = q.calls(r"::insert_method$")
            rms = q.calls(r"::remove_method$")
            iks = q.calls(r"KeyIdStorage::insert_key_id$")
            nfj = q.calls(r"VerificationMethod::new_from_jwk$")
            MP = ("payload", nfj[0].result.t, "Ok", 0) if nfj else None
            IM = any(q.succeeded(e) is True for e in ims)
            IK = any(q.succeeded(e) is True for e in iks)
            where = q.describe()[-220:]
            if not G:
                r1.require(not (ims or iks or dels) and SR.is_failure(q.ret), (fn, "effects-before-generate"), "%s: the document or a store is touched although key generation did not succeed" % L.short(fn))
                rows["before-generate"] += 1
                continue
            for e in dels:
                r1.require(SR.derives(e.args[1], GP), (fn, "undo-args"), "the key deleted on an error path is not the generated key: %s" % sym.fmt(sym.term(e.args[1])))
            for e in ims:
                r1.require(MP is not None and SR.derives(e.args[1], MP), (fn, "insert-arg"), "the method inserted is not the one built from the generated key")
            for e in iks:
                r1.require(SR.derives(e.args[2], GP) and MP is not None and SR.derives(e.args[1], MP), (fn, "key-id-args"), "insert_key_id does not record (digest of the new method → id of the generated key)")
            if SR.is_success(q.ret) and not SR.is_failure(q.ret):
                okk = IM and IK and not dels and not rms
                r1.require(okk, (fn, "partial-success"), "%s returns Ok although not all of {method inserted, key id recorded} happened, or after undoing: …%s" % (L.short(fn), where))
                r1.require(MP is not None and SR.derives(q.ret, MP), (fn, "returns"), "the fragment returned is not the new method's")
                rows["ok"] += 1
                continue
            # error exits after a successful generate
            md = q.calls(r"MethodDigest::new$")
            fr = [e for e in q.calls(r"DIDUrl::fragment$") if MP is not None and SR.derives(e.args[0], MP)]
            if any(q.succeeded(e) is False for e in md) or any(q.variant.get(e.result.t) == "None" for e in fr):
                # the two reviewed `?` exits: neither can fail for a JWK method with a fragment built by new_from_jwk
                continue
            r1.require(not IK, (fn, "key-id-left"), "%s returns an error after the key id was recorded: …%s" % (L.short(fn), where))
            if not IM:
                # nothing of ours is in the document: a remove_method here can only hit a method that was there before (the one whose fragment
                # collided) — the failed call would change the document
                r1.require(not rms, (fn, "removes-foreign-method"), "%s: an error exit on which insert_method did not succeed calls remove_method: the existing method with that id is removed from the document: …%s" % (L.short(fn), where))
            if IM:
                rm_ok = any(MP is not None and SR.derives(e.args[1], MP) for e in rms)
                r1.require(rm_ok, (fn, "undo-insert_method"), "%s: an error exit after insert_method succeeded does not first remove the inserted method from the document: …%s" % (L.short(fn), where))
            if not r1.require(bool(dels), (fn, "error-without-undo"), "%s: an error exit after key generation does not delete the generated key again (orphaned key): …%s" % (L.short(fn), where)):
                continue
            if any(q.succeeded(e) is False for e in dels):
                r1.require("UndoOperationFailed" in str(q.ret), (fn, "undo-failure-silent"), "the key deletion failed but the error returned (%s) does not report the failed undo" % SR.err_name(q.ret))
                rows["undo-failed"] += 1
            else:
                r1.require("UndoOperationFailed" not in str(q.ret), (fn, "undo-report"), "UndoOperationFailed is reported although the undo succeeded")
                rows["rolled-back"] += 1
        r1.site("%s: fault table rows %s" % (kind, rows))
        r1.require(not tab.paths or (rows["ok"] >= 1 and rows["rolled-back"] >= 3 and rows["undo-failed"] >= 3), (fn, "undo-exits"), "%s: expected the three compensated failure points (method construction, insert_method, insert_key_id), each with a successful and a failed undo: %s" % (L.short(fn), rows))
        r1.exception(fn + " `MethodDigest::new(&method)?`", "reviewed", "total for PublicKeyJwk methods produced by new_from_jwk; no storage effect between generate and this exit is left behind only if it cannot fail")
        r1.exception(fn + " `method_id.fragment().ok_or(..)?`", "reviewed", "new_from_jwk always sets a fragment")
    if r1.anchor(F.hir(UNDO), UNDO):
        tab = SR.Table(F, UNDO, opaque=OPQ, rule=r1)
        okt = bool(tab.paths)
        seen = set()
        for q in tab.paths:
            st = [e for e in q.events if e.kind == "call" and STORAGE_CALL.search(e.fn or "")]
            dels = [e for e in st if (e.fn or "").endswith("JwkStorage::delete")]
            if not r1.require(len(dels) == 1 and SR.pure(dels[0].args[1], SR.param("key_id")), (UNDO, "delete"), "try_undo_key_generation does not delete exactly the given key id"):
                okt = False
                continue
            others = sorted({(e.fn or "").rsplit("::", 1)[-1] for e in st if e is not dels[0]})
            r1.require(not others, (UNDO, "extra-storage-calls", ",".join(others)), "try_undo_key_generation consults the store with %s besides deleting: a failure of that call can skip the undo silently" % others)
            if q.succeeded(dels[0]) is False:
                seen.add("failed")
                good = "UndoOperationFailed" in str(q.ret) and SR.derives(q.ret, SR.param("source_error"))
            else:
                seen.add("deleted")
                good = SR.pure(q.ret, SR.param("source_error"))
            if not r1.require(good, (UNDO, "table"), "try_undo_key_generation does not return UndoOperationFailed{source} exactly when the deletion failed and the source error otherwise: %s" % (q.ret,)):
                okt = False
        r1.require(seen == {"failed", "deleted"} or not tab.paths, (UNDO, "table"), "try_undo_key_generation does not branch on the result of the deletion")
        r1.site("try_undo_key_generation: delete failed → UndoOperationFailed{source: source_error}, else source_error: %s" % okt)
    r1.floor(3)

    # ------------------------------------------------------------------ R2 compensation in purge_method
    r2 = R.rule("C09-R2", "T8+T11", "purge_method, evaluated abstractly with every storage/document call an oracle that may succeed or fail (the two deletions joined, each evaluated): on every path the net effect is all (method removed, key deleted, key id deleted → Ok) or nothing (method re-inserted under the scope it was found in, key and key id still/again present → the original error); the only other outcome is Err(UndoOperationFailed)")
    OPQ2 = (r"JwkStorage::(generate|delete|insert|sign|exists)$|KeyIdStorage::(insert_key_id|get_key_id|delete_key_id)$|::insert_method$|::remove_method_and_scope$|"
            r"MethodDigest::(new|pack)$|Storage::key_(id_)?storage$")
    for kind, fn in PURGE.items():
        if not r2.anchor(F.hir(fn), fn):
            continue
        tab = SR.Table(F, fn, opaque=OPQ2, rule=r2, inline_depth=5, effectful=r"JwkStorage::|KeyIdStorage::|::insert_method$|::remove_method(_and_scope)?$")
        rows = {"ok": 0, "rolled-back": 0, "undo-failed": 0, "not-found": 0}
        for q in tab.paths:
            rms = q.calls(r"::remove_method_and_scope$")
            if not r2.require(len(rms) == 1, (fn, "remove-call"), "expected one remove_method_and_scope call on every path"):
                continue
            where = q.describe()[-200:]
            if q.succeeded(rms[0]) is not True:
                r2.require(SR.is_failure(q.ret) and len([e for e in q.events if e.kind == "call" and STORAGE_CALL.search(e.fn or "")]) == 0 and not q.calls(r"::insert_method$"), (fn, "effects-without-method"), "%s touches a store although the method was not found" % L.short(fn))
                rows["not-found"] += 1
                continue
            RM = ("payload", rms[0].result.t, "Some", 0)
            METHOD, SCOPE = ("field", RM, "0"), ("field", RM, "1")
            md = q.calls(r"MethodDigest::new$")
            for e in md:
                r2.require(SR.pure(e.args[0], METHOD), (fn, "digest-of-removed"), "the digest is not computed of the removed method")
            DG = ("payload", md[0].result.t, "Ok", 0) if md else None
            gk = q.calls(r"KeyIdStorage::get_key_id$")
            KID = ("payload", gk[0].result.t, "Ok", 0) if gk else None
            for e in gk:
                r2.require(DG is not None and SR.pure(e.args[1], DG), (fn, "delete-arg", "MethodDigest::new"), "get_key_id is not asked for this method's digest")
            dk = q.calls(r"JwkStorage::delete$")
            di = q.calls(r"KeyIdStorage::delete_key_id$")
            ik = q.calls(r"KeyIdStorage::insert_key_id$")
            ins = q.calls(r"::insert_method$")
            for e in dk:
                r2.require(KID is not None and SR.pure(e.args[1], KID), (fn, "delete-arg", "get_key_id"), "%s: JwkStorage::delete is not applied to the key id recorded for this method" % L.short(fn))
            for e in di:
                r2.require(DG is not None and SR.pure(e.args[1], DG), (fn, "delete-arg", "MethodDigest::new"), "%s: delete_key_id is not applied to this method's digest" % L.short(fn))
            for e in ik:
                r2.require(DG is not None and KID is not None and SR.pure(e.args[1], DG) and SR.pure(e.args[2], KID), (fn, "row-err-ok"), "%s: the key id re-inserted on an undo path is not the same (digest, key id)" % L.short(fn))
            for e in ins:
                r2.require(SR.pure(e.args[1], METHOD) and SR.pure(e.args[2], SCOPE), (fn, "reinsert-args"), "%s: an undo re-inserts the method with (%s, %s) instead of the (method, scope) pair returned by remove_method_and_scope: the method comes back in another scope" % (
                    L.short(fn), sym.fmt(sym.term(e.args[1])), sym.fmt(sym.term(e.args[2]))))
            # the ledger (1 = present)
            M = 1 if ins else 0
            K = 0 if any(q.succeeded(e) is True for e in dk) else 1
            I = 0 if any(q.succeeded(e) is True for e in di) else 1
            if any(q.succeeded(e) is True for e in ik):
                I = 1
            undecided = [e for e in dk + di if q.succeeded(e) is None]
            if SR.is_success(q.ret) and not SR.is_failure(q.ret):
                r2.require((M, K, I) == (0, 0, 0) and not undecided, (fn, "partial-success"), "%s returns Ok with method/key/key-id presence %s (a deletion failed, was not awaited or was undone): …%s" % (L.short(fn), (M, K, I), where))
                rows["ok"] += 1
            elif "UndoOperationFailed" in str(q.ret):
                r2.require((M, K, I) != (1, 1, 1), (fn, "undo-report"), "UndoOperationFailed is reported although everything was restored")
                rows["undo-failed"] += 1
            else:
                r2.require((M, K, I) == (1, 1, 1), (fn, "error-without-reinsert", SR.err_name(q.ret) or "?"), "%s: error exit %s leaves method/key/key-id presence %s — neither everything restored nor UndoOperationFailed: …%s" % (
                    L.short(fn), SR.err_name(q.ret), (M, K, I), where))
                rows["rolled-back"] += 1
        r2.site("%s: fault table rows %s" % (kind, rows))
        r2.require(not tab.paths or (rows["ok"] == 1 and rows["rolled-back"] >= 4 and rows["undo-failed"] >= 2 and rows["not-found"] == 1), (fn, "compensated-exits"),
                   "%s: expected one success, the four restored failures (digest, get_key_id, key deletion, both deletions) and the two reported undo failures: %s" % (L.short(fn), rows))
    r2.floor(2)

    # ------------------------------------------------------------------ R3 nothing removed is dropped
    r3 = R.rule("C09-R3", "T11", "everything remove_method_and_scope takes out of the document is returned to the caller (so that a failing purge_method can put it back)")
    fn = CD + "::remove_method_and_scope"
    h = F.hir(fn)
    fdef = F.fns.get(fn)
    if r3.anchor(h, fn) and r3.anchor(fdef, fn + " (sig)"):
        env = H.Env(h)
        tree = H.Tree(h)
        rem = [n for n in H.walk(H.root(h)) if n.get("k") == "mcall" and n["name"] == "remove" and (H.fn_name(n) or "").startswith("identity_core::common::ordered_set::OrderedSet::")]
        uncond = [n for n in rem if not [c for c in tree.path_conditions(n) if c[0] in ("if", "loop", "arm")]]
        ret = fdef["sig"].split("->")[-1].strip()
        single = "Option<(" in ret.replace(" ", "") and "Vec" not in ret
        r3.site("remove_method_and_scope: %d removing calls, %d unconditional; returns %s" % (len(rem), len(uncond), ret), h["value"]["sp"])
        # entries of kind Refer removed by the unconditional calls are only inspected by a refutable `if let (Embed(..), _)`
        drops_refer = False
        for n in H.walk(H.root(h)):
            if n.get("k") == "if" and H.strip(n["cond"]).get("k") == "letexpr" and "Embed" in H.pat_str(H.strip(n["cond"])["pat"]) and n.get("else") is None:
                drops_refer = True
        if len(uncond) > 1 and single and drops_refer:
            for kind, pfn in PURGE.items():
                ph = F.hir(pfn)
                if ph is None:
                    continue
                reattach = [x for x in H.walk(H.root(ph)) if x.get("k") == "mcall" and x["name"] == "attach_method_relationship"]
                if not reattach:
                    r3.fail((pfn, "undo-loses-references"),
                            "remove_method_and_scope unconditionally removes the id from all five relationship sets but returns a single (method, scope): removed MethodRef::Refer entries are dropped, and %s's undo paths re-insert only the method — a failing purge of a general-purpose method silently loses its relationship references" % L.short(pfn),
                            ph["value"]["sp"])
    r3.floor(1)

    # ------------------------------------------------------------------ R4 ignored undo results
    r4 = R.rule("C09-R4", "T9", "results ignored with `let _ =` on undo paths are exactly the reviewed re-insertions/removals")
    for kind, fn in list(GEN.items()) + list(PURGE.items()):
        h = F.hir(fn)
        if not h:
            continue
        ign = []
        for n in H.walk(H.root(h)):
            if n.get("k") == "let" and n["pat"].get("k") == "wild" and n.get("init") is not None:
                c = H.strip(n["init"])
                ign.append(c.get("name") or (H.fn_name(c) or "?").rsplit("::", 1)[-1])
        want = ["remove_method"] if fn in GEN.values() else ["insert_method"] * 4
        r4.site("%s ignores results of %s" % (L.short(fn), ign))
        r4.require(sorted(ign) == sorted(want), (fn, "ignored-results"), "%s ignores the results of %s; reviewed set is %s (a storage call result must never be ignored)" % (L.short(fn), ign, want))
    r4.exception("let _ = document.insert_method(method, scope)", "reviewed", "the id was freed by the immediately preceding removal and insert_method's gate (C04-R2) admits it")
    L.depends_on(r4, F, tier, ["C04-R2"], "the ignored re-insertion cannot be refused: insert_method refuses only an identifier that is occupied as a whole, and the removal just freed it")
    r4.exception("let _ = document.remove_method(&method_id)", "reviewed", "removes the method inserted a few lines earlier; None cannot occur")
    r4.floor(4)

    # ------------------------------------------------------------------ R5 both document types, sealed trait
    r5 = R.rule("C09-R5", "T13+T5", "JwkDocumentExt is sealed to CoreDocument and IotaDocument; both impls delegate to the macro-generated functions with their own arguments")
    tr = F.traits.get(EXT)
    if r5.anchor(tr, EXT):
        r5.site("JwkDocumentExt supertraits %s" % tr["supertraits"])
        r5.require(any(s.get("exported") is False for s in tr["supertraits"]), (EXT, "sealed"), "JwkDocumentExt is no longer sealed: foreign document types could implement it without the undo logic")
    for ty, kind in ((CD, "core"), ("identity_iota_core::document::iota_document::IotaDocument", "iota")):
        for m, table in (("generate_method", GEN), ("purge_method", PURGE)):
            fn = "<%s as %s>::%s" % (ty, EXT, m)
            b = F.bodies.get(fn)
            if not r5.anchor(b, fn):
                continue
            fns = H.called_fns(H.root(b["hir"]))
            r5.site("%s → %s" % (L.short(fn), L.short(table[kind])))
            r5.require(table[kind] in fns, (fn, "delegates"), "%s does not delegate to %s" % (L.short(fn), L.short(table[kind])))
    r5.floor(5)
