"""Regenerates /verif/MANIFEST.json from the table below.  python3 rules/manifest_gen.py"""
import json
import os

VERIF = os.path.dirname(os.path.dirname(os.path.abspath(__file__)))

TRUST = ("Trusted: rustc front end and MIR construction, the factdrv extractor and the abstract evaluator rules/sym.py (exercised on every thorough run by replaying the seeded breaking changes and revert mutants in a scratch copy, and in development by 233 behaviour-preserving patches that must stay silent), frozen specification tables; "
         "dependencies (crypto, roaring, flate2, time, did_url_parser, sd-jwt-payload, serde) are trusted beyond their call protocol. ")

# pid -> (templates/technique, what is decided, residue)
CLAIMS = {}
NA = {}


def claim(pid, technique, text, residue, ref):
    CLAIMS[pid] = (technique, text, residue, ref)


def na(pid, reason):
    NA[pid] = reason


exec(open(os.path.join(VERIF, "rules", "claims.py")).read())


def main():
    checks = []
    for pid in sorted(CLAIMS):
        technique, text, residue, ref = CLAIMS[pid]
        checks.append({
            "property_id": pid,
            "quick_cmd": "./check %s --tier quick" % pid,
            "thorough_cmd": "./check %s --tier thorough" % pid,
            "evidence_file": "/verif/evidence/%s.json" % pid,
            "replay_cmd_template": "./check %s --replay {path}" % pid,
            "engine": "factdrv+rules",
            "level_claimed": {"category": "other", "text": text, "design_ref": ref},
            "level_note": TRUST + "Not decided (residue): " + residue,
            "technique": technique,
        })
    man = {
        "version": 1,
        "setup_cmd": "./setup.sh",
        "hooks": {
            "guard": "identity_rs_verif",
            "enable": "none needed: static analysis reads the tree as it is (guard name reserved, no hook commits)",
            "baseline_off_cmd": "cd /repo && cargo test --workspace --no-fail-fast --offline",
            "source_commits": [],
            "add_only": True,
        },
        "engines": [{
            "name": "factdrv+rules",
            "path": "/verif/factdrv, /verif/rules",
            "serves_properties": sorted(CLAIMS),
            "kind_free_text": "rustc_private fact extraction driver (expanded AST attrs, typed HIR, mir_built CFG) run as RUSTC_WORKSPACE_WRAPPER "
                              "under cargo +nightly check, plus repository-specific rule modules (Python stdlib) — dominator / must-pass-through / "
                              "who-may-write / decision-table / field-coverage / constant-agreement / mask-folding rules",
        }],
        "checks": checks,
        "notes": "Static analysis only. Every check re-extracts facts from /repo's current working tree (content-hash cache). "
                 "Known genuine defects are in /verif/known_findings.json (findings + fixed).",
        "not_applicable": [{"property_id": p, "reason": NA[p]} for p in sorted(NA)],
    }
    with open(os.path.join(VERIF, "MANIFEST.json"), "w") as fh:
        json.dump(man, fh, indent=1)
    print("MANIFEST.json: %d checks, %d not_applicable" % (len(checks), len(NA)))


if __name__ == "__main__":
    main()
