"""C13 — Timestamps are total, canonical whole-second UTC instants in years 0000-9999."""
import re

import hir as H
import mir as M
import rulelib as L
import symrules as SR
import sym
import c01

CRATES = ["identity_core"]
TS = "identity_core::common::timestamp::Timestamp"
DU = "identity_core::common::timestamp::Duration"


def run(F, R, tier):
    R.undecided += ["correctness of the `time` crate's RFC 3339 parser/formatter and of its unix-timestamp conversion", "leap-second handling (delegated to `time`)"]

    # ------------------------------------------------------------------ R1 constructor gate
    r1 = R.rule("C13-R1", "T1+T2", "Timestamp(..) is constructed only in from_unix — dominated by the year ∈ 0..10_000 test on the same UTC value — and in now_utc (system clock); parse/checked ops go through from_unix")
    cons = F.constructions(TS)
    allowed = {TS + "::from_unix": "validated", TS + "::now_utc": "reviewed"}
    for (p, bi, s) in cons:
        base = p.split("::{closure#")[0]
        r1.site("Timestamp(..) constructed in %s" % L.short(p))
        r1.require(base in allowed, (base, "constructs-Timestamp"), "Timestamp is constructed in %s without passing the 0000-9999 range gate of from_unix" % L.short(base))
    r1.require(any(p == TS + "::from_unix" for p, _, _ in cons), (TS + "::from_unix", "ANCHOR"), "from_unix no longer constructs Timestamp")
    r1.exception(TS + "::now_utc", "reviewed", "system clock: assumed between years 0000 and 9999 (documented in the source)")
    fn = TS + "::from_unix"
    if r1.anchor(F.hir(fn), fn):
        # by abstract evaluation: every accepting path converted `seconds` with OffsetDateTime::from_unix_timestamp ✓, bounded the
        # year of that very value to 0..=9999, and wraps that value
        tab = SR.Table(F, fn, opaque=r"OffsetDateTime::from_unix_timestamp$|OffsetDateTime::year$", rule=r1)
        n = 0
        for q in tab.ok():
            n += 1
            cv = [e for e in q.calls(r"from_unix_timestamp$") if q.succeeded(e) is True and sym.term(e.args[0]) == SR.param("seconds")]
            if not r1.require(len(cv) == 1, (fn, "arg"), "from_unix does not convert its `seconds` argument with OffsetDateTime::from_unix_timestamp (error propagated)"):
                continue
            val = ("payload", cv[0].result.t, "Ok", 0)
            yr = ("call", "time::offset_date_time::OffsetDateTime::year", (val,))
            lo, hi = SR.int_bounds(q, lambda t_: t_ == yr)
            r1.site("from_unix: Ok with year(from_unix_timestamp(seconds)) ∈ [%s, %s]" % (lo, hi))
            r1.require(lo == 0 and hi == 9999, (fn, "range-gate"), "from_unix can return Ok without the year of the converted value having been bounded to 0..=9999 (established: [%s, %s])" % (lo, hi))
            out = q.ret.fields[0] if isinstance(q.ret, sym.V) and q.ret.fields else None
            inner = out.f.get("0") if isinstance(out, sym.St) else None
            r1.require(inner is not None and sym.term(inner) == val, (fn, "wraps"), "from_unix does not wrap OffsetDateTime::from_unix_timestamp(seconds)?: %r" % (out,))
        for q in tab.err():
            r1.require(SR.err_name(q.ret) == "InvalidTimestamp", (fn, "error"), "from_unix rejects with %s, expected InvalidTimestamp" % SR.err_name(q.ret))
        r1.require(n > 0 or not tab.paths, (fn, "no-success"), "from_unix has no accepting path")
    # parse: every success value is the result of from_unix(parsed.unix_timestamp())
    fn = TS + "::parse"
    if r1.anchor(F.hir(fn), fn):
        tab = SR.Table(F, fn, opaque=r"OffsetDateTime::parse$|Timestamp::from_unix$|OffsetDateTime::unix_timestamp$", rule=r1)
        n = 0
        for q in tab.paths:
            if SR.is_failure(q.ret):
                continue
            n += 1
            pc = [e for e in q.calls(r"OffsetDateTime::parse$") if q.succeeded(e) is True]
            if not r1.require(len(pc) == 1 and SR.pure(pc[0].args[0], SR.param("input")), (fn, "parses-input"), "parse does not parse its input with OffsetDateTime::parse"):
                continue
            r1.require("Rfc3339" in sym.fmt(sym.term(pc[0].args[1])), (fn, "rfc3339"), "parse does not use the Rfc3339 format description")
            parsed = ("payload", pc[0].result.t, "Ok", 0)
            fu = [e for e in q.calls(r"Timestamp::from_unix$")]
            good = len(fu) == 1 and sym.term(fu[0].args[0]) == ("call", "time::offset_date_time::OffsetDateTime::unix_timestamp", (parsed,))
            r1.require(good, (fn, "instant"), "parse does not hand from_unix the unix timestamp of the parsed date-time: %s" % [sym.fmt(sym.term(e.args[0]))[:80] for e in fu])
            r1.require(bool(fu) and (sym.term(q.ret) == fu[0].result.t or SR.derives(q.ret, fu[0].result.t)), (fn, "via-from_unix"),
                       "parse has a success path that does not go through from_unix (range gate, UTC normalisation, whole seconds): %r" % (q.ret,))
            r1.require(not q.calls(r"OffsetDateTime::to_offset$"), (fn, "to_offset"), "parse uses the panicking OffsetDateTime::to_offset")
        r1.site("parse returns from_unix(unix_timestamp(OffsetDateTime::parse(input, Rfc3339)?)) on %d path(s)" % n)
    # with the `custom_time` feature now_utc delegates to the user's hook and constructs nothing itself
    r1.floor(3 if F.has_feature("identity_core", "custom_time") else 4)

    # ------------------------------------------------------------------ R2 checked arithmetic
    r2 = R.rule("C13-R2", "T2+T3", "checked_add/checked_sub return Some only through from_unix(result.unix_timestamp()) ✓; Duration constructors widen to i64 before scaling (no u32 arithmetic)")
    for name, op in (("checked_add", "checked_add"), ("checked_sub", "checked_sub")):
        fn = TS + "::" + name
        h = F.hir(fn)
        if not r2.anchor(h, fn):
            continue
        # by abstract evaluation: Some(x) only when the time crate's checked op succeeded on (self.0, duration.0) and
        # from_unix(unix_timestamp(that result)) accepted it (the 0000–9999 range gate), and x is that from_unix value
        tab = SR.Table(F, fn, opaque=r"OffsetDateTime::checked_(add|sub)$|Timestamp::from_unix$|OffsetDateTime::unix_timestamp$", rule=r2)
        ok = bool(tab.paths)
        n_some = 0
        for q in tab.paths:
            if isinstance(q.ret, sym.V) and q.ret.name == "Some":
                n_some += 1
                ops = [e for e in q.calls(r"OffsetDateTime::%s$" % op) if q.succeeded(e) is True]
                good = len(ops) == 1 and sym.term(ops[0].args[0]) == SR.fld("0") and sym.term(ops[0].args[1]) == SR.fld("0", base=SR.param("duration"))
                if good:
                    res = ("payload", ops[0].result.t, "Some", 0)
                    fu = [e for e in q.calls(r"Timestamp::from_unix$") if q.succeeded(e) is True and sym.term(e.args[0]) == ("call", "time::offset_date_time::OffsetDateTime::unix_timestamp", (res,))]
                    good = len(fu) == 1 and sym.term(q.ret.fields[0]) == ("payload", fu[0].result.t, "Ok", 0)
                ok = ok and good
            elif isinstance(q.ret, sym.V) and q.ret.name == "None":
                # nothing is returned *exactly* when leaving the range: the time crate's checked op failed, or from_unix (the range
                # gate) rejected its result — not because of some other test on the operands
                opf = [e for e in q.calls(r"OffsetDateTime::%s$" % op) if q.succeeded(e) is False]
                fuf = [e for e in q.calls(r"Timestamp::from_unix$") if q.succeeded(e) is False]
                if not (opf or fuf):
                    ok = False
                    r2.fail((fn, "none-without-cause"), "%s returns None on a path where neither the checked operation nor the range gate failed (in-range results are refused): %s" % (name, q.describe()[:200] or "(unconditional)"))
            else:
                ok = False
        r2.site("%s = self.0.%s(duration.0) ✓ then from_unix(unix_timestamp(result)) ✓: %s (%d Some path(s))" % (name, op, ok, n_some))
        r2.require(ok and n_some >= 1, (fn, "shape"), "%s does not route the time crate's %s result through from_unix (range gate)" % (name, op))
    eb = M.ExprBuilder(F, inline_depth=0)
    for unit in ("seconds", "minutes", "hours", "days", "weeks"):
        fn = DU + "::" + unit
        body = F.mir(fn)
        if not r2.anchor(body, fn):
            continue
        calls = body.calls()
        names = [M.callee(t) for _, t in calls]
        ok = len(calls) == 1 and re.search(r"^time::.*Duration::%s$" % unit, names[0]) is not None
        arg = eb.operand(body, calls[0][1]["args"][0], None, 0, frozenset()) if calls else None
        ok_arg = arg is not None and arg[0] == "cast" and arg[1][0] == "param" and arg[2] == "i64"
        r2.site("Duration::%s(n) = time::Duration::%s(%s)" % (unit, unit, M.expr_str(arg) if arg else "?"), body.rec["span"])
        r2.require(ok, (fn, "delegates"), "Duration::%s does not delegate to time::Duration::%s (calls %s): scaling in u32 would clamp or wrap long spans" % (unit, unit, [L.short(x) for x in names]))
        r2.require(ok_arg, (fn, "widened"), "Duration::%s does not pass its u32 argument widened to i64 unchanged (%s)" % (unit, M.expr_str(arg) if arg else None))
        fdef = F.fns.get(fn)
        r2.require(fdef is not None and "(u32)" in fdef["sig"].replace(" ", ""), (fn, "unsigned"), "Duration::%s no longer takes an unsigned (u32) count" % unit)
    r2.floor(7)

    # ------------------------------------------------------------------ R3 derived order/eq/hash and serde wiring
    r3 = R.rule("C13-R3", "T13+T12", "Eq/Ord/Hash are derived on the single OffsetDateTime field (equal to instant order because R1 forces UTC whole seconds); serde try_from → parse, into → to_rfc3339")
    fs = F.adt_fields(TS)
    if r3.anchor(fs, TS):
        r3.require(len(fs) == 1 and fs[0]["ty"].endswith("OffsetDateTime") and fs[0]["vis"] != "pub", (TS, "field"), "Timestamp is not a private newtype over OffsetDateTime: %s" % fs)
    for tr in ("core::cmp::PartialEq", "core::cmp::Eq", "core::cmp::PartialOrd", "core::cmp::Ord", "core::hash::Hash"):
        imps = [i for i in F.impls_of(tr, TS) if not i["trait"]["args"] or i["trait"]["args"] == [TS]]
        ok = len(imps) == 1 and imps[0]["derived"]
        r3.site("impl %s for Timestamp derived: %s" % (tr.rsplit("::", 1)[-1], ok))
        r3.require(ok, (TS, tr.rsplit("::", 1)[-1], "derived"), "%s for Timestamp is not the derived (field-wise) implementation" % tr.rsplit("::", 1)[-1])
    a = F.ast_item(TS)
    if r3.anchor(a, TS + " (ast)"):
        attrs = " ".join(a["attrs"])
        r3.site("Timestamp serde attrs: %s" % [x for x in a["attrs"] if "serde" in x], a["span"])
        r3.require(re.search(r'try_from\s*=\s*"ProvisionalTimestamp', attrs) is not None, (TS, "serde-try_from"), "Timestamp is not deserialised through TryFrom<ProvisionalTimestamp> (→ parse)")
        r3.require(re.search(r'into\s*=\s*"String"', attrs) is not None, (TS, "serde-into"), "Timestamp is not serialised through Into<String> (→ to_rfc3339)")
    # every string/JSON entry point delegates to parse
    for fn in F.find(r"^<identity_core::common::timestamp::Timestamp as core::(convert::TryFrom<.*>|str::traits::FromStr)>::(try_from|from_str)$"):
        h = F.hir(fn)
        if not h:
            continue
        env = H.Env(h)
        for n, oc in H.exits(h):
            oo = H.origins(n, env)
            r3.site("%s → %s" % (L.short(fn), sorted(map(str, oo))))
            r3.require(oo == {("call", TS + "::parse")}, (fn, "delegates-parse"), "%s does not delegate to Timestamp::parse" % L.short(fn))
    fn = "<alloc::string::String as core::convert::From<identity_core::common::timestamp::Timestamp>>::from"
    h = F.hir(fn)
    if r3.anchor(h, fn):
        r3.require(TS + "::to_rfc3339" in H.called_fns(H.root(h)), (fn, "to_rfc3339"), "From<Timestamp> for String does not use to_rfc3339")
    r3.floor(10)
