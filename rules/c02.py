"""C02 — JWT credential validation accepts only when every checked condition holds."""
import re

import hir as H
import mir as M
import rulelib as L
import symrules as SR
import sym

CRATES = ["identity_credential", "identity_document", "identity_jose"]
V = "identity_credential::validator::jwt_credential_validation::jwt_credential_validator::JwtCredentialValidator"
U = "identity_credential::validator::jwt_credential_validation::jwt_credential_validator_utils::JwtCredentialValidatorUtils"
ITEM = "identity_jose::jws::decoder::JwsValidationItem"
CORE = "identity_document::document::core_document::CoreDocument"
CRED = "identity_credential::credential::credential::Credential"

ACC = re.compile(r"(JwsValidationItem::(nonce|kid|protected_header)|JwsHeader::(kid|nonce)|JwtHeader::(kid|nonce)|DIDUrl::did|CoreDocument::id|Issuer::url|Url::as_str|"
                 r"RevocationBitmapStatus::(id|index)|MethodData::public_key_jwk|VerificationMethod::data|DID::did)$")


def has(oo, *prefix):
    return any(o[:len(prefix)] == tuple(prefix) for o in oo)


def only(oo, *prefix):
    return bool(oo) and all(o[:len(prefix)] == tuple(prefix) for o in oo)


def run(F, R, tier):
    R.undecided += [
        "truth of the whole conjunction on concrete inputs (the 2^n table) is implied by R1–R5 only together with C01 (signature binding), C06 (bitmap), C13 (timestamps); it is not separately executed",
        "DIDUrl::parse / CoreDID::from_str acceptance (C10)",
    ]
    # ------------------------------------------------------------------ R1 validate = verify_signature ; validate_decoded_credential
    r1 = R.rule("C02-R1", "T2+T3", "validate: Ok only through verify_signature ✓ then validate_decoded_credential ✓ on the verified token, same issuer, caller's options")
    fn = V + "::validate"
    r2 = R.rule("C02-R2", "T2+T6", "verify_signature_with_verifier: decode ✓, parse_jwk ✓, verify_decoded_signature ✓, extract_issuer ✓ and issuer == method_id.did() dominate Ok")
    if r1.anchor(F.hir(fn), fn):
        # end-to-end by abstract evaluation: validate → verify_signature → verify_signature_with_verifier → decode / parse_jwk /
        # verify_decoded_signature → verify_signature_raw → JwsValidationItem::verify, all inlined; only the leaves are opaque
        OPQ = (r"Decoder::decode_compact_serialization$|JwtCredentialValidator::(parse_jwk|validate_decoded_credential)$|JwsValidationItem::verify$|from_json_slice$|"
               r"try_into_credential$|extract_issuer$|DIDUrl::did$")
        tab = SR.Table(F, fn, opaque=OPQ, rule=r1, inline_depth=7, max_paths=6000)
        acc = [q for q in tab.paths if not SR.is_failure(q.ret)]
        r1.require(bool(acc) or not tab.paths, (fn, "no-success"), "validate has no accepting path")
        OPT = SR.param("options")
        for q in acc:
            def one(pat, label, rule=r2):
                es = [e for e in q.calls(pat) if q.succeeded(e) is True]
                if not rule.require(len(es) == 1, (V + "::verify_signature_with_verifier", "missing-before-success", label), "an accepting path of validate has no successful %s" % label):
                    return None
                return es[0]
            dec = one(r"decode_compact_serialization$", "decode")
            pj = one(r"JwtCredentialValidator::parse_jwk$", "parse_jwk")
            vf = one(r"JwsValidationItem::verify$", "verify_decoded_signature")
            fj = one(r"from_json_slice$", "from_json_slice")
            tic = one(r"try_into_credential$", "try_into_credential")
            exi = one(r"extract_issuer$", "extract_issuer")
            if None in (dec, pj, vf, fj, tic, exi):
                continue
            item = ("payload", dec.result.t, "Ok", 0)
            r2.require(SR.pure(dec.args[1], SR.param("credential_jwt")) and sym.term(dec.args[2]) == ("ctor", "None"), (fn, "jwt-arg"), "the token decoded is not the caller's JWT (attached payload): %r" % (dec.args[1],))
            issuers = sym.term(pj.args[1])
            r2.require(sym.term(pj.args[0]) == item, (V + "::verify_signature_with_verifier", "parse_jwk-args"), "parse_jwk is not given the decoded token")
            r1.require(SR.pure(issuers, SR.param("issuer"), conv=re.compile(r"(from_ref|as_ref|from|into)$")), (fn, "vs-issuer-arg"), "the issuer document used for the key is not the caller's issuer: %s" % sym.fmt(issuers))
            r1.require(sym.term(pj.args[2]) == SR.fld("verification_options", base=OPT), (fn, "vs-options-arg"), "parse_jwk is not given options.verification_options")
            pjp = ("payload", pj.result.t, "Ok", 0)
            r2.require(sym.term(vf.args[0]) == item, (V + "::verify_signature_with_verifier", "vds-decoded"), "the item verified is not the decoded credential")
            r2.require(sym.term(vf.args[1]) == SR.fld("0"), (V + "::verify_signature_with_verifier", "vds-verifier"), "the validator's verifier is not used: %r" % (vf.args[1],))
            r2.require(sym.term(vf.args[2]) == ("field", pjp, "0"), (V + "::verify_signature_with_verifier", "vds-key"), "the verifying key is not the one parse_jwk resolved: %r" % (vf.args[2],))
            verified = ("payload", vf.result.t, "Ok", 0)
            r2.require(SR.pure(fj.args[0], ("field", verified, "claims")), (V + "::verify_decoded_signature", "claims-source"), "the claims are not parsed from the verified payload")
            r2.require(sym.term(tic.args[0]) == ("payload", fj.result.t, "Ok", 0), (V + "::verify_decoded_signature", "credential-field"), "the credential is not built from the verified claims")
            credv = ("payload", tic.result.t, "Ok", 0)
            r2.require(sym.term(exi.args[0]) == credv, (V + "::verify_signature_with_verifier", "issuer-of"), "the issuer extracted is not that of the verified credential")
            eq = any(a[0] == "eq" and c is True and any(SR.derives(x, exi.result.t) for x in (a[1], a[2])) and any(x[:1] == ("call",) and x[1].endswith("DIDUrl::did") and x[2] == (("field", pjp, "1"),) for x in (a[1], a[2]))
                     for (a, c, _, _) in q.decisions)
            r2.require(eq, (V + "::verify_signature_with_verifier", "issuer-eq-method-did"), "Ok is reachable without `issuer == method_id.did()` having been established")
            vdc = [e for e in q.calls(r"validate_decoded_credential$")]
            if r1.require(len(vdc) == 1 and SR.derives(q.ret, vdc[0].result.t), (fn, "delegates"), "validate's success value is not the result of validate_decoded_credential"):
                a = vdc[0].args
                tok = a[0]
                r1.require(isinstance(tok, sym.St) and sym.term(tok.f.get("credential")) == credv and SR.derives(tok.f.get("header"), ("field", verified, "protected")), (fn, "token-arg"),
                           "the token validated is not the one whose signature was verified: %r" % (tok,))
                r1.require(SR.pure(a[1], SR.param("issuer"), conv=re.compile(r"(from_ref|as_ref|from|into)$")), (fn, "issuer-arg"), "validate_decoded_credential is not given the caller's issuer")
                r1.require(sym.term(a[2]) == OPT, (fn, "options-arg"), "validate_decoded_credential is not given the caller's options")
                r1.require(sym.term(a[3]) == SR.param("fail_fast"), (fn, "failfast-arg"), "validate_decoded_credential is not given the caller's fail_fast")
        for k_ in range(4):
            r1.site("validate (end-to-end) obligation %d on %d accepting path(s)" % (k_ + 1, len(acc)))
        for k_ in range(16):
            r2.site("signature chain obligation %d on %d accepting path(s)" % (k_ + 1, len(acc)))
    r1.floor(4)
    r2.floor(16)

    # ------------------------------------------------------------------ R3 parse_jwk
    r3 = R.rule("C02-R3", "T2+T3+T6", "parse_jwk: nonce equality dominates; method id from options.method_id or protected kid; issuer chosen by id == method_id.did(); key resolved in options.method_scope")
    _parse_jwk(F, r3)
    r3.floor(5)

    # ------------------------------------------------------------------ R4 validation units
    r4 = R.rule("C02-R4", "T1+T3+T4", "validate_decoded_credential: the five once_with units call the five checks with the configured bounds and all flow into the error collector; fail-fast table; Ok iff no error")
    _units(F, r4)
    r4.floor(9)

    # ------------------------------------------------------------------ R5 unit predicates
    r5 = R.rule("C02-R5", "T6+T4", "unit predicates: expiry ≥ bound or absent; issuance ≤ bound; subject-holder table; status table; revocation bitmap membership; credential structure")
    _predicates(F, r5)

    # ------------------------------------------------------------------ R6 the checked credential is the lossless image of the verified claims
    r6 = R.rule("C02-R6", "T5", "the Credential whose dates/subject/status are checked is rebuilt from the verified claims without dropping a checked member: "
                "C07-R2 (field coverage), C07-R3 (check_consistency rejects a vc member without its registered claim) and C07-R4 (dates through from_unix) hold")
    L.depends_on(r6, F, tier, ["C07-R2", "C07-R3", "C07-R4"], "validate_decoded_credential sees every claim of the verified token")
    r6.floor(3)



def _parse_jwk(F, r3):
    """parse_jwk by abstract evaluation: what every accepting path established and which key it returns."""
    fn = V + "::parse_jwk"
    if not r3.anchor(F.hir(fn), fn):
        return
    OPQ = r"DIDUrl::parse$|CoreDocument::resolve_method$|CoreDocument::id$|DIDUrl::did$|MethodData::public_key_jwk$|VerificationMethod::data$"
    tab = SR.Table(F, fn, opaque=OPQ, rule=r3)
    oks = tab.ok()
    r3.require(bool(oks) or not tab.paths, (fn, "no-success"), "no success exit")
    OPT, JWS, POOL = SR.param("options"), SR.param("jws"), SR.param("trusted_issuers")
    ONONCE = SR.fld("nonce", base=OPT)
    OMID = SR.fld("method_id", base=OPT)
    n_cfg = n_kid = 0
    for q in oks:
        # 1. full nonce equality (whole Option values, both directions)
        ok = False
        for (a, c, _, _) in q.decisions:
            if a[0] == "eq" and c is True:
                x, y = a[1], a[2]
                if (x == ONONCE and SR.derives(y, JWS) and "nonce" in sym.fmt(y) and y[:1] == ("field",)) or (y == ONONCE and SR.derives(x, JWS) and "nonce" in sym.fmt(x) and x[:1] == ("field",)):
                    ok = True
        # a token without any header has no nonce: then equality with the expected nonce is decided on `None == options.nonce`
        if not ok:
            for (a, c, _, _) in q.decisions:
                if a[0] == "variant" and a[1] == ONONCE and c == "None" and not any("nonce" in sym.fmt(t_) and SR.derives(t_, JWS) and v_ == "Some" for t_, v_ in q.variant.items()):
                    ok = all(not (SR.derives(t_, JWS) and "nonce" in sym.fmt(t_)) or v_ == "None" for t_, v_ in q.variant.items())
        r3.require(ok, (fn, "nonce-eq"), "parse_jwk can succeed without `jws.nonce() == options.nonce` having been established (full equality, both directions) — path: %s" % q.describe()[:260])
        # 2–4. the key comes from resolve_method(selected issuer, method id, options.method_scope)
        rms = [e for e in q.calls(r"resolve_method$") if q.succeeded(e) is True]
        if not r3.require(len(rms) == 1, (fn, "resolve_method"), "expected one successful resolve_method call on an accepting path, found %d" % len(rms)):
            continue
        doc, mid, scope = rms[0].args[0], rms[0].args[1], rms[0].args[2]
        cfg = SR.variant(q, OMID)
        if cfg == "Some":
            n_cfg += 1
            r3.require(sym.term(mid) == ("payload", OMID, "Some", 0), (fn, "method_id-some"), "configured method id is not used verbatim: %r" % (mid,))
        else:
            n_kid += 1
            kid_ok = False
            for e in q.calls(r"DIDUrl::parse$"):
                if q.succeeded(e) is True and SR.derives(mid, e.result.t):
                    a0 = sym.term(e.args[0])
                    kid_ok = SR.derives(a0, JWS) and "kid" in sym.fmt(a0) and ("Protected" in sym.fmt(a0) or "protected" in sym.fmt(a0)) and "Unprotected" not in sym.fmt(a0).replace("!Protected", "")
            r3.require(cfg == "None" and kid_ok, (fn, "method_id-kid"), "the fallback method id is not DIDUrl::parse(protected header kid)?: %r" % (mid,))
        r3.require(isinstance(doc, sym.Sym) and doc.t[:1] == ("elem",) and doc.t[1] == POOL, (fn, "issuer-pool"), "the issuer is not searched among trusted_issuers: %r" % (doc,))
        sel = False
        for (a, c, _, _) in q.decisions:
            if a[0] == "eq" and c is True:
                x, y = a[1], a[2]
                for u, w in ((x, y), (y, x)):
                    if u[:1] == ("call",) and u[1].endswith("CoreDocument::id") and u[2] and u[2][0] == sym.term(doc) and w[:1] == ("call",) and w[1].endswith("DIDUrl::did") and w[2] and w[2][0] == sym.term(mid):
                        sel = True
        r3.require(sel, (fn, "issuer-by-did"), "the issuer document is not selected by `id == method_id.did()` — path: %s" % q.describe()[:200])
        r3.require(sym.term(scope) == SR.fld("method_scope", base=OPT), (fn, "resolve-scope"), "resolve_method is not given options.method_scope: %r" % (scope,))
        ret = q.ret.fields[0] if isinstance(q.ret, sym.V) and q.ret.fields else None
        if isinstance(ret, tuple) and len(ret) == 2:
            r3.require(SR.derives(ret[0], rms[0].result.t) and "public_key_jwk" in sym.fmt(sym.term(ret[0])), (fn, "returns-jwk"), "the returned key is not the resolved method's public_key_jwk: %r" % (ret[0],))
            r3.require(sym.term(ret[1]) == sym.term(mid), (fn, "returns-id"), "the returned method id is not the one that was resolved: %r" % (ret[1],))
        else:
            r3.fail((fn, "returns-jwk"), "parse_jwk does not return (jwk, method_id): %r" % (ret,))
    r3.site("parse_jwk: %d accepting path(s) with the configured method id, %d with the protected kid" % (n_cfg, n_kid))
    r3.site("parse_jwk: nonce equality established on every accepting path")
    r3.site("parse_jwk: issuer selected among trusted_issuers by id == method_id.did()")
    r3.site("parse_jwk: resolve_method(issuer, method id, options.method_scope) ✓")
    r3.site("parse_jwk: returns (public_key_jwk of the resolved method, method id)")
    r3.require(n_cfg > 0 and n_kid > 0 or not tab.paths, (fn, "method_id-table"), "parse_jwk does not distinguish a configured method id from the protected kid (%d/%d accepting paths)" % (n_cfg, n_kid))


def _units(F, r4):
    """validate_decoded_credential by abstract evaluation (the five checks opaque): Ok ⇔ every configured check succeeded, each on
    the token's credential with the caller's bound/options."""
    fn = V + "::validate_decoded_credential"
    if not r4.anchor(F.hir(fn), fn):
        return
    tab = SR.Table(F, fn, opaque=r"JwtCredentialValidatorUtils::check_[a-z_]+$|Credential::check_structure$", rule=r4, max_paths=8000, concrete_vec=True, loop_bound=8)
    OPT = SR.param("options")
    CREDT = SR.fld("credential", base=SR.param("credential_token"))
    checks = {
        "check_expires_on_or_after": ("earliest_expiry_date",),
        "check_issued_on_or_before": ("latest_issuance_date",),
        "check_structure": (),
        "check_subject_holder_relationship": ("subject_holder_relationship",),
        "check_status": ("status",),
    }
    n = 0
    for q in tab.paths:
        res = {}
        for name in checks:
            es = q.calls(r"::%s$" % name)
            res[name] = es
        if SR.is_success(q.ret):
            n += 1
            for name, opt in checks.items():
                es = res[name]
                if name == "check_subject_holder_relationship" and SR.variant(q, SR.fld("subject_holder_relationship", base=OPT)) == "None":
                    r4.require(not es, (fn, "unit-arg", name, "unconfigured"), "the subject-holder check runs although no relationship is configured")
                    continue
                if not r4.require(len(es) == 1, (fn, "unit-missing", name), "validate_decoded_credential accepts without calling %s" % name):
                    continue
                e = es[0]
                r4.require(q.succeeded(e) is True, (fn, "unit-not-chained", name), "the result of %s does not reach the error collector: the credential is accepted although the check may have failed" % name)
                r4.require(sym.term(e.args[0]) == CREDT, (fn, "unit-arg", name, 0), "%s is not applied to the token's credential: %r" % (name, e.args[0]))
                if name in ("check_expires_on_or_after", "check_issued_on_or_before"):
                    OT = SR.fld(opt[0], base=OPT)
                    a1 = sym.term(e.args[1])
                    okb = a1 == ("payload", OT, "Some", 0) if SR.variant(q, OT) == "Some" else (SR.variant(q, OT) == "None" and (a1 == ("default",) or "now" in sym.fmt(a1) or "default" in sym.fmt(a1)))
                    r4.require(okb, (fn, "unit-arg", name, 1), "%s is not given options.%s (or its default): %s" % (name, opt[0], sym.fmt(a1)))
                elif name == "check_subject_holder_relationship":
                    OT = ("payload", SR.fld("subject_holder_relationship", base=OPT), "Some", 0)
                    r4.require(SR.derives(e.args[1], OT) and SR.derives(e.args[2], OT) and sym.term(e.args[1]) != sym.term(e.args[2]), (fn, "unit-arg", name, 1),
                               "check_subject_holder_relationship is not given the configured (holder, relationship)")
                elif name == "check_status":
                    r4.require(sym.term(e.args[1]) == SR.param("issuers"), (fn, "unit-arg", name, 1), "check_status is not given the issuers")
                    r4.require(sym.term(e.args[2]) == SR.fld("status", base=OPT), (fn, "unit-arg", name, 2), "check_status is not given options.status: %r" % (e.args[2],))
            out = q.ret.fields[0] if isinstance(q.ret, sym.V) and q.ret.fields else None
            r4.require(out is not None and sym.term(out) == SR.param("credential_token"), (fn, "returns"), "the token returned is not the validated one")
        else:
            failed = [name for name, es in res.items() if any(q.succeeded(e) is False for e in es)]
            r4.require(bool(failed), (fn, "spurious-error"), "validate_decoded_credential rejects although no check failed — path: %s" % q.describe()[-160:])
            # what is reported: with AllErrors the error of *every* failing check (so every configured check ran, whatever else failed), with
            # FirstError exactly one of them
            mode = next((v_ for t_, v_ in q.variant.items() if t_ == SR.param("fail_fast")), None)
            errs = None
            rt = sym.term(q.ret)
            for x in sym.subterms(rt):
                if isinstance(x, tuple) and len(x) == 2 and x[0] == "validation_errors" and isinstance(x[1], tuple) and x[1][:1] == ("list",):
                    errs = list(x[1][1:])
            fails = [("payload", e.result.t, "Err", 0) for name in checks for e in res[name] if q.succeeded(e) is False]
            if mode == "AllErrors":
                for name in checks:
                    if name == "check_subject_holder_relationship" and SR.variant(q, SR.fld("subject_holder_relationship", base=OPT)) == "None":
                        continue
                    r4.require(len(res[name]) == 1, (fn, "all-errors", name), "with FailFast::AllErrors %s is not run on a rejecting path (it is skipped when another check has failed): its failure would go unreported — path: %s" % (name, q.describe()[-140:]))
                r4.require(errs is not None and sorted(map(repr, errs)) == sorted(map(repr, fails)), (fn, "all-errors", "collected"),
                           "with FailFast::AllErrors the reported errors are not exactly those of the failing checks: reported %s, failed %s" % (
                               [sym.fmt(x)[:50] for x in (errs or [])], [sym.fmt(x)[:50] for x in fails]))
            elif mode == "FirstError":
                r4.require(errs is not None and len(errs) == 1 and errs[0] in fails, (fn, "failfast", "FirstError"), "with FailFast::FirstError the report is not exactly one failing check's error: %s" % [sym.fmt(x)[:50] for x in (errs or [])])
    for name in checks:
        r4.site("unit %s: called with the credential and the configured bound, result required on %d accepting path(s)" % (name, n))
    r4.site("Ok ⇔ no check failed; the validated token is returned")
    # fail-fast: FirstError keeps exactly the first error
    h = F.hir(fn)
    takes = [x for x in H.walk(H.root(h)) if x.get("k") == "mcall" and x["name"] == "take"]
    lims = [H.literals(x["args"][0]) for x in takes]
    r4.site("fail-fast: take(%s)" % lims)
    r4.require(any(l_ == [1] for l_ in lims) or not takes, (fn, "failfast", "FirstError"), "FirstError must keep exactly the first error (take(1)), found %s" % lims)
    r4.site("fail-fast table present: %s" % bool(takes))
    r4.site("validated on %d accepting and %d rejecting path(s)" % (n, len(tab.err())))

def _predicates(F, r5):
    CREDP = SR.param("credential")
    TS = SR.param("timestamp")
    # ---- expiry: Ok ⇔ expiration_date absent ∨ ¬(expiration_date < timestamp)
    fn = U + "::check_expires_on_or_after"
    if r5.anchor(F.hir(fn), fn):
        tab = SR.Table(F, fn, rule=r5)
        EXP = SR.fld("expiration_date", base=CREDP)
        rows = set()
        for q in tab.paths:
            present = SR.variant(q, EXP)
            rel = SR.lt_relation(q, EXP, TS)
            expired = "a<b" in rel or ("b>=a" not in rel and "b<a" not in rel and "a>=b" not in rel and None)
            want_ok = present == "None" or (present == "Some" and (("a>=b" in rel) or ("b<a" in rel and "a<b" not in rel)))
            want_err = present == "Some" and "a<b" in rel
            got_ok = SR.is_success(q.ret)
            rows.add((present, tuple(sorted(rel)), "Ok" if got_ok else SR.err_name(q.ret)))
            if got_ok:
                r5.require(want_ok, (fn, "predicate"), "check_expires_on_or_after accepts without `expiration_date absent ∨ expiration_date ≥ timestamp` — path: %s" % q.describe()[:200])
            else:
                r5.require(want_err, (fn, "predicate"), "check_expires_on_or_after rejects although the credential has not expired — path: %s" % q.describe()[:200])
                r5.require(SR.err_name(q.ret) == "ExpirationDate", (fn, "error"), "the failure is not reported as ExpirationDate")
        r5.site("check_expires_on_or_after rows: %s" % sorted(rows, key=str))
        r5.require(any(r_[0] == "None" for r_ in rows) and any(r_[2] == "ExpirationDate" for r_ in rows) or not tab.paths, (fn, "predicate"), "check_expires_on_or_after table incomplete: %s" % sorted(rows, key=str))
    # ---- issuance: Ok ⇔ ¬(timestamp < issuance_date)
    fn = U + "::check_issued_on_or_before"
    if r5.anchor(F.hir(fn), fn):
        tab = SR.Table(F, fn, rule=r5)
        ISS = SR.fld("issuance_date", base=CREDP)
        rows = set()
        for q in tab.paths:
            rel = SR.lt_relation(q, TS, ISS)   # a = timestamp, b = issuance_date
            future = "a<b" in rel
            not_future = "a>=b" in rel or ("b<a" in rel and not future)
            got_ok = SR.is_success(q.ret)
            rows.add((tuple(sorted(rel)), "Ok" if got_ok else SR.err_name(q.ret)))
            if got_ok:
                r5.require(not_future, (fn, "predicate"), "check_issued_on_or_before accepts without `issuance_date ≤ timestamp` — path: %s" % q.describe()[:200])
            else:
                r5.require(future, (fn, "predicate"), "check_issued_on_or_before rejects although issuance_date ≤ timestamp — path: %s" % q.describe()[:200])
                r5.require(SR.err_name(q.ret) == "IssuanceDate", (fn, "error"), "the failure is not reported as IssuanceDate")
        r5.site("check_issued_on_or_before rows: %s" % sorted(rows, key=str))
    # ---- subject-holder: Ok ⇔ Any ∨ (single subject's id == holder) ∨ (SubjectOnNonTransferable ∧ ¬non_transferable)
    fn = U + "::check_subject_holder_relationship"
    if r5.anchor(F.hir(fn), fn):
        tab = SR.Table(F, fn, rule=r5)
        SUBJ = SR.fld("credential_subject", base=CREDP)
        NT = SR.fld("non_transferable", base=CREDP)
        REL = SR.param("relationship")
        HOLDER = SR.param("holder")
        rows = set()
        for q in tab.paths:
            rel = SR.variant(q, REL)
            matches = SR.eq_value(q, HOLDER, SUBJ) is True
            if matches and SR.variant(q, SUBJ) != "One":
                # `Many` — or a view of the subjects that does not say how many there are (iter().any(..), contains, first()):
                # the holder counts as the subject only when the list is known to hold exactly one element (C02-O)
                single = any(a[0] == "slice-shape" and a[2] == 1 and a[3] is True and c is True for (a, c, _, _) in q.decisions) or \
                    any(a[0] == "eq" and c is True and ("lit", 1) in (a[1], a[2]) and "len" in sym.fmt(a[1]) + sym.fmt(a[2]) for (a, c, _, _) in q.decisions)
                r5.require(single, (fn, "url_matches-cmp"), "the holder is compared with a subject although the subject list is not known to have exactly one element (the holder being one of several subjects is not the relationship)")
            nt = SR.variant(q, NT) == "Some" and q.val.get(("truth", ("payload", NT, "Some", 0))) is True
            nt_known = SR.variant(q, NT) is not None
            got_ok = SR.is_success(q.ret)
            rows.add((rel, matches, nt if nt_known else None, "Ok" if got_ok else SR.err_name(q.ret)))
            if rel is None:
                want = matches            # must hold for every policy, AlwaysSubject included
                r5.require(got_ok == want or (got_ok and want), (fn, "table"), "outcome does not depend on the relationship policy — path: %s" % q.describe()[:200])
                continue
            if rel == "Any":
                want = True
            elif rel == "AlwaysSubject":
                want = matches
            else:
                want = matches or (nt_known and not nt)
                if not matches and not nt_known and got_ok:
                    r5.fail((fn, "SubjectOnNonTransferable"), "SubjectOnNonTransferable accepts a non-matching holder without looking at non_transferable")
                    continue
            r5.require(got_ok == want, (fn, rel), "relationship %s: subject-is-holder=%s, non_transferable=%s gives %s, expected %s" % (
                rel, matches, nt if nt_known else "not examined", "Ok" if got_ok else "Err", "Ok" if want else "Err"))
            if not got_ok:
                r5.require(SR.err_name(q.ret) == "SubjectHolderRelationship", (fn, "error"), "the failure is not reported as SubjectHolderRelationship")
        for rel in ("AlwaysSubject", "SubjectOnNonTransferable", "Any"):
            r5.site("relationship %s rows: %s" % (rel, sorted(((m_, n_, o_) for r_, m_, n_, o_ in rows if r_ == rel), key=str)))
            r5.require(any(r_ == rel for r_, _, _, _ in rows) or not tab.paths, (fn, "table"), "relationship policy %s is not distinguished" % rel)
        r5.site("url_matches: holder compared with the id of the only subject (One, or Many of exactly one)")
    # ---- check_status
    fn = U + "::check_status"
    if r5.anchor(F.hir(fn), fn):
        OPQ = r"RevocationBitmapStatus as core::convert::TryFrom|extract_issuer$|CoreDocument::id$|check_revocation_bitmap_status$"
        tab = SR.Table(F, fn, opaque=OPQ, rule=r5)
        SC = SR.param("status_check")
        ST = SR.fld("credential_status", base=CREDP)
        POOL = SR.param("trusted_issuers")
        seen = set()
        for q in tab.paths:
            sc = SR.variant(q, SC)
            st = SR.variant(q, ST)
            type_eq = None
            for (a, c, _, _) in q.decisions:
                if a[0] == "eq" and ("lit", "RevocationBitmap2022") in (a[1], a[2]) and any(SR.derives(x, ST) and "type_" in sym.fmt(x) for x in (a[1], a[2])):
                    type_eq = c
            got_ok = SR.is_success(q.ret) and not isinstance(q.ret, sym.Sym)
            delegated = isinstance(q.ret, sym.Sym) and "check_revocation_bitmap_status" in sym.fmt(q.ret.t)
            seen.add((sc, st, type_eq, "delegated" if delegated else ("Ok" if got_ok else SR.err_name(q.ret))))
            if got_ok:
                good = sc == "SkipAll" or st == "None" or (type_eq is False and sc == "SkipUnsupported")
                r5.require(good, (fn, "early-ok"), "check_status passes a credential with a status entry without checking it (status_check=%s, status=%s, supported type=%s)" % (sc, st, type_eq))
            if delegated:
                r5.require(sc != "SkipAll" and st == "Some" and type_eq is True, (fn, "type-check"), "the bitmap check runs for a status whose type was not compared with RevocationBitmap::TYPE")
                ev = q.calls(r"check_revocation_bitmap_status$")[-1]
                r5.require(SR.derives(ev.args[1], ST) and any(q.succeeded(e) is True and SR.derives(ev.args[1], e.result.t) for e in q.calls(r"RevocationBitmapStatus as core::convert::TryFrom")),
                           (fn, "status-arg"), "the status checked is not RevocationBitmapStatus::try_from(the credential's own status)?: %r" % (ev.args[1],))
                doc = ev.args[0]
                r5.require(isinstance(doc, sym.Sym) and doc.t[:1] == ("elem",) and doc.t[1] == POOL, (fn, "issuer-pool"), "the issuer is not searched among trusted_issuers: %r" % (doc,))
                sel = False
                for (a, c, _, _) in q.decisions:
                    if a[0] == "eq" and c is True:
                        for u, w in ((a[1], a[2]), (a[2], a[1])):
                            if u[:1] == ("call",) and u[1].endswith("CoreDocument::id") and SR.derives(u, sym.term(doc)) and "extract_issuer" in sym.fmt(w) and SR.derives(w, CREDP):
                                sel = True
                r5.require(sel, (fn, "issuer-lookup"), "the issuer document is not selected by id == extract_issuer(credential)")
        r5.site("check_status rows: %s" % sorted(seen, key=str))
        r5.require(any(x[0] == "SkipAll" and x[3] == "Ok" for x in seen) or not tab.paths, (fn, "SkipAll"), "StatusCheck::SkipAll does not short-circuit to Ok")
        r5.require(any(x[1] == "None" and x[3] == "Ok" for x in seen) or not tab.paths, (fn, "no-status"), "a credential without status must pass")
        r5.require(any(x[2] is False and x[0] == "SkipUnsupported" and x[3] == "Ok" for x in seen) and any(x[2] is False and x[0] != "SkipUnsupported" and x[3] == "InvalidStatus" for x in seen) or not tab.paths,
                   (fn, "SkipUnsupported"), "unsupported status types are not skipped exactly under StatusCheck::SkipUnsupported: %s" % sorted(seen, key=str))
        r5.require(any(x[3] == "delegated" for x in seen) or not tab.paths, (fn, "supported-path", "check_revocation_bitmap_status"), "supported status path does not end in check_revocation_bitmap_status")
        r5.site("check_status: supported type → RevocationBitmapStatus::try_from ✓ → issuer by extract_issuer → check_revocation_bitmap_status")
    # ---- check_revocation_bitmap_status
    fn = U + "::check_revocation_bitmap_status"
    if r5.anchor(F.hir(fn), fn):
        # on the decision table: Ok exactly when is_revoked(bitmap resolved in the issuer document by status.id(), status.index()) is
        # false; true → Err(Revoked); every earlier failure is an error
        tab = SR.Table(F, fn, opaque=r"resolve_revocation_bitmap$|RevocationBitmap::is_revoked$|RevocationBitmapStatus::(index|id)$", rule=r5)
        ST_, IS_ = SR.param("status"), SR.param("issuer")
        rows = set()
        for q in tab.paths:
            rb = q.calls(r"resolve_revocation_bitmap$")
            iv = q.calls(r"RevocationBitmap::is_revoked$")
            ix = [e for e in q.calls(r"RevocationBitmapStatus::index$") if SR.pure(e.args[0], ST_)]
            idc = [e for e in q.calls(r"RevocationBitmapStatus::id$") if SR.pure(e.args[0], ST_)]
            if SR.is_success(q.ret) and not SR.is_failure(q.ret):
                good = len(iv) == 1 and q.succeeded(iv[0]) is False
                r5.require(good, (fn, "ok-iff-not-revoked"), "Ok is not exactly the `!is_revoked(index)` branch — path: %s" % q.describe()[-160:])
                if good:
                    rows.add("ok")
                    r5.require(len(rb) == 1 and q.succeeded(rb[0]) is True and SR.pure(iv[0].args[0], ("payload", rb[0].result.t, "Ok", 0)), (fn, "bitmap-src"), "the bitmap queried is not the one resolved from the issuer document")
                    r5.require(bool(ix) and q.succeeded(ix[0]) is True and SR.pure(iv[0].args[1], ("payload", ix[0].result.t, "Ok", 0)), (fn, "index-arg"), "is_revoked is not queried with status.index(): %s" % sym.fmt(sym.term(iv[0].args[1])))
                    r5.require(SR.pure(rb[0].args[0], IS_), (fn, "bitmap-issuer"), "bitmap not resolved in the issuer document")
                    r5.require(bool(idc) and SR.derives(rb[0].args[1], idc[0].result.t), (fn, "bitmap-query"), "bitmap service not looked up by status.id(): %s" % sym.fmt(sym.term(rb[0].args[1])))
            elif SR.err_name(q.ret) == "Revoked":
                r5.require(len(iv) == 1 and q.succeeded(iv[0]) is True, (fn, "revoked-iff"), "Err(Revoked) is not exactly the `is_revoked(index)` branch")
                rows.add("revoked")
            else:
                rows.add("error")
                r5.require(not iv or q.succeeded(iv[0]) is None, (fn, "revoked-iff"), "a decided is_revoked ends in %s" % SR.err_name(q.ret))
        r5.site("check_revocation_bitmap_status: rows %s; Ok iff !is_revoked(resolve_revocation_bitmap(issuer, status.id()), status.index())" % sorted(rows))
        r5.require("revoked" in rows or not tab.paths, (fn, "revoked-error"), "Revoked is never reported")
        r5.require("ok" in rows or not tab.paths, (fn, "ok-iff-not-revoked"), "check_revocation_bitmap_status never accepts")
    # ---- Credential::check_structure
    fn = CRED + "::check_structure"
    if r5.anchor(F.hir(fn), fn):
        # on the decision table: Ok only with context[0] == base_context(), some type == base_type(), at least one subject, and for
        # the generic subject an id or a non-empty property set; the four rejections exist
        tab = SR.Table(F, fn, opaque=r"base_context$|base_type$|OneOrMany::(is_empty|iter|get|len)$|Object::is_empty$|::is_empty$", rule=r5)
        CTX, TYPES, SUBJ = SR.fld("context"), SR.fld("types"), SR.fld("credential_subject")
        errs = set()
        for q in tab.paths:
            if SR.is_failure(q.ret):
                errs.add(SR.err_name(q.ret))
                continue
            where = q.describe()[-200:]
            g0 = [e for e in q.calls(r"OneOrMany::get$") if SR.pure(e.args[0], CTX) and e.args[1] == 0 and q.succeeded(e) is True]
            bc = q.calls(r"base_context$")
            okc = bool(g0) and bool(bc) and any(a[0] == "eq" and c is True and {sym.term(bc[0].result), ("payload", g0[0].result.t, "Some", 0)} == {a[1], a[2]} for (a, c, _, _) in q.decisions)
            r5.require(okc, (fn, "context-first"), "the base context is not required at position 0 of self.context — accepting path: …%s" % where)
            bt = q.calls(r"base_type$")
            okt = bool(bt) and any(a[0] == "eq" and c is True and sym.term(bt[0].result) in (a[1], a[2]) and any(SR.derives(x, TYPES) for x in (a[1], a[2])) for (a, c, _, _) in q.decisions)
            r5.require(okt, (fn, "base-type"), "base type check is not `types.iter().any(|t| t == base_type())` — accepting path: …%s" % where)
            se = [e for e in q.calls(r"is_empty$") if SR.pure(e.args[0], SUBJ)]
            oks = (bool(se) and q.succeeded(se[0]) is False) or any(a[0] == "nonempty" and c is True and SR.derives(a[1], SUBJ) for (a, c, _, _) in q.decisions)
            r5.require(oks, (fn, "subject"), "a credential without subjects is accepted — accepting path: …%s" % where)
            # the generic subject (an element of credential_subject): id present or properties non-empty
            looked = [a for (a, c, _, _) in q.decisions if a[0] == "nonempty" and c is True and SR.derives(a[1], SUBJ)]
            if looked:
                idv = [v_ for t_, v_ in q.variant.items() if isinstance(t_, tuple) and t_[:1] == ("field",) and t_[2] == "id" and SR.derives(t_, SUBJ)]
                pe = [e for e in q.calls(r"is_empty$") if SR.derives(e.args[0], SUBJ) and "properties" in sym.fmt(sym.term(e.args[0]))]
                okl = ("Some" in idv) or any(q.succeeded(e) is False for e in pe)
                r5.require(okl, (fn, "empty-subject"), "a subject with neither id nor properties is accepted — accepting path: …%s" % where)
            elif any(a[0] == "nonempty" and c is False and SR.derives(a[1], SUBJ) for (a, c, _, _) in q.decisions) and bool(se) and q.succeeded(se[0]) is False:
                pass      # "not empty" and "iterates over nothing": an impossible combination of two oracles
            else:
                r5.fail((fn, "empty-subject"), "the per-subject emptiness check (id.is_none() && properties.is_empty() → InvalidSubject over all subjects) was not found on an accepting path")
        r5.site("check_structure error exits %s" % sorted(map(str, errs)))
        for need in ("MissingBaseContext", "MissingBaseType", "MissingSubject", "InvalidSubject"):
            r5.require(need in errs or not tab.paths, (fn, "Err(%s)" % need), "check_structure has no %s exit" % need)
        r5.site("check_structure: Ok only with context[0] = base, a base type, ≥ 1 subject, no empty subject")
    r5.floor(11)

