"""C02 — JWT credential validation accepts only when every checked condition holds."""
import re

import hir as H
import mir as M
import rulelib as L

CRATES = ["identity_credential", "identity_document", "identity_jose"]
V = "identity_credential::validator::jwt_credential_validation::jwt_credential_validator::JwtCredentialValidator"
U = "identity_credential::validator::jwt_credential_validation::jwt_credential_validator_utils::JwtCredentialValidatorUtils"
ITEM = "identity_jose::jws::decoder::JwsValidationItem"
CORE = "identity_document::document::core_document::CoreDocument"
CRED = "identity_credential::credential::credential::Credential"

ACC = re.compile(r"(JwsValidationItem::(nonce|kid|protected_header)|JwsHeader::(kid|nonce)|JwtHeader::(kid|nonce)|DIDUrl::did|CoreDocument::id|Issuer::url|Url::as_str|"
                 r"RevocationBitmapStatus::(id|index)|MethodData::public_key_jwk|VerificationMethod::data|DID::did)$")


def has(oo, *prefix):
    return any(o[:len(prefix)] == tuple(prefix) for o in oo)


def only(oo, *prefix):
    return bool(oo) and all(o[:len(prefix)] == tuple(prefix) for o in oo)


def run(F, R, tier):
    R.undecided += [
        "truth of the whole conjunction on concrete inputs (the 2^n table) is implied by R1–R5 only together with C01 (signature binding), C06 (bitmap), C13 (timestamps); it is not separately executed",
        "DIDUrl::parse / CoreDID::from_str acceptance (C10)",
    ]
    # ------------------------------------------------------------------ R1 validate = verify_signature ; validate_decoded_credential
    r1 = R.rule("C02-R1", "T2+T3", "validate: Ok only through verify_signature ✓ then validate_decoded_credential ✓ on the verified token, same issuer, caller's options")
    fn = V + "::validate"
    h = F.hir(fn)
    if r1.anchor(h, fn):
        env = H.Env(h)
        L.require_tried_before_success(r1, F, fn, [("verify_signature", V + "::verify_signature")], delegate=None)
        tree, infos = L.exit_infos(h)
        for e in infos:
            if not L.is_success_exit(e):
                continue
            n = H.strip(e.node)
            ok = n.get("k") in ("call", "mcall") and H.fn_name(n) == V + "::validate_decoded_credential"
            r1.require(ok, (fn, "delegates"), "validate's success value is not the result of validate_decoded_credential", n.get("sp"))
            if ok:
                a = H.call_args(n)
                o0 = H.origins(a[0], env)
                r1.site("validate → validate_decoded_credential(token ← %s)" % sorted(map(str, o0)), n["sp"])
                r1.require(o0 == {("call", V + "::verify_signature")}, (fn, "token-arg"), "the token validated is not the one verify_signature returned: %s" % sorted(map(str, o0)))
                r1.require(only(H.origins(a[1], env, extra=re.compile(r"from_ref$")), "param", "issuer"), (fn, "issuer-arg"), "validate_decoded_credential is not given the caller's issuer document")
                r1.require(H.origins(a[2], env) == {("param", "options")}, (fn, "options-arg"), "validate_decoded_credential is not given the caller's options")
                r1.require(H.origins(a[3], env) == {("param", "fail_fast")}, (fn, "failfast-arg"), "validate_decoded_credential is not given the caller's fail_fast")
        for c in H.calls(h, V + "::verify_signature"):
            a = H.call_args(c)
            r1.require(H.origins(a[1], env) == {("param", "credential_jwt")}, (fn, "jwt-arg"), "verify_signature is not given the caller's JWT")
            r1.require(only(H.origins(a[2], env, extra=re.compile(r"from_ref$")), "param", "issuer"), (fn, "vs-issuer-arg"), "verify_signature is not given the caller's issuer")
            r1.require(H.origins(a[3], env) == {("param", "options", "verification_options")}, (fn, "vs-options-arg"), "verify_signature is not given options.verification_options")
            r1.site("validate → verify_signature(jwt, issuer, options.verification_options)", c["sp"])
    # verify_signature delegates to verify_signature_with_verifier with the same arguments
    fn2 = V + "::verify_signature"
    h2 = F.hir(fn2)
    if r1.anchor(h2, fn2):
        env = H.Env(h2)
        for n, oc in H.exits(h2):
            n = H.strip(n)
            ok = n.get("k") == "call" and H.fn_name(n) == V + "::verify_signature_with_verifier"
            r1.require(ok, (fn2, "delegates"), "verify_signature does not delegate to verify_signature_with_verifier")
            if ok:
                a = n["args"]
                r1.require([sorted(H.origins(x, env)) for x in a[1:]] == [[("param", "credential")], [("param", "trusted_issuers")], [("param", "options")]],
                           (fn2, "args"), "verify_signature does not forward (credential, trusted_issuers, options)")
                r1.site("verify_signature → verify_signature_with_verifier", n["sp"])
    r1.floor(4)

    # ------------------------------------------------------------------ R2 verify_signature_with_verifier
    r2 = R.rule("C02-R2", "T2+T6", "verify_signature_with_verifier: decode ✓, parse_jwk ✓, verify_decoded_signature ✓, extract_issuer ✓ and issuer == method_id.did() dominate Ok")
    fn = V + "::verify_signature_with_verifier"
    h = F.hir(fn)
    if r2.anchor(h, fn):
        env = H.Env(h)
        L.require_tried_before_success(r2, F, fn, [
            ("decode", V + "::decode"), ("parse_jwk", V + "::parse_jwk"), ("verify_decoded_signature", V + "::verify_decoded_signature"), ("extract_issuer", U + "::extract_issuer")])
        for pat, lab in ((V + "::decode", "decode"), (V + "::parse_jwk", "parse_jwk"), (V + "::verify_decoded_signature", "verify_decoded_signature")):
            L.mir_success_dominates(r2, F, fn, pat, lab)
        tree, infos = L.exit_infos(h)
        for e in infos:
            if not L.is_success_exit(e):
                continue
            oo = H.origins(e.node, env)
            r2.require(oo == {("call", V + "::verify_decoded_signature")}, (fn, "returns"), "the returned token is not the verified one: %s" % sorted(map(str, oo)))
            eq = False
            for c in e.conds:
                if c[0] != "if":
                    continue
                rel = H.relation(c[1], env,
                                 lambda o: o == {("call", U + "::extract_issuer")},
                                 lambda o: only(o, "call", V + "::parse_jwk") or (bool(o) and all(x[0] == "call" and x[1] == V + "::parse_jwk" for x in o)),
                                 accessors=ACC)
                if rel is None:
                    continue
                holds_eq = (rel == "Ne" and c[2] is False) or (rel == "Eq" and c[2] is True)
                if holds_eq:
                    eq = True
                    r2.site("Ok guarded by issuer_id == method_id.did()", H.strip(c[1]).get("sp"))
            r2.require(eq, (fn, "issuer-eq-method-did"), "Ok is reachable without `issuer == method_id.did()` having been established (IdentifierMismatch check missing or weakened)", e.node.get("sp"))
        for c in H.calls(h, U + "::extract_issuer"):
            oo = H.origins(c["args"][0], env)
            r2.require(oo == {("call", V + "::verify_decoded_signature", "credential")} or only(oo, "call", V + "::verify_decoded_signature"), (fn, "extract_issuer-arg"),
                       "extract_issuer is not applied to the verified credential: %s" % sorted(map(str, oo)))
        for c in H.calls(h, V + "::verify_decoded_signature"):
            a = c["args"]
            o = [H.origins(x, env) for x in a]
            r2.site("verify_decoded_signature(decoded ← %s, key ← %s)" % (sorted(map(str, o[0])), sorted(map(str, o[1]))), c["sp"])
            r2.require(o[0] == {("call", V + "::decode")}, (fn, "vds-decoded"), "the item verified is not the decoded credential")
            r2.require(only(o[1], "call", V + "::parse_jwk"), (fn, "vds-key"), "the verifying key is not the one parse_jwk resolved: %s" % sorted(map(str, o[1])))
            r2.require(o[2] == {("param", "signature_verifier")}, (fn, "vds-verifier"), "the caller's verifier is not used")
        for c in H.calls(h, V + "::parse_jwk"):
            o = [H.origins(x, env) for x in c["args"]]
            r2.require(o[0] == {("call", V + "::decode")} and o[1] == {("param", "trusted_issuers")} and o[2] == {("param", "options")}, (fn, "parse_jwk-args"),
                       "parse_jwk is not given (decoded, trusted_issuers, options): %s" % [sorted(map(str, x)) for x in o])
        for c in H.calls(h, V + "::decode"):
            o = H.origins(c["args"][0], env, extra=re.compile(r"Jwt::as_str$"))
            r2.require(o == {("param", "credential")}, (fn, "decode-arg"), "decode is not given the caller's credential JWT")
    # verify_decoded_signature and verify_signature_raw
    fn = V + "::verify_decoded_signature"
    h = F.hir(fn)
    if r2.anchor(h, fn):
        env = H.Env(h)
        L.require_tried_before_success(r2, F, fn, [("verify_signature_raw", V + "::verify_signature_raw"), ("from_json_slice", re.compile(r"from_json_slice$")),
                                                   ("try_into_credential", re.compile(r"CredentialJwtClaims::try_into_credential$"))])
        L.mir_success_dominates(r2, F, fn, V + "::verify_signature_raw", "verify_signature_raw")
        for c in H.calls(h, re.compile(r"from_json_slice$")):
            oo = H.origins(H.call_args(c)[0], env)
            r2.site("claims parsed from %s" % sorted(map(str, oo)), c["sp"])
            r2.require(only(oo, "call", V + "::verify_signature_raw") and all(o[-1] == "claims" for o in oo), (fn, "claims-source"), "the credential claims are not parsed from the verified DecodedJws.claims: %s" % sorted(map(str, oo)))
        for s in H.struct_lits(h):
            if s.get("ty", "").endswith("DecodedJwtCredential"):
                fl = {f["name"]: H.origins(f["e"], env, extra=re.compile(r"Box::new$")) for f in s["fields"]}
                r2.require(only(fl.get("credential", set()), "call") and all("try_into_credential" in o[1] for o in fl["credential"]), (fn, "credential-field"), "returned credential is not the one reconstructed from the verified claims")
                r2.require(only(fl.get("header", set()), "call", V + "::verify_signature_raw"), (fn, "header-field"), "returned header is not the verified protected header")
                r2.site("DecodedJwtCredential{credential ← try_into_credential, header ← verified protected}", s["sp"])
        for c in H.calls(h, V + "::verify_signature_raw"):
            o = [H.origins(x, env) for x in c["args"]]
            r2.require(o == [{("param", "decoded")}, {("param", "public_key")}, {("param", "signature_verifier")}], (fn, "raw-args"), "verify_signature_raw is not given (decoded, public_key, signature_verifier)")
    fn = V + "::verify_signature_raw"
    h = F.hir(fn)
    if r2.anchor(h, fn):
        env = H.Env(h)
        for n, oc in H.exits(h):
            oo = H.origins(n, env)
            r2.require(oo == {("call", ITEM + "::verify")}, (fn, "returns"), "verify_signature_raw does not return the result of JwsValidationItem::verify: %s" % sorted(map(str, oo)))
        for c in H.calls(h, ITEM + "::verify"):
            o = [H.origins(x, env) for x in H.call_args(c)]
            r2.require(o == [{("param", "decoded")}, {("param", "signature_verifier")}, {("param", "public_key")}], (fn, "verify-args"), "JwsValidationItem::verify is not called as decoded.verify(signature_verifier, public_key)")
            r2.site("verify_signature_raw → decoded.verify(verifier, key).map_err(..)", c["sp"])
    r2.floor(16)

    # ------------------------------------------------------------------ R3 parse_jwk
    r3 = R.rule("C02-R3", "T2+T3+T6", "parse_jwk: nonce equality dominates; method id from options.method_id or protected kid; issuer chosen by id == method_id.did(); key resolved in options.method_scope")
    _parse_jwk(F, r3)

    # ------------------------------------------------------------------ R4 validation units
    r4 = R.rule("C02-R4", "T1+T3+T4", "validate_decoded_credential: the five once_with units call the five checks with the configured bounds and all flow into the error collector; fail-fast table; Ok iff no error")
    _units(F, r4)

    # ------------------------------------------------------------------ R5 unit predicates
    r5 = R.rule("C02-R5", "T6+T4", "unit predicates: expiry ≥ bound or absent; issuance ≤ bound; subject-holder table; status table; revocation bitmap membership; credential structure")
    _predicates(F, r5)

    # ------------------------------------------------------------------ R6 the checked credential is the lossless image of the verified claims
    r6 = R.rule("C02-R6", "T5", "the Credential whose dates/subject/status are checked is rebuilt from the verified claims without dropping a checked member: "
                "C07-R2 (field coverage), C07-R3 (check_consistency rejects a vc member without its registered claim) and C07-R4 (dates through from_unix) hold")
    L.depends_on(r6, F, tier, ["C07-R2", "C07-R3", "C07-R4"], "validate_decoded_credential sees every claim of the verified token")
    r6.floor(3)



def _parse_jwk(F, r3):
    fn = V + "::parse_jwk"
    h = F.hir(fn)
    if not r3.anchor(h, fn):
        return
    env = H.Env(h)
    tree, infos = L.exit_infos(h)
    succ = [e for e in infos if L.is_success_exit(e)]
    r3.require(bool(succ), (fn, "no-success"), "no success exit")
    for e in succ:
        ok = False
        for c in e.conds:
            if c[0] != "if":
                continue
            rel = H.relation(c[1], env, lambda o: o == {("param", "jws", "nonce")}, lambda o: o == {("param", "options", "nonce")}, accessors=ACC)
            if rel is None:
                continue
            if (rel == "Ne" and c[2] is False) or (rel == "Eq" and c[2] is True):
                ok = True
                r3.site("success guarded by jws.nonce() == options.nonce", H.strip(c[1]).get("sp"))
        r3.require(ok, (fn, "nonce-eq"), "parse_jwk can succeed without `jws.nonce() == options.nonce` having been established (full equality, both directions)", e.node.get("sp"))
    # the nonce guard is unconditional: it is a top-level statement
    g = [x for x in L.block_guards(H.root(h))]
    r3.require(any(oc.startswith("Err(") for _, oc, _ in g), (fn, "nonce-guard-toplevel"), "the nonce guard is not a top-level `if … { return Err }` of parse_jwk")
    # method id
    mid = [n for n in H.walk(H.root(h)) if n.get("k") == "let" and any(b[0] == "method_id" for b in H.pat_bindings(n["pat"]))]
    if r3.require(len(mid) == 1, (fn, "method_id-def"), "definition of method_id not found"):
        m = H.strip(mid[0]["init"])
        if r3.require(m.get("k") == "match", (fn, "method_id-table"), "method_id is not defined by a match on options.method_id"):
            so = H.origins(m["scrut"], env)
            r3.require(so == {("param", "options", "method_id")}, (fn, "method_id-scrut"), "method_id does not match on options.method_id: %s" % sorted(map(str, so)))
            for arm in m["arms"]:
                ps = H.pat_str(arm["pat"])
                if ps == "Some(_)":
                    oo = H.origins(arm["body"], env)
                    r3.site("method_id (configured) ← %s" % sorted(map(str, oo)), arm["body"].get("sp"))
                    r3.require(only(oo, "param", "options", "method_id"), (fn, "method_id-some"), "configured method id is not used verbatim")
                elif ps == "None":
                    oo = H.origins(arm["body"], env, extra=re.compile(r"DIDUrl::parse$"), accessors=ACC)
                    r3.site("method_id (from kid) ← %s" % sorted(map(str, oo)), arm["body"].get("sp"))
                    r3.require(oo == {("param", "jws", "protected_header", "kid")}, (fn, "method_id-kid"), "the fallback method id is not DIDUrl::parse(protected header kid): %s" % sorted(map(str, oo)))
                    r3.require("identity_did::did_url::DIDUrl::parse" in H.called_fns(arm["body"]), (fn, "method_id-parse"), "kid is not parsed with DIDUrl::parse")
                else:
                    r3.fail((fn, "method_id-arm", ps), "unexpected arm %s in the method_id table" % ps)
    # issuer document selection: closure of find compares id(issuer_doc) with method_id.did()
    found = False
    for c in H.calls(h, re.compile(r"Iterator::find$|Iterator>::find$")):
        cl = H.strip(c["args"][0]) if c.get("args") else None
        if not cl or cl.get("k") != "closure":
            continue
        for cmp in H.comparisons(cl["body"], ("Eq",)):
            lo = H.origins(cmp["l"], env, accessors=ACC) | H.origins(cmp["r"], env, accessors=ACC)
            r3.site("issuer selection: %s" % sorted(map(str, lo)), cmp["sp"])
            if any(o[0] == "closure_param" for o in lo) and any(o[0] == "param" and o[1] == "options" and "method_id" in o or (o[0] == "param" and o[1] == "jws") for o in lo):
                found = True
        ro = H.origins(c["recv"], env, extra=re.compile(r"(iter|map)$"))
        r3.require(only(ro, "param", "trusted_issuers"), (fn, "issuer-pool"), "the issuer is not searched among trusted_issuers: %s" % sorted(map(str, ro)))
    r3.require(found, (fn, "issuer-by-did"), "the issuer document is not selected by `id == method_id.did()`")
    # resolve_method(issuer, &method_id, options.method_scope)
    rm = H.calls(h, CORE + "::resolve_method")
    r3.require(len(rm) == 1, (fn, "resolve_method"), "expected one resolve_method call, found %d" % len(rm))
    for c in rm:
        a = H.call_args(c)
        o0 = H.origins(a[0], env, extra=re.compile(r"(iter|map|find)$"))
        o1 = H.origins(a[1], env, extra=re.compile(r"DIDUrl::parse$"), accessors=ACC)
        o2 = H.origins(a[2], env)
        r3.site("resolve_method(doc ← %s, id ← %s, scope ← %s)" % (sorted(map(str, o0)), sorted(map(str, o1)), sorted(map(str, o2))), c["sp"])
        r3.require(only(o0, "param", "trusted_issuers"), (fn, "resolve-doc"), "resolve_method is not applied to the selected trusted issuer")
        r3.require(has(o1, "param", "options", "method_id") and has(o1, "param", "jws", "protected_header", "kid") and
                   all(o[:3] == ("param", "options", "method_id") or o[:4] == ("param", "jws", "protected_header", "kid") for o in o1), (fn, "resolve-id"), "resolve_method is not given the method id determined above: %s" % sorted(map(str, o1)))
        r3.require(o2 == {("param", "options", "method_scope")}, (fn, "resolve-scope"), "resolve_method is not given options.method_scope: %s" % sorted(map(str, o2)))
    # returned key: public_key_jwk of that method; returned id: method_id
    for e in succ:
        fns = H.called_fns(e.node)
        r3.require(any(f.endswith("MethodData::public_key_jwk") for f in fns), (fn, "returns-jwk"), "the returned key is not the resolved method's public_key_jwk")
        ro = H.origins(e.node, env, extra=re.compile(r"(resolve_method|public_key_jwk|data)$"))
    r3.floor(5)


def _units(F, r4):
    fn = V + "::validate_decoded_credential"
    h = F.hir(fn)
    if not r4.anchor(h, fn):
        return
    env = H.Env(h)
    CRED_OK = lambda o: bool(o) and all(x[:3] == ("param", "credential_token", "credential") for x in o)
    want = {
        U + "::check_expires_on_or_after": [CRED_OK, lambda o: o == {("param", "options", "earliest_expiry_date")}],
        U + "::check_issued_on_or_before": [CRED_OK, lambda o: o == {("param", "options", "latest_issuance_date")}],
        U + "::check_structure": [CRED_OK],
        U + "::check_subject_holder_relationship": [CRED_OK, lambda o: only(o, "param", "options", "subject_holder_relationship"), lambda o: only(o, "param", "options", "subject_holder_relationship")],
        U + "::check_status": [CRED_OK, lambda o: o == {("param", "issuers")}, lambda o: o == {("param", "options", "status")}],
    }
    units = {}
    for n in H.walk(H.root(h)):
        if n.get("k") == "let" and n.get("init") is not None:
            init = H.strip(n["init"])
            if init.get("k") == "call" and (init.get("fn") or "").endswith("iter::sources::once_with::once_with"):
                names = [b[0] for b in H.pat_bindings(n["pat"])]
                cl = H.strip(init["args"][0])
                called = [c for c in H.calls(cl["body"], re.compile(r"JwtCredentialValidatorUtils::check_")) ] if cl.get("k") == "closure" else []
                if len(called) == 1 and names:
                    units[names[0]] = called[0]
    seen_checks = set()
    for name, c in units.items():
        cf = H.fn_name(c)
        seen_checks.add(cf)
        preds = want.get(cf)
        if preds is None:
            r4.fail((fn, "unit-unknown", cf), "validation unit `%s` calls an unexpected check %s" % (name, cf))
            continue
        args = H.call_args(c)
        oks = []
        for i, p in enumerate(preds):
            oo = H.origins(args[i], env)
            # closure params of `.map(|(holder, relationship)| ..)` resolve to the receiver
            if any(o[0] == "closure_param" for o in oo):
                tree = H.Tree(h)
                cl = tree.enclosing_closure(c)
                par = tree.parent.get(id(cl)) if cl else None
                if par and par[0].get("k") == "mcall":
                    oo = H.origins(par[0]["recv"], env)
            oks.append(p(oo))
            if not p(oo):
                r4.fail((fn, "unit-arg", cf.rsplit("::", 1)[-1], i), "validation unit `%s`: argument %d of %s derives from %s" % (name, i, L.short(cf), sorted(map(str, oo))), c["sp"])
        r4.site("unit %s → %s(%d args from the configured options)" % (name, L.short(cf), len(preds)), c["sp"])
    for cf in want:
        r4.require(cf in seen_checks, (fn, "unit-missing", cf.rsplit("::", 1)[-1]), "no validation unit calls %s" % L.short(cf))
    # every unit flows into the error collector
    ve = [n for n in H.walk(H.root(h)) if n.get("k") == "let" and any(b[0] == "validation_errors" for b in H.pat_bindings(n["pat"]))]
    if r4.require(len(ve) == 1, (fn, "collector"), "the `validation_errors` collector was not found"):
        trace = set()
        H.origins(ve[0]["init"], env, extra=re.compile(r"Iterator::(chain|filter_map|take|collect)$|Iterator>::(chain|filter_map|take|collect)$"), trace=trace)
        for name in units:
            r4.require(name in trace, (fn, "unit-not-chained", name), "validation unit `%s` is built but never chained into the error collector" % name)
        r4.site("collector consumes %s" % sorted(trace & set(units)), ve[0]["sp"])
        # filter_map keeps the errors
        fm = [c for c in H.walk(H.root(h)) if c.get("k") == "mcall" and c["name"] == "filter_map"]
        okf = any("core::result::Result::err" in H.called_fns(c["args"][0]) for c in fm if c.get("args"))
        r4.require(okf, (fn, "filter-errors"), "the unit results are not filtered with `result.err()`")
        m = H.strip(ve[0]["init"])
        if r4.require(m.get("k") == "match", (fn, "failfast-table"), "fail-fast selection is not a match"):
            r4.require(H.origins(m["scrut"], env) == {("param", "fail_fast")}, (fn, "failfast-scrut"), "fail-fast table does not match on fail_fast")
            for arm in m["arms"]:
                ps = H.pat_str(arm["pat"])
                takes = [c for c in H.walk(arm["body"]) if c.get("k") == "mcall" and c["name"] == "take"]
                lim = H.literals(takes[0]["args"][0]) if takes else None
                r4.site("fail_fast %s → take %s" % (ps, lim), arm["body"].get("sp"))
                if ps == "FirstError":
                    r4.require(lim == [1], (fn, "failfast", ps), "FirstError must keep exactly the first error (take(1)), found %s" % lim)
                elif ps == "AllErrors":
                    r4.require(not takes, (fn, "failfast", ps), "AllErrors must collect every error, found take(%s)" % lim)
                else:
                    r4.fail((fn, "failfast", ps), "unexpected fail-fast arm %s" % ps)
    # Ok iff validation_errors.is_empty(); the token returned is the parameter
    tree, infos = L.exit_infos(h)
    for e in infos:
        conds = []
        for c in e.conds:
            if c[0] == "if":
                cc = H.strip(c[1])
                if cc.get("k") == "mcall" and cc["name"] == "is_empty" and H.local_name(cc["recv"]) == "validation_errors":
                    conds.append(c[2])
        if L.is_success_exit(e):
            r4.require(conds == [True], (fn, "ok-iff-empty"), "Ok is returned without `validation_errors.is_empty()` being true", e.node.get("sp"))
            _, inner = H.ctor_class(e.node)
            oo = H.origins(inner, env)
            r4.require(oo == {("param", "credential_token")}, (fn, "returns-token"), "the token returned is not the one that was validated: %s" % sorted(map(str, oo)))
            r4.site("Ok(credential_token) iff validation_errors.is_empty()", e.node.get("sp"))
        else:
            r4.require(conds == [False], (fn, "err-iff-nonempty"), "the error exit is not the `!is_empty()` branch", e.node.get("sp"))
    r4.floor(9)


def _predicates(F, r5):
    # ---- expiry
    fn = U + "::check_expires_on_or_after"
    h = F.hir(fn)
    if r5.anchor(h, fn):
        env = H.Env(h)
        oks = H.ok_conditions(h)
        good = False
        for cond, when, _ in oks:
            ds = H.disjuncts(cond)
            none_ok = any(H.strip(d).get("k") == "mcall" and H.strip(d)["name"] == "is_none" and H.origins(H.strip(d)["recv"], env) == {("param", "credential", "expiration_date")} for d in ds)
            rels = [H.relation(d, env, lambda o: o == {("param", "credential", "expiration_date")}, lambda o: o == {("param", "timestamp")}) for d in ds]
            rels = [r for r in rels if r]
            r5.site("check_expires_on_or_after: Ok iff (%s) == %s ; absent-ok=%s relation=%s" % ("cond", when, none_ok, rels), H.strip(cond).get("sp"))
            if when is True and none_ok and rels == ["Ge"] and len(ds) == 2:
                good = True
        r5.require(good, (fn, "predicate"), "check_expires_on_or_after is not `expiration_date absent ∨ expiration_date ≥ timestamp` → Ok")
        r5.require("Err(ExpirationDate)" in [oc for _, oc in H.exits(h)] or any("ExpirationDate" in (H.err_variant(a) or "") for n in H.walk(H.root(h)) if n.get("k") == "mcall" and n["name"] == "ok_or" for a in n["args"]),
                   (fn, "error"), "the failure is not reported as ExpirationDate")
    # ---- issuance
    fn = U + "::check_issued_on_or_before"
    h = F.hir(fn)
    if r5.anchor(h, fn):
        env = H.Env(h)
        good = False
        for cond, when, _ in H.ok_conditions(h):
            rel = H.relation(cond, env, lambda o: o == {("param", "credential", "issuance_date")}, lambda o: o == {("param", "timestamp")})
            r5.site("check_issued_on_or_before: Ok iff issuance_date %s timestamp (when %s)" % (rel, when), H.strip(cond).get("sp"))
            if (rel == "Le" and when is True) or (rel == "Gt" and when is False):
                good = True
        r5.require(good, (fn, "predicate"), "check_issued_on_or_before is not `issuance_date ≤ timestamp` → Ok")
        r5.require(any("IssuanceDate" in (H.err_variant(a) or "") for n in H.walk(H.root(h)) if n.get("k") == "mcall" and n["name"] == "ok_or" for a in n["args"]) or "Err(IssuanceDate)" in [oc for _, oc in H.exits(h)],
                   (fn, "error"), "the failure is not reported as IssuanceDate")
    # ---- subject-holder table
    fn = U + "::check_subject_holder_relationship"
    h = F.hir(fn)
    if r5.anchor(h, fn):
        env = H.Env(h)
        ms = [n for n in H.walk(H.root(h)) if n.get("k") == "match" and n.get("src") == "normal"]
        rel_m = [m for m in ms if any(H.pat_str(a["pat"]) in ("AlwaysSubject", "Any", "SubjectOnNonTransferable") for a in m["arms"])]
        if r5.require(len(rel_m) == 1, (fn, "table"), "relationship table not found"):
            t = {}
            for arm in rel_m[0]["arms"]:
                ps = H.pat_str(arm["pat"])
                b = H.strip(arm["body"])
                if b.get("k") == "path":
                    t[ps] = H.local_name(b) or H.variant_name(b.get("res", {}))
                elif b.get("k") == "lit":
                    t[ps] = str(H.literals(b)[0])
                elif b.get("k") == "binary" and b.get("op") == "Or":
                    parts = []
                    for d in H.disjuncts(b):
                        inner, neg = H.negated(d)
                        nm = H.local_name(inner)
                        if nm:
                            parts.append(("!" if neg else "") + nm)
                        else:
                            oo = H.origins(inner, env)
                            dflt = H.literals(inner)
                            parts.append(("!" if neg else "") + ",".join(sorted(".".join(o[1:]) for o in oo if o[0] == "param")) + "|default=%s" % dflt)
                    t[ps] = " || ".join(parts)
                else:
                    t[ps] = "?"
                r5.site("relationship %s → %s" % (ps, t[ps]), arm["body"].get("sp"))
            r5.require(t.get("AlwaysSubject") == "url_matches", (fn, "AlwaysSubject"), "AlwaysSubject must require the subject id to equal the holder (got %s)" % t.get("AlwaysSubject"))
            r5.require(t.get("Any") == "True", (fn, "Any"), "Any must always pass (got %s)" % t.get("Any"))
            r5.require(t.get("SubjectOnNonTransferable") == "url_matches || !credential.non_transferable|default=[False]", (fn, "SubjectOnNonTransferable"),
                       "SubjectOnNonTransferable must be `url_matches || !non_transferable.unwrap_or(false)` (got %s)" % t.get("SubjectOnNonTransferable"))
        # url_matches definition
        um = [n for n in H.walk(H.root(h)) if n.get("k") == "let" and any(b[0] == "url_matches" for b in H.pat_bindings(n["pat"]))]
        if r5.require(len(um) == 1, (fn, "url_matches"), "url_matches definition not found"):
            cmps = H.comparisons(um[0]["init"], ("Eq",))
            okc = 0
            for c in cmps:
                oo = H.origins(c["l"], env) | H.origins(c["r"], env)
                if has(oo, "param", "holder") and any(o[0] == "param" and o[1] == "credential" and "id" in o for o in oo):
                    okc += 1
            r5.site("url_matches: %d comparisons of subject.id with holder" % okc, um[0]["sp"])
            r5.require(okc >= 2 and okc == len(cmps), (fn, "url_matches-cmp"), "url_matches is not `subject.id == Some(holder)` in both the One and single-element Many cases")
            lits = [x for x in H.literals(um[0]["init"]) if isinstance(x, bool)]
            r5.require(lits == [False], (fn, "url_matches-default"), "zero or several subjects must give url_matches = false (literals %s)" % lits)
        r5.require(any("SubjectHolderRelationship" in (H.err_variant(a) or "") for n in H.walk(H.root(h)) if n.get("k") == "mcall" and n["name"] == "ok_or" for a in n["args"]),
                   (fn, "error"), "the failure is not reported as SubjectHolderRelationship")
    # ---- check_status
    fn = U + "::check_status"
    h = F.hir(fn)
    if r5.anchor(h, fn):
        env = H.Env(h)
        tree, infos = L.exit_infos(h)
        # guard 1: SkipAll → Ok
        gs = L.block_guards(H.root(h))
        skip_all = False
        for cond, oc, node in gs:
            c = H.strip(cond)
            if c.get("k") == "binary" and c["op"] == "Eq":
                oo = H.origins(c["l"], env) | H.origins(c["r"], env)
                vs = {H.variant_name(x.get("res", {})) for x in H.walk(c) if x.get("k") == "path"}
                if has(oo, "param", "status_check") and "SkipAll" in vs and oc == "Ok":
                    skip_all = True
                    r5.site("check_status: SkipAll → Ok", node["sp"])
        r5.require(skip_all, (fn, "SkipAll"), "StatusCheck::SkipAll does not short-circuit to Ok")
        # every other Ok exit: None status, or unsupported type under SkipUnsupported
        m = H.find_first(h, lambda n: n.get("k") == "match" and n.get("src") == "normal" and only(H.origins(n["scrut"], env), "param", "credential", "credential_status"))
        if r5.require(m is not None, (fn, "status-table"), "match on credential.credential_status not found"):
            t = {H.pat_str(a["pat"]): a for a in m["arms"]}
            r5.require("None" in t and H.outcome(t["None"]["body"]) == "Ok", (fn, "no-status"), "a credential without status must pass")
            some = t.get("Some(_)")
            if r5.require(some is not None, (fn, "some-status"), "Some(status) arm missing"):
                sb = some["body"]
                # unsupported-type branch
                ifs = [n for n in H.walk(sb) if n.get("k") == "if"]
                typ_if = None
                for n in ifs:
                    c = H.strip(n["cond"])
                    if c.get("k") == "binary" and c["op"] == "Ne" and any("type_" in o for o in H.origins(c["l"], env)) :
                        typ_if = n
                if r5.require(typ_if is not None, (fn, "type-check"), "status type is not compared with RevocationBitmap::TYPE"):
                    consts = {x.get("res", {}).get("def") for x in H.walk(typ_if["cond"]) if x.get("k") == "path"}
                    r5.require(any(c and c.endswith("RevocationBitmap::TYPE") for c in consts), (fn, "type-const"), "status type is not compared with RevocationBitmap::TYPE")
                    inner_g = L.block_guards(typ_if["then"])
                    skipu = False
                    for cond, oc, node in inner_g:
                        vs = {H.variant_name(x.get("res", {})) for x in H.walk(cond) if x.get("k") == "path"}
                        if "SkipUnsupported" in vs and oc == "Ok" and H.strip(cond).get("op") == "Eq":
                            skipu = True
                    r5.require(skipu, (fn, "SkipUnsupported"), "unsupported status types are not skipped exactly under StatusCheck::SkipUnsupported")
                    r5.require(H.diverges(typ_if["then"]) and any(oc.startswith("Err(") for n2, oc in H.exits({"value": typ_if["then"]})), (fn, "unsupported-strict"), "an unsupported status type is not an error under Strict")
                    r5.site("check_status: unsupported type → Ok iff SkipUnsupported else Err(InvalidStatus)", typ_if["sp"])
                # supported: RevocationBitmapStatus::try_from ✓ → issuer lookup by extract_issuer → check_revocation_bitmap_status
                fns = H.called_fns(sb)
                for need in ("RevocationBitmapStatus as core::convert::TryFrom", "extract_issuer", "check_revocation_bitmap_status"):
                    r5.require(any(need in f for f in fns), (fn, "supported-path", need), "supported status path does not call %s" % need)
                for c in H.calls(sb, re.compile(r"check_revocation_bitmap_status$")):
                    a = H.call_args(c)
                    o1 = H.origins(a[1], env, extra=re.compile(r"TryFrom<.*>>::try_from$|try_from$"))
                    r5.site("check_revocation_bitmap_status(status ← %s)" % sorted(map(str, o1)), c["sp"])
                    r5.require(only(o1, "param", "credential", "credential_status"), (fn, "status-arg"), "the status checked is not the credential's own status: %s" % sorted(map(str, o1)))
                for c in H.calls(sb, re.compile(r"Iterator::find$|Iterator>::find$")):
                    cl = H.strip(c["args"][0])
                    cmps = H.comparisons(cl["body"], ("Eq",)) if cl.get("k") == "closure" else []
                    ok = False
                    for cmp in cmps:
                        oo = H.origins(cmp["l"], env, accessors=ACC) | H.origins(cmp["r"], env, accessors=ACC)
                        if any(o[0] == "closure_param" for o in oo) and any(o[0] == "call" and o[1].endswith("extract_issuer") for o in oo):
                            ok = True
                    r5.require(ok, (fn, "issuer-lookup"), "the issuer document is not selected by id == extract_issuer(credential)")
                    r5.require(only(H.origins(c["recv"], env, extra=re.compile(r"iter$")), "param", "trusted_issuers"), (fn, "issuer-pool"), "issuer not searched among trusted_issuers")
    # ---- check_revocation_bitmap_status
    fn = U + "::check_revocation_bitmap_status"
    h = F.hir(fn)
    if r5.anchor(h, fn):
        env = H.Env(h)
        tree, infos = L.exit_infos(h)
        for e in infos:
            revs = []
            for c in e.conds:
                if c[0] == "if":
                    cc = H.strip(c[1])
                    if cc.get("k") == "mcall" and (H.fn_name(cc) or "").endswith("RevocationBitmap::is_revoked"):
                        revs.append(c[2])
                        io = H.origins(cc["args"][0], env, accessors=ACC)
                        r5.require(io == {("param", "status", "index")}, (fn, "index-arg"), "is_revoked is not queried with status.index(): %s" % sorted(map(str, io)))
                        bo = H.origins(cc["recv"], env)
                        r5.require(bool(bo) and all(o[0] == "call" and o[1].endswith("::resolve_revocation_bitmap") for o in bo), (fn, "bitmap-src"),
                                   "the bitmap queried is not the one resolved from the issuer document: %s" % sorted(map(str, bo)))
            if L.is_success_exit(e):
                r5.require(revs == [False], (fn, "ok-iff-not-revoked"), "Ok is not exactly the `!is_revoked(index)` branch", e.node.get("sp"))
                r5.site("check_revocation_bitmap_status: Ok iff !is_revoked(status.index())", e.node.get("sp"))
            elif e.outcome == "Err(Revoked)":
                r5.require(revs == [True], (fn, "revoked-iff"), "Err(Revoked) is not exactly the `is_revoked(index)` branch", e.node.get("sp"))
        r5.require(any(e.outcome == "Err(Revoked)" for e in infos), (fn, "revoked-error"), "Revoked is never reported")
        for c in H.calls(h, re.compile(r"resolve_revocation_bitmap$")):
            a = H.call_args(c)
            o0 = H.origins(a[0], env)
            o1 = H.origins(a[1], env, accessors=ACC)
            r5.site("resolve_revocation_bitmap(issuer ← %s, query ← %s)" % (sorted(map(str, o0)), sorted(map(str, o1))), c["sp"])
            r5.require(o0 == {("param", "issuer")}, (fn, "bitmap-issuer"), "bitmap not resolved in the issuer document")
            r5.require(o1 == {("param", "status", "id")}, (fn, "bitmap-query"), "bitmap service not looked up by status.id(): %s" % sorted(map(str, o1)))
    # ---- Credential::check_structure
    fn = CRED + "::check_structure"
    h = F.hir(fn)
    if r5.anchor(h, fn):
        env = H.Env(h)
        tree, infos = L.exit_infos(h)
        errs = sorted(e.outcome for e in infos if not L.is_success_exit(e))
        r5.site("check_structure error exits %s" % errs, h["value"]["sp"])
        for need in ("Err(MissingBaseContext)", "Err(MissingBaseType)", "Err(MissingSubject)", "Err(InvalidSubject)"):
            r5.require(need in errs, (fn, need), "check_structure has no %s exit" % need)
        # structure of the guards: base context first
        m = H.find_first(h, lambda n: n.get("k") == "match" and n.get("src") == "normal")
        okctx = False
        if m:
            sc = H.strip(m["scrut"])
            idx = H.literals(sc)
            so = H.origins(sc, env, extra=re.compile(r"::get$"))
            okctx = only(so, "param", "self", "context") and idx == [0]
            t = L.decision_table(m)
            r5.require(any(k.startswith("Some(_) if") for k in t) and all(v == "Err(MissingBaseContext)" for k, v in t.items() if not k.endswith("if ..")), (fn, "context-table"), "base-context table is %s" % t)
            g = m["arms"][0].get("guard")
            if g is not None:
                consts = H.called_fns(g)
                r5.require(any(c.endswith("Credential::base_context") for c in consts), (fn, "context-const"), "first context is not compared with Credential::base_context()")
        r5.require(okctx, (fn, "context-first"), "the base context is not required at position 0 of self.context")
        gs = L.block_guards(H.root(h))
        kinds = {}
        for cond, oc, node in gs:
            inner, neg = H.negated(cond)
            fns = {f.rsplit("::", 1)[-1] for f in H.called_fns(inner)}
            roots = {o[2] for x in H.walk(inner) if x.get("k") in ("field",) for o in H.origins(x, env) if o[:2] == ("param", "self") and len(o) > 2}
            kinds[oc] = (neg, sorted(fns), sorted(roots))
            r5.site("check_structure guard → %s : %s%s on %s" % (oc, "!" if neg else "", sorted(fns), sorted(roots)), node["sp"])
        k = kinds.get("Err(MissingBaseType)")
        r5.require(k is not None and k[0] is True and "any" in k[1] and "base_type" in k[1] and k[2] == ["types"], (fn, "base-type"), "base type check is not `!types.iter().any(|t| t == base_type())`: %s" % (k,))
        k = kinds.get("Err(MissingSubject)")
        r5.require(k is not None and k[0] is False and "is_empty" in k[1] and k[2] == ["credential_subject"], (fn, "subject"), "subject presence check is not `credential_subject.is_empty()`: %s" % (k,))
        loops = L.for_loops(h)
        okl = False
        for it, pat, body, _ in loops:
            io = H.origins(it, env, extra=re.compile(r"::iter$"))
            for cond, oc, node in L.block_guards(body):
                cj = H.conjuncts(cond)
                fns = [sorted({f.rsplit("::", 1)[-1] for f in H.called_fns(c)}) for c in cj]
                if oc == "Err(InvalidSubject)" and only(io, "param", "self", "credential_subject") and sorted(fns) == [["is_empty"], ["is_none"]]:
                    okl = True
                    r5.site("check_structure: each subject with no id and no properties → InvalidSubject", node["sp"])
        r5.require(okl, (fn, "empty-subject"), "the per-subject emptiness check (id.is_none() && properties.is_empty() → InvalidSubject over all subjects) was not found")
    r5.floor(15)

