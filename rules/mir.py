"""CFG utilities over the dumped `mir_built` bodies."""
import re


def place_local(p):
    return p if isinstance(p, int) else p["l"]


def place_proj(p):
    return [] if isinstance(p, int) else p["p"]


def place_fields(p):
    """Field names along the projection (ignoring derefs/downcasts)."""
    return [e["f"] for e in place_proj(p) if isinstance(e, dict) and "f" in e]


def op_place(op):
    if "cp" in op:
        return op["cp"]
    if "mv" in op:
        return op["mv"]
    return None


def op_local(op):
    p = op_place(op)
    return None if p is None else place_local(p)


def op_const(op):
    return op.get("c")


def rvalue_operands(rv):
    k = rv["k"]
    if k in ("use", "repeat", "cast"):
        return [rv["op"]]
    if k in ("ref", "rawptr", "discr"):
        return [{"cp": rv["place"]}]
    if k == "binop":
        return [rv["a"], rv["b"]]
    if k == "unop":
        return [rv["a"]]
    if k == "agg":
        return rv["ops"]
    return []


def callee(t):
    """Best name for the callee of a call terminator: the statically resolved impl method if known."""
    return t.get("resolved") or t.get("fn") or ""


def callee_matches(t, pat):
    """pat: str (exact match on fn or resolved), compiled regex, or callable(term)."""
    if callable(pat) and not hasattr(pat, "search"):
        return pat(t)
    names = [n for n in (t.get("fn"), t.get("resolved")) if n]
    if hasattr(pat, "search"):
        return any(pat.search(n) for n in names)
    if isinstance(pat, (list, tuple, set, frozenset)):
        return any(callee_matches(t, p) for p in pat)
    return pat in names


# Calls through which a value "passes" (result carries the argument's information): adapters and wrappers
PASS_THROUGH = re.compile(
    r"^(core::result::Result::(map_err|map|ok|and_then|or_else|ok_or|as_ref|as_mut|as_deref|copied|cloned|transpose|unwrap_or_default|unwrap_or|unwrap_or_else)"
    r"|core::option::Option::(ok_or|ok_or_else|map|and_then|as_ref|as_mut|as_deref|copied|cloned|transpose|filter|or|or_else|flatten|unwrap_or_default|unwrap_or|unwrap_or_else|take)"
    r"|core::future::into_future::IntoFuture::into_future|<.* as core::future::into_future::IntoFuture>::into_future"
    r"|core::pin::Pin::new_unchecked|core::pin::Pin::new|core::future::future::Future::poll|<.* as core::future::future::Future>::poll"
    r"|core::convert::Into::into|core::convert::From::from|<.* as core::convert::(Into|From)<.*>>::(into|from)"
    r"|core::ops::deref::Deref::deref|core::ops::deref::DerefMut::deref_mut|<.* as core::ops::deref::Deref(Mut)?>::deref(_mut)?"
    r"|core::clone::Clone::clone|<.* as core::clone::Clone>::clone|alloc::borrow::ToOwned::to_owned"
    r"|alloc::boxed::Box::pin|alloc::boxed::Box::new|core::convert::AsRef::as_ref"
    r"|core::iter::traits::iterator::Iterator::(map|filter|filter_map|chain|take|collect|cloned|copied|flatten|peekable)"
    r"|core::ops::try_trait::Try::branch|<.* as core::ops::try_trait::Try>::branch"
    r")$"
)

TRY_BRANCH = re.compile(r"(^|::)Try(>)?::branch$")
FROM_RESIDUAL = re.compile(r"FromResidual(<.*>)?(>)?::from_residual$")
BOOL_OK = re.compile(r"^core::(result::Result::is_ok|option::Option::is_some)$")
BOOL_ERR = re.compile(r"^core::(result::Result::is_err|option::Option::is_none)$")


class Body:
    def __init__(self, path, raw, rec=None):
        self.path = path
        self.raw = raw
        self.rec = rec
        self.locals = raw["locals"]
        self.blocks = raw["blocks"]
        self.n = len(self.blocks)
        self.arg_count = raw["arg_count"]
        self._succ = [self._succ_of(b) for b in self.blocks]
        self._pred = None
        self._defs = None

    # ---- structure ----------------------------------------------------------------------------
    def _succ_of(self, b):
        t = b["t"]
        k = t["k"]
        if k in ("goto", "drop", "assert", "falseunwind", "yield", "falseedge"):
            return [t["target"]]
        if k == "call":
            return [t["target"]] if t["target"] is not None else []
        if k == "switch":
            out = []
            for _, x in t["targets"]:
                if x not in out:
                    out.append(x)
            if t["otherwise"] not in out:
                out.append(t["otherwise"])
            return out
        return []

    def succ(self, i):
        return self._succ[i]

    def preds(self):
        if self._pred is None:
            self._pred = [[] for _ in range(self.n)]
            for i in range(self.n):
                for s in self._succ[i]:
                    self._pred[s].append(i)
        return self._pred

    def term(self, i):
        return self.blocks[i]["t"]

    def local_name(self, l):
        return self.locals[l].get("name")

    def local_by_name(self, name):
        return [i for i, l in enumerate(self.locals) if l.get("name") == name]

    def arg_local(self, name):
        for i in range(1, self.arg_count + 1):
            if self.locals[i].get("name") == name:
                return i
        return None

    def calls(self, pat=None, include_cleanup=False):
        out = []
        for i, b in enumerate(self.blocks):
            if b["cleanup"] and not include_cleanup:
                continue
            t = b["t"]
            if t["k"] == "call" and (pat is None or callee_matches(t, pat)):
                out.append((i, t))
        return out

    def return_blocks(self):
        return [i for i, b in enumerate(self.blocks) if b["t"]["k"] == "return"]

    def reachable(self, start=0, removed_edges=frozenset(), removed_blocks=frozenset()):
        seen = set()
        if start in removed_blocks:
            return seen
        stack = [start]
        seen.add(start)
        while stack:
            x = stack.pop()
            for s in self._succ[x]:
                if (x, s) in removed_edges or s in removed_blocks or s in seen:
                    continue
                seen.add(s)
                stack.append(s)
        return seen

    def live_blocks(self):
        return self.reachable(0)

    def dominators(self):
        """dom[b] = set of blocks dominating b (reachable blocks only)."""
        reach = sorted(self.reachable(0))
        preds = self.preds()
        allb = set(reach)
        dom = {b: set(allb) for b in reach}
        dom[0] = {0}
        changed = True
        while changed:
            changed = False
            for b in reach:
                if b == 0:
                    continue
                ps = [p for p in preds[b] if p in allb]
                new = set(allb)
                for p in ps:
                    new &= dom[p]
                new.add(b)
                if new != dom[b]:
                    dom[b] = new
                    changed = True
        return dom

    # ---- definitions / taint ------------------------------------------------------------------
    def defs(self):
        """local -> list of ('stmt', bidx, sidx, stmt) | ('call', bidx, term)"""
        if self._defs is None:
            d = {}
            for bi, b in enumerate(self.blocks):
                for si, s in enumerate(b["s"]):
                    if s["k"] == "assign":
                        d.setdefault(place_local(s["dst"]), []).append(("stmt", bi, si, s))
                t = b["t"]
                if t["k"] == "call":
                    d.setdefault(place_local(t["dst"]), []).append(("call", bi, t))
            self._defs = d
        return self._defs

    def taint_forward(self, seeds, through=PASS_THROUGH, extra_through=None):
        """Flow-insensitive forward closure: locals whose value may carry information from `seeds`."""
        tainted = set(seeds)
        changed = True
        while changed:
            changed = False
            for b in self.blocks:
                for s in b["s"]:
                    if s["k"] != "assign":
                        continue
                    dl = place_local(s["dst"])
                    if dl in tainted:
                        continue
                    for op in rvalue_operands(s["rv"]):
                        l = op_local(op)
                        if l is not None and l in tainted:
                            tainted.add(dl)
                            changed = True
                            break
                t = b["t"]
                if t["k"] == "call":
                    dl = place_local(t["dst"])
                    if dl in tainted:
                        continue
                    if any(op_local(a) in tainted for a in t["args"] if op_local(a) is not None):
                        nm = callee(t)
                        if (through is not None and (through.search(t.get("fn") or "") or through.search(nm))) or (
                                extra_through is not None and callee_matches(t, extra_through)):
                            tainted.add(dl)
                            changed = True
        return tainted

    def backward_slice(self, seeds, stop_calls=None):
        """Flow-insensitive backward slice.
        Returns (locals, calls) where calls is the list of call terminators whose result flows into seeds.
        `stop_calls`: predicate(term) -> True if the slice must not continue through the call's arguments."""
        seen = set()
        calls = []
        consts = []
        work = list(seeds)
        d = self.defs()
        while work:
            l = work.pop()
            if l in seen:
                continue
            seen.add(l)
            for df in d.get(l, []):
                if df[0] == "stmt":
                    for op in rvalue_operands(df[3]["rv"]):
                        ol = op_local(op)
                        if ol is not None:
                            work.append(ol)
                        elif "c" in op:
                            consts.append(op["c"])
                else:
                    t = df[2]
                    calls.append((df[1], t))
                    if stop_calls is not None and stop_calls(t):
                        continue
                    for a in t["args"]:
                        ol = op_local(a)
                        if ol is not None:
                            work.append(ol)
                        elif "c" in a:
                            consts.append(a["c"])
        return seen, calls, consts

    # ---- success / failure edges ----------------------------------------------------------------
    def outcome_edges(self, call_block, extra_through=None):
        """For the call terminating `call_block`: the CFG edges taken when its Result/Option value is
        the success variant (Ok/Some/Continue/Ready→Ok) and the edges taken on failure.
        Returns (success_edges, failure_edges); both empty when the value is never branched on."""
        t = self.term(call_block)
        seeds = {place_local(t["dst"])}
        tainted = self.taint_forward(seeds, extra_through=extra_through)
        succ_e, fail_e = set(), set()
        for bi, b in enumerate(self.blocks):
            # discriminant reads
            discr_of = {}
            bool_ok = {}
            for s in b["s"]:
                if s["k"] == "assign" and s["rv"]["k"] == "discr":
                    pl = s["rv"]["place"]
                    l = place_local(pl)
                    if l in tainted:
                        discr_of[place_local(s["dst"])] = pl
            tt = b["t"]
            if tt["k"] != "switch":
                continue
            dl = op_local(tt["discr"])
            if dl is None:
                continue
            if dl in discr_of:
                pl = discr_of[dl]
                th = self._place_type_head(pl)
                if th is None:
                    continue
                ok_val = {"core::result::Result": 0, "core::option::Option": 1, "core::ops::control_flow::ControlFlow": 0}.get(th)
                if th == "core::task::poll::Poll":
                    continue  # Ready/Pending is not an outcome
                if ok_val is None:
                    continue
                for v, tgt in tt["targets"]:
                    if v == ok_val:
                        succ_e.add((bi, tgt))
                    else:
                        fail_e.add((bi, tgt))
                # otherwise edge: with two-variant enums the otherwise target is `unreachable` or the other variant
                oth = tt["otherwise"]
                if self.blocks[oth]["t"]["k"] != "unreachable":
                    vals = [v for v, _ in tt["targets"]]
                    if ok_val in vals:
                        fail_e.add((bi, oth))
                    else:
                        succ_e.add((bi, oth))
            elif dl == place_local(t["dst"]) or (dl in tainted and self.locals[dl]["ty"] == "bool" and self.locals[place_local(t["dst"])]["ty"] == "bool"):
                # the call itself returns bool: true edge = success
                for v, tgt in tt["targets"]:
                    (fail_e if v == 0 else succ_e).add((bi, tgt))
                vals = [v for v, _ in tt["targets"]]
                (succ_e if 0 in vals else fail_e).add((bi, tt["otherwise"]))
            else:
                # bool produced by is_ok()/is_err()/is_some()/is_none() on a tainted value
                for (cb, ct) in self.calls():
                    if place_local(ct["dst"]) == dl and ct["args"] and op_local(ct["args"][0]) in tainted:
                        nm = ct.get("fn") or ""
                        pos = bool(BOOL_OK.match(nm))
                        neg = bool(BOOL_ERR.match(nm))
                        if not (pos or neg):
                            continue
                        for v, tgt in tt["targets"]:
                            # v == 0: bool false
                            is_true_edge = (v != 0)
                            ok = (is_true_edge and pos) or ((not is_true_edge) and neg)
                            (succ_e if ok else fail_e).add((bi, tgt))
                        oth = tt["otherwise"]
                        vals = [v for v, _ in tt["targets"]]
                        is_true_edge = 0 in vals
                        ok = (is_true_edge and pos) or ((not is_true_edge) and neg)
                        (succ_e if ok else fail_e).add((bi, oth))
        return succ_e, fail_e

    def _place_type_head(self, pl):
        l = place_local(pl)
        proj = [e for e in place_proj(pl) if e != "*"]
        if proj:
            return None
        th = self.locals[l]["th"]
        while th.startswith("&"):
            th = th[1:]
            if th.startswith("mut "):
                th = th[4:]
        return th

    def must_pass_success(self, pat, targets, extra_through=None):
        """True iff every path entry→(any block in targets) crosses a success edge of a call matching pat.
        Returns (holds, n_calls, n_success_edges)."""
        cs = self.calls(pat)
        removed = set()
        for bi, _ in cs:
            s, _f = self.outcome_edges(bi, extra_through=extra_through)
            removed |= s
        reach = self.reachable(0, removed_edges=removed)
        holds = bool(cs) and bool(removed) and not any(t in reach for t in targets)
        return holds, len(cs), len(removed)

    def must_pass_call(self, pat, targets):
        """Every path entry→targets executes (returns normally from) a call matching pat."""
        cs = self.calls(pat)
        removed = {bi for bi, _ in cs}
        # remove the outgoing normal edge of the call blocks
        edges = set()
        for bi in removed:
            for s in self._succ[bi]:
                edges.add((bi, s))
        reach = self.reachable(0, removed_edges=edges)
        return bool(cs) and not any(t in reach for t in targets), len(cs)

    # ---- classification of returns --------------------------------------------------------------
    def ok_return_sources(self):
        """Blocks that assign the return place `_0` an Ok/Some/other aggregate or call result:
        list of (bidx, kind, detail) with kind in {'agg','call','use'}."""
        out = []
        for bi, b in enumerate(self.blocks):
            if b["cleanup"]:
                continue
            for s in b["s"]:
                if s["k"] == "assign" and place_local(s["dst"]) == 0 and not place_proj(s["dst"]):
                    rv = s["rv"]
                    if rv["k"] == "agg":
                        out.append((bi, "agg", rv))
                    else:
                        out.append((bi, "use", rv))
            t = b["t"]
            if t["k"] == "call" and place_local(t["dst"]) == 0 and not place_proj(t["dst"]):
                out.append((bi, "call", t))
        return out

    def ok_blocks(self):
        """Blocks where `_0 = Result::Ok(..)` / `Option::Some(..)` aggregate is assigned."""
        return [bi for bi, k, d in self.ok_return_sources() if k == "agg" and d.get("variant") in ("Ok", "Some")]

    def err_blocks(self):
        """Blocks where `_0` receives an Err: explicit aggregate or `from_residual`."""
        out = []
        for bi, k, d in self.ok_return_sources():
            if k == "agg" and d.get("variant") in ("Err", "None"):
                out.append(bi)
            elif k == "call" and FROM_RESIDUAL.search(d.get("fn") or ""):
                out.append(bi)
        return out


# =====================================================================================================
# boolean atoms on switches and path valuations
# =====================================================================================================
CMP_OPS = ("Eq", "Ne", "Lt", "Le", "Gt", "Ge")


def _single_def(body, l):
    ds = body.defs().get(l, [])
    return ds[0] if len(ds) == 1 else None


def resolve_value(body, l, max_steps=30):
    """Follow moves/copies (and `Not`) of a local back to its defining construct.
    Returns (root, negated) with root = ('binop', stmt, bidx) | ('call', term, bidx) | ('local', l) | ('const', c) | ('rv', stmt, bidx)"""
    neg = False
    for _ in range(max_steps):
        if l is None:
            break
        if 1 <= l <= body.arg_count:
            return ("local", l), neg
        d = _single_def(body, l)
        if d is None:
            return ("local", l), neg
        if d[0] == "call":
            return ("call", d[2], d[1]), neg
        s = d[3]
        rv = s["rv"]
        if place_proj(s["dst"]):
            return ("local", l), neg
        if rv["k"] == "use":
            op = rv["op"]
            if "c" in op:
                return ("const", op["c"]), neg
            pl = op_place(op)
            if place_proj(pl):
                return ("place", pl, d[1]), neg
            l = place_local(pl)
            continue
        if rv["k"] == "unop" and rv["op"] == "Not":
            neg = not neg
            l = op_local(rv["a"])
            if l is None:
                return ("const", rv["a"].get("c")), neg
            continue
        if rv["k"] == "binop":
            return ("binop", s, d[1]), neg
        if rv["k"] == "cast":
            l = op_local(rv["op"])
            continue
        return ("rv", s, d[1]), neg
    return ("local", l), neg


def switch_bool_edges(body, bi):
    """For a two-way switch on a bool-like value: {succ_block: True/False} (value of the *discriminant*)."""
    t = body.term(bi)
    if t["k"] != "switch":
        return None
    if len(t["targets"]) == 1 and t["targets"][0][0] == 0:
        return {t["targets"][0][1]: False, t["otherwise"]: True}
    return None


def switch_atoms(body, classify):
    """classify(root, body) -> atom name or None.  Returns {block: (atom, {succ: bool})} with polarity applied."""
    out = {}
    for bi, b in enumerate(body.blocks):
        if b["cleanup"]:
            continue
        e = switch_bool_edges(body, bi)
        if e is None:
            continue
        dl = op_local(b["t"]["discr"])
        if dl is None:
            continue
        root, neg = resolve_value(body, dl)
        a = classify(root, body)
        if a is None:
            continue
        flip = False
        if isinstance(a, tuple):
            a, flip = a
        pol = neg != flip
        out[bi] = (a, {s: (not v if pol else v) for s, v in e.items()})
    return out


def path_valuations(body, atoms, targets, start=0, limit=200000):
    """All distinct atom valuations along acyclic paths start→target.  Returns {target: set(frozenset((atom,bool)))}.
    A path on which one atom takes both values is infeasible and dropped."""
    res = {t: set() for t in targets}
    tset = set(targets)
    seen_states = set()
    stack = [(start, frozenset(), frozenset([start]))]
    steps = 0
    while stack:
        b, val, onpath = stack.pop()
        steps += 1
        if steps > limit:
            raise RuntimeError("path enumeration limit exceeded in %s" % body.path)
        if b in tset:
            res[b].add(val)
            # targets may also be passed through
        key = (b, val)
        if key in seen_states:
            continue
        seen_states.add(key)
        for s in body.succ(b):
            if s in onpath and False:
                continue
            nv = val
            if b in atoms:
                a, emap = atoms[b]
                if s in emap:
                    v = emap[s]
                    if (a, not v) in val:
                        continue
                    nv = val | {(a, v)}
            stack.append((s, nv, onpath))
    return res


# =====================================================================================================
# pure integer expressions (for constant folding over small finite domains)
# =====================================================================================================
INT_BITS = {"u8": 8, "u16": 16, "u32": 32, "u64": 64, "u128": 128, "usize": 64, "i8": 8, "i16": 16, "i32": 32, "i64": 64, "i128": 128,
            "isize": 64, "bool": 1}


class ExprBuilder:
    def __init__(self, F, inline_depth=2):
        self.F = F
        self.inline_depth = inline_depth

    def operand(self, body, op, subst, depth, seen):
        if "c" in op:
            c = op["c"]
            if "int" in c:
                return ("const", int(c["int"]), c.get("ty"))
            if "bool" in c:
                return ("const", 1 if c["bool"] else 0, "bool")
            if "def" in c:
                v = self.const_int(c["def"])
                if v is not None:
                    return ("const", v, c.get("ty"))
                return ("named", c["def"], c.get("ty"))
            return ("unknown", "const")
        return self.place(body, op_place(op), subst, depth, seen)

    def const_int(self, path, _depth=0):
        """Integer value of a named const/assoc const, folded from its own MIR body (literals and arithmetic over other consts)."""
        cache = self.__dict__.setdefault("_const_cache", {})
        if path in cache:
            return cache[path]
        cache[path] = None
        if _depth > 4:
            return None
        b = self.F.mir(path, follow_async=False)
        if b is not None:
            e = self.ret_expr(b, None, 0, frozenset())
            if e is not None:
                v = eval_expr(e, {})
                if isinstance(v, int):
                    cache[path] = v
        elif self.F.hir(path) is not None:
            # const items carry no MIR in the fact files: fold their typed HIR initialiser
            import sym
            v = sym.Evaluator(self.F).const_value(path)
            if isinstance(v, int) and not isinstance(v, bool):
                cache[path] = int(v)
        return cache[path]

    def place(self, body, pl, subst, depth, seen):
        l = place_local(pl)
        e = self.local(body, l, subst, depth, seen)
        for pe in place_proj(pl):
            if pe == "*":
                continue
            if isinstance(pe, dict) and "f" in pe:
                if e[0] == "tuple" and pe["f"].isdigit() and int(pe["f"]) < len(e[1]):
                    e = e[1][int(pe["f"])]
                elif e[0] == "bin" and e[1].endswith("WithOverflow") and pe["f"] == "0":
                    ty = e[4]
                    if ty.startswith("(") and "," in ty:
                        ty = ty[1:].split(",")[0].strip()
                    e = ("bin", e[1][:-len("WithOverflow")], e[2], e[3], ty)
                else:
                    e = ("field", e, pe["f"])
            elif isinstance(pe, dict) and "idx" in pe:
                e = ("index", e, self.local(body, pe["idx"], subst, depth, seen))
            else:
                e = ("proj", e, str(pe))
        return e

    def local(self, body, l, subst, depth, seen):
        if subst is not None and l in subst:
            return subst[l]
        if 1 <= l <= body.arg_count:
            return ("param", body.locals[l].get("name") or ("_%d" % l), body.locals[l]["ty"])
        key = (body.path, l)
        if key in seen:
            return ("unknown", "cycle")
        seen = seen | {key}
        ds = [d for d in body.defs().get(l, []) if not (d[0] == "stmt" and place_proj(d[3]["dst"]))]
        if len(ds) != 1:
            return ("unknown", "multi-def _%d" % l) if ds else ("load", "_%d" % l)
        d = ds[0]
        ty = body.locals[l]["ty"]
        if d[0] == "call":
            t = d[2]
            args = [self.operand(body, a, subst, depth, seen) for a in t["args"]]
            nm = callee(t)
            if depth < self.inline_depth:
                cb = self.F.mir(nm, follow_async=False)
                if cb is not None and len(cb.live_blocks()) <= 12:
                    sub = {i + 1: a for i, a in enumerate(args)}
                    r = self.ret_expr(cb, sub, depth + 1, seen)
                    if r is not None:
                        return r
            return ("call", nm, tuple(args), ty)
        rv = d[3]["rv"]
        k = rv["k"]
        if k == "use":
            return self.operand(body, rv["op"], subst, depth, seen)
        if k == "binop":
            return ("bin", rv["op"], self.operand(body, rv["a"], subst, depth, seen), self.operand(body, rv["b"], subst, depth, seen), ty)
        if k == "unop":
            return ("un", rv["op"], self.operand(body, rv["a"], subst, depth, seen), ty)
        if k == "cast":
            return ("cast", self.operand(body, rv["op"], subst, depth, seen), rv["ty"])
        if k == "agg" and rv["ak"] == "tuple":
            return ("tuple", tuple(self.operand(body, o, subst, depth, seen) for o in rv["ops"]))
        if k == "ref":
            return self.place(body, rv["place"], subst, depth, seen)
        return ("unknown", k)

    def ret_expr(self, body, subst, depth, seen):
        """Expression of the return value of a loop-free, single-return-value body."""
        ds = [d for d in body.defs().get(0, []) if not (d[0] == "stmt" and place_proj(d[3]["dst"]))]
        live = body.live_blocks()
        ds = [d for d in ds if d[1] in live]
        if len(ds) != 1:
            return None
        return self.local(body, 0, subst, depth, seen)


def eval_expr(e, env):
    """Evaluate a pure integer expression; returns int or None when not evaluable. Wrapping per result type."""
    k = e[0]
    if k == "const":
        return e[1]
    if k == "param":
        return env.get(e[1])
    if k == "cast":
        v = eval_expr(e[1], env)
        if v is None:
            return None
        bits = INT_BITS.get(e[2])
        return v & ((1 << bits) - 1) if bits else v
    if k == "un":
        v = eval_expr(e[2], env)
        if v is None:
            return None
        bits = INT_BITS.get(e[3], 64)
        if e[1] == "Not":
            if e[3] == "bool":
                return 0 if v else 1
            return (~v) & ((1 << bits) - 1)
        if e[1] == "Neg":
            return -v
        return None
    if k == "bin":
        a = eval_expr(e[2], env)
        b = eval_expr(e[3], env)
        if a is None or b is None:
            return None
        op = e[1]
        bits = INT_BITS.get(e[4], 64)
        mask = (1 << bits) - 1
        try:
            if op in ("Add", "AddWithOverflow", "AddUnchecked"):
                return (a + b) & mask
            if op in ("Sub", "SubWithOverflow", "SubUnchecked"):
                return (a - b) & mask
            if op in ("Mul", "MulWithOverflow", "MulUnchecked"):
                return (a * b) & mask
            if op == "Div":
                return a // b if b else None
            if op == "Rem":
                return a % b if b else None
            if op in ("Shl", "ShlUnchecked"):
                return (a << b) & mask
            if op in ("Shr", "ShrUnchecked"):
                return (a >> b) & mask
            if op == "BitAnd":
                return a & b
            if op == "BitOr":
                return a | b
            if op == "BitXor":
                return a ^ b
            if op == "Eq":
                return int(a == b)
            if op == "Ne":
                return int(a != b)
            if op == "Lt":
                return int(a < b)
            if op == "Le":
                return int(a <= b)
            if op == "Gt":
                return int(a > b)
            if op == "Ge":
                return int(a >= b)
        except Exception:
            return None
        return None
    if k == "tuple":
        return None
    return None


def expr_params(e, out=None):
    if out is None:
        out = set()
    if not isinstance(e, tuple):
        return out
    if e[0] == "param":
        out.add(e[1])
    for x in e[1:]:
        if isinstance(x, tuple):
            expr_params(x, out)
    return out


def expr_str(e):
    if not isinstance(e, tuple):
        return str(e)
    k = e[0]
    if k == "const":
        return str(e[1])
    if k == "param":
        return e[1]
    if k == "bin":
        return "%s(%s, %s)" % (e[1], expr_str(e[2]), expr_str(e[3]))
    if k == "un":
        return "%s(%s)" % (e[1], expr_str(e[2]))
    if k == "cast":
        return "(%s as %s)" % (expr_str(e[1]), e[2])
    if k == "call":
        return "%s(%s)" % (e[1].rsplit("::", 1)[-1], ", ".join(expr_str(a) for a in e[2]))
    if k == "tuple":
        return "(%s)" % ", ".join(expr_str(a) for a in e[1])
    if k in ("field", "index", "proj"):
        return "%s.%s" % (expr_str(e[1]), expr_str(e[2]))
    return "%s:%s" % (k, e[1] if len(e) > 1 else "")
