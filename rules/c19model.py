"""C19: bounded abstract evaluation of the ordered-set operations against a duplicate-free list model.

The operation bodies (typed HIR) are evaluated by sym.py on a set holding n = 0..N generic elements e0..e(n-1); the only thing the
code can learn about an element is the outcome of comparing `KeyComparable::key` values, which the evaluator leaves uninterpreted.
Every way those comparisons can come out is a *world*: a partition of the keys of the elements and of the arguments (elements of a
set pairwise distinct).  For every world the path(s) of the code consistent with it must produce the flag/value and the final
element sequence that the list model produces in that world.  Nothing is executed; the bound is N (sets of up to N elements)."""
import sym as SY

OS = "identity_core::common::ordered_set::OrderedSet"
KEY = r"KeyComparable::key$"


def partitions(items):
    if not items:
        yield []
        return
    first, rest = items[0], items[1:]
    for p in partitions(rest):
        for i in range(len(p)):
            yield p[:i] + [[first] + p[i]] + p[i + 1:]
        yield [[first]] + p


class World:
    def __init__(self, blocks):
        self.cls = {}
        for i, b in enumerate(blocks):
            for x in b:
                self.cls[x] = i

    def eq(self, a, b):
        return self.cls[a] == self.cls[b]

    def __str__(self):
        by = {}
        for x, c in self.cls.items():
            by.setdefault(c, []).append(x)
        return " ".join("{%s}" % "=".join(sorted(v)) for v in by.values())


def worlds(elems, params, distinct_elems=True):
    for p in partitions(list(elems) + list(params)):
        if distinct_elems and any(sum(1 for x in b if x in elems) > 1 for b in p):
            continue
        yield World(p)


def entity(t):
    """name of the element/argument whose key a term `key(x)` denotes"""
    if isinstance(t, tuple) and t[:1] == ("call",) and t[1].endswith("KeyComparable::key") and len(t[2]) == 1:
        for x in SY.subterms(t[2][0]):
            if isinstance(x, tuple) and x[:1] == ("param",) and len(x) == 2:
                return x[1]
    return None


def consistent(path, w):
    for (a, c, _, _) in path.decisions:
        if a[0] == "eq":
            x, y = entity(a[1]), entity(a[2])
            if x is None or y is None or x not in w.cls or y not in w.cls:
                continue
            if w.eq(x, y) != bool(c):
                return False
    return True


def names(vals):
    out = []
    for v in vals:
        t = SY.term(v)
        out.append(t[1] if isinstance(t, tuple) and t[:1] == ("param",) and len(t) == 2 else SY.fmt(t))
    return out


# ---- the list model -------------------------------------------------------------------------------------------------------------
def model(op, L, w):
    """(result, final list) of `op` on the duplicate-free list L (names) in world w"""
    if op in ("append", "prepend"):
        hit = any(w.eq(e, "item") for e in L)
        if hit:
            return False, list(L)
        return True, (L + ["item"] if op == "append" else ["item"] + L)
    if op == "update":
        m = [i for i, e in enumerate(L) if w.eq(e, "update")]
        if not m:
            return False, list(L)
        out = list(L)
        out[m[0]] = "update"
        return True, out
    if op == "replace":
        m = [i for i, e in enumerate(L) if w.eq(e, "current") or w.eq(e, "update")]
        if not m:
            return False, list(L)
        out = [e for i, e in enumerate(L) if i not in m]
        out.insert(m[0], "update")
        return True, out
    if op == "remove":
        m = [i for i, e in enumerate(L) if w.eq(e, "item")]
        if not m:
            return None, list(L)
        return L[m[0]], [e for i, e in enumerate(L) if i != m[0]]
    if op == "clear":
        return "()", []
    raise KeyError(op)


OPS = {"append": ["item"], "prepend": ["item"], "update": ["update"], "replace": ["current", "update"], "remove": ["item"], "clear": []}


def result_name(op, r):
    if op == "remove":
        if isinstance(r, SY.V) and r.name == "None":
            return None
        if isinstance(r, SY.V) and r.name == "Some" and r.fields:
            return names([r.fields[0]])[0]
        return "?" + str(r)
    if op == "clear":
        return "()"
    return r if isinstance(r, bool) else "?" + str(r)


def generic_invariants(L, final, res, w, op):
    """the property itself, independent of the per-operation model: uniqueness, order of survivors, refusal leaves the list alone"""
    bad = []
    if any(x not in w.cls for x in final):
        return ["the final sequence holds something that is neither an element nor an argument: %s" % final]
    for i in range(len(final)):
        for j in range(i + 1, len(final)):
            if w.eq(final[i], final[j]):
                bad.append("two elements with one key (%s, %s)" % (final[i], final[j]))
    surv = [x for x in final if x in L]
    if surv != [x for x in L if x in surv] or len(set(surv)) != len(surv):
        bad.append("the relative order of the remaining elements changed: %s → %s" % (L, final))
    if res in (False, None) and final != L:
        bad.append("a refused operation changed the set: %s → %s" % (L, final))
    return bad


def check_ops(F, rule, N=3):
    """→ number of (operation, size, world) triples decided"""
    decided = 0
    for op, params in OPS.items():
        fn = OS + "::" + op
        h = F.hir(fn)
        if not rule.anchor(h, fn):
            continue
        pnames = [SY.param_name(F, fn, i) for i in range(len(h["params"]))][1:]
        if not rule.require(pnames == params, (fn, "signature"), "%s has parameters %s, the model expects %s" % (fn, pnames, params)):
            continue
        ok_all = True
        nworlds = 0
        for n in range(N + 1):
            L = ["e%d" % i for i in range(n)]
            ev = SY.Evaluator(F, opaque=KEY, inline_depth=6, concrete_vec=True)

            def mk(n=n):
                return [SY.St(OS, {"0": [SY.Sym(("param", "e%d" % i)) for i in range(n)]})] + [SY.Sym(("param", x)) for x in params]

            def fin(p, a):
                v = a[0].f["0"] if isinstance(a[0], SY.St) else None
                p.final = names(v) if isinstance(v, list) else None
            try:
                paths = ev.explore(fn, args=mk, finalize=fin, max_paths=4000)
            except (SY.Abort, SY.TooManyPaths) as e:
                rule.fail((fn, "not-evaluable"), "%s could not be evaluated on a set of %d element(s): %s" % (fn, n, e))
                ok_all = False
                break
            inc = [p for p in paths if not p.complete]
            if inc:
                rule.fail((fn, "not-evaluable"), "%s on a set of %d element(s): a path could not be evaluated to the end (%s)" % (fn, n, inc[0].note))
                ok_all = False
                break
            for w in worlds(L, params):
                nworlds += 1
                ps = [p for p in paths if consistent(p, w)]
                if not ps:
                    rule.fail((fn, "no-path"), "%s on %s in world %s: no evaluated path applies" % (op, L, w))
                    ok_all = False
                    continue
                want_res, want_final = model(op, L, w)
                for p in ps:
                    if isinstance(p.ret, SY.V) and p.ret.name == "Panic":
                        rule.fail((fn, "panics"), "%s(%s) on [%s] panics when %s: %s" % (op, ", ".join(params), ", ".join(L), w, p.ret.fields[0] if p.ret.fields else ""))
                        ok_all = False
                        continue
                    got_res, got_final = result_name(op, p.ret), getattr(p, "final", None)
                    if got_final is None:
                        rule.fail((fn, "not-evaluable"), "%s: the final contents of the set are not a concrete sequence" % fn)
                        ok_all = False
                        continue
                    for b in generic_invariants(L, got_final, got_res, w, op):
                        rule.fail((fn, "invariant"), "%s(%s) on [%s] when %s: %s" % (op, ", ".join(params), ", ".join(L), w, b))
                        ok_all = False
                    if (got_res, got_final) != (want_res, want_final):
                        rule.fail((fn, "model"), "%s(%s) on [%s] when %s: returns %s leaving [%s]; the list model returns %s leaving [%s]" % (
                            op, ", ".join(params), ", ".join(L), w, got_res, ", ".join(got_final), want_res, ", ".join(want_final)))
                        ok_all = False
                    decided += 1
        rule.site("OrderedSet::%s agrees with the list model on sets of 0..%d elements in all %d key-equality worlds: %s" % (op, N, nworlds, ok_all))
    return decided


def check_ctor(F, rule, fn, kind, N=3):
    """kind 'try' : Err(OrderedSetDuplicate) iff two inputs share a key, else the inputs in order;
       kind 'collect': the first occurrence of each key, in order."""
    h = F.hir(fn)
    if not rule.anchor(h, fn):
        return 0
    decided = 0
    ok_all = True
    for n in range(N + 1):
        L = ["e%d" % i for i in range(n)]
        ev = SY.Evaluator(F, opaque=KEY, inline_depth=7, concrete_vec=True)

        def mk(n=n):
            return [[SY.Sym(("param", "e%d" % i)) for i in range(n)]]
        try:
            paths = ev.explore(fn, args=mk, max_paths=4000)
        except (SY.Abort, SY.TooManyPaths) as e:
            rule.fail((fn, "not-evaluable"), "%s could not be evaluated on %d input element(s): %s" % (fn, n, e))
            return decided
        inc = [p for p in paths if not p.complete]
        if inc:
            rule.fail((fn, "not-evaluable"), "%s on %d input element(s): a path could not be evaluated to the end (%s)" % (fn, n, inc[0].note))
            return decided
        for w in worlds(L, [], distinct_elems=False):
            first = [e for i, e in enumerate(L) if not any(w.eq(e, f) for f in L[:i])]
            dup = len(first) != len(L)
            want = ("Err", "OrderedSetDuplicate") if (kind == "try" and dup) else ("Ok", first)
            ps = [p for p in paths if consistent(p, w)]
            if not ps:
                rule.fail((fn, "no-path"), "%s on %s in world %s: no evaluated path applies" % (fn, L, w))
                ok_all = False
            for p in ps:
                r = p.ret
                if isinstance(r, SY.V) and r.name == "Err":
                    import symrules as SR
                    got = ("Err", SR.err_name(r))
                else:
                    if isinstance(r, SY.V) and r.name == "Ok" and r.fields:
                        r = r.fields[0]
                    got = ("Ok", names(r.f["0"])) if isinstance(r, SY.St) and isinstance(r.f.get("0"), list) else ("?", str(r))
                if got != want:
                    rule.fail((fn, "model" if kind == "try" else "dedup-first"), "%s on [%s] when %s: gives %s; the model gives %s" % (
                        "TryFrom<Vec<T>>" if kind == "try" else "FromIterator", ", ".join(L), w, got, want))
                    ok_all = False
                decided += 1
    rule.site("%s agrees with the model (%s) on 0..%d inputs in every key-equality world: %s" % (
        "TryFrom<Vec<T>>" if kind == "try" else "FromIterator", "duplicate → Err(OrderedSetDuplicate)" if kind == "try" else "first occurrence of each key kept", N, ok_all))
    return decided


# ---- OneOrSet / OneOrMany -------------------------------------------------------------------------------------------------------
OOS = "identity_core::common::one_or_set::OneOrSet"
OOM = "identity_core::common::one_or_many::OneOrMany"


def ent(v, known):
    """the element/argument a value is (or was mapped from)"""
    for x in SY.subterms(SY.term(v)):
        if isinstance(x, tuple) and x[:1] == ("param",) and len(x) == 2 and x[1] in known:
            return x[1]
    return "?" + SY.fmt(SY.term(v))


def oos_norm(v, known):
    """('One', e) | ('Set', [e..]) | ('Many', [e..]) | ('Err', name) | ('?', text)"""
    import symrules as SR
    if isinstance(v, SY.V) and v.name == "Ok" and v.fields:
        return oos_norm(v.fields[0], known)
    if isinstance(v, SY.V) and v.name == "Err":
        return ("Err", SR.err_name(v))
    if isinstance(v, SY.St) and v.ty.endswith("OneOrSet") and "0" in v.f:
        return oos_norm(v.f["0"], known)
    if isinstance(v, SY.V) and v.name == "One" and len(v.fields) == 1:
        return ("One", ent(v.fields[0], known))
    if isinstance(v, SY.V) and v.name in ("Set", "Many") and len(v.fields) == 1:
        s = v.fields[0]
        if isinstance(s, SY.St) and isinstance(s.f.get("0"), list):
            s = s.f["0"]
        if isinstance(s, list):
            return (v.name, [ent(x, known) for x in s])
    return ("?", str(v))


def oos_value(L):
    E = lambda x: SY.Sym(("param", x))  # noqa: E731
    inner = SY.V("One", (E(L[0]),)) if len(L) == 1 else SY.V("Set", (SY.St(OS, {"0": [E(x) for x in L]}),))
    return SY.St(OOS, {"0": inner})


def first_occurrences(L, w):
    return [e for i, e in enumerate(L) if not any(w.eq(e, f) for f in L[:i])]


def oos_of(L):
    return ("One", L[0]) if len(L) == 1 else ("Set", list(L))


def run_cases(F, rule, fn, label, cases, key_kind="model", size_hint_of=None):
    """cases: iterable of (description, args factory, worlds iterable, model(world) -> expected normal form | None (=skip),
    observe(path, args) -> normal form, path filter(path) -> bool)."""
    h = F.hir(fn)
    if not rule.anchor(h, fn):
        return 0
    decided = 0
    ok_all = True
    for desc, mk, ws, want_of, observe, keep in cases:
        ev = SY.Evaluator(F, opaque=KEY, inline_depth=8, concrete_vec=True)
        if size_hint_of is not None:
            ev.size_hint_of = size_hint_of

        def fin(p, a, observe=observe):
            p.obs = observe(p, a)
        try:
            paths = ev.explore(fn, args=mk, finalize=fin, max_paths=4000)
        except (SY.Abort, SY.TooManyPaths) as e:
            rule.fail((fn, "not-evaluable"), "%s could not be evaluated on %s: %s" % (label, desc, e))
            return decided
        inc = [p for p in paths if not p.complete]
        if inc:
            rule.fail((fn, "not-evaluable"), "%s on %s: a path could not be evaluated to the end (%s)" % (label, desc, inc[0].note))
            return decided
        for w in ws:
            want = want_of(w)
            ps = [p for p in paths if consistent(p, w) and (keep is None or keep(p))]
            if not ps:
                rule.fail((fn, "no-path"), "%s on %s when %s: no evaluated path applies" % (label, desc, w))
                ok_all = False
            for p in ps:
                if isinstance(p.ret, SY.V) and p.ret.name == "Panic":
                    rule.fail((fn, "panics"), "%s on %s panics when %s: %s" % (label, desc, w, p.ret.fields[0] if p.ret.fields else ""))
                    ok_all = False
                    continue
                got = getattr(p, "obs", None)
                if got != want:
                    rule.fail((fn, key_kind), "%s on %s when %s: gives %s; the model gives %s" % (label, desc, w, got, want))
                    ok_all = False
                decided += 1
    rule.site("%s agrees with the model on every size/world explored: %s" % (label, ok_all))
    return decided


def check_oneorset(F, rule, N=3):
    decided = 0
    E = lambda x: SY.Sym(("param", x))  # noqa: E731
    sizes = [["e%d" % i for i in range(n)] for n in range(N + 1)]

    # --- TryFrom<Vec<T>>: empty → OneOrSetEmpty, duplicate keys → OrderedSetDuplicate, one → One, else Set (input order)
    fn = "<" + OOS + " as core::convert::TryFrom<alloc::vec::Vec>>::try_from"

    def want_try(L):
        def f(w):
            if not L:
                return ("Err", "OneOrSetEmpty")
            if len(first_occurrences(L, w)) != len(L):
                return ("Err", "OrderedSetDuplicate")
            return oos_of(L)
        return f
    decided += run_cases(F, rule, fn, "OneOrSet::try_from(Vec)", [
        ("[%s]" % ", ".join(L), (lambda L=L: [[E(x) for x in L]]), list(worlds(L, [], distinct_elems=False)), want_try(L),
         (lambda p, a, L=L: oos_norm(p.ret, set(L))), None) for L in sizes], key_kind="duplicates-rejected")

    # --- new_set / TryFrom<OrderedSet>
    for fn, label in ((OOS + "::new_set", "OneOrSet::new_set"), ("<" + OOS + " as core::convert::TryFrom<" + OS + ">>::try_from", "OneOrSet::try_from(OrderedSet)")):
        decided += run_cases(F, rule, fn, label, [
            ("{%s}" % ", ".join(L), (lambda L=L: [SY.St(OS, {"0": [E(x) for x in L]})]), list(worlds(L, [])),
             (lambda w, L=L: ("Err", "OneOrSetEmpty") if not L else oos_of(L)), (lambda p, a, L=L: oos_norm(p.ret, set(L))), None) for L in sizes],
            key_kind="normalisation")

    # --- map / try_map: the mapped elements are collected keeping first occurrences; one left → One
    for fn, label, tm in ((OOS + "::map", "OneOrSet::map", False), (OOS + "::try_map", "OneOrSet::try_map", True)):
        cases = []
        for L in sizes[1:]:
            def all_ok(p):
                return not any(a[0] == "variant" and c == "Err" for (a, c, _, _) in p.decisions)
            cases.append(("%s mapped by f" % (oos_of(L),), (lambda L=L: [oos_value(L), SY.Sym(("param", "f"))]), list(worlds(L, [], distinct_elems=False)),
                          (lambda w, L=L: oos_of(first_occurrences(L, w)) if len(L) > 1 else ("One", L[0])),
                          (lambda p, a, L=L: oos_norm(p.ret, set(L))), all_ok if tm else None))
        decided += run_cases(F, rule, fn, label, cases, key_kind="normalisation")
    # try_map: a failing f fails the whole call
    fn = OOS + "::try_map"
    if F.hir(fn) is not None:
        ev = SY.Evaluator(F, opaque=KEY, inline_depth=8, concrete_vec=True)
        bad = 0
        try:
            for L in sizes[1:]:
                for p in ev.explore(fn, args=(lambda L=L: [oos_value(L), SY.Sym(("param", "f"))])):
                    if p.complete and any(a[0] == "variant" and c == "Err" for (a, c, _, _) in p.decisions):
                        decided += 1
                        if not (isinstance(p.ret, SY.V) and p.ret.name == "Err"):
                            bad += 1
        except (SY.Abort, SY.TooManyPaths):
            bad += 1
        rule.require(bad == 0, (fn, "error-propagates"), "OneOrSet::try_map returns Ok although the mapping function failed on an element")

    # --- append
    fn = OOS + "::append"
    cases = []
    for L in sizes[1:]:
        def want(w, L=L):
            hit = any(w.eq(e, "item") for e in L)
            return (not hit, oos_of(L) if hit else ("Set", L + ["item"]))
        cases.append(("%s" % (oos_of(L),), (lambda L=L: [oos_value(L), E("item")]), list(worlds(L, ["item"])), want,
                      (lambda p, a, L=L: (p.ret, oos_norm(a[0], set(L) | {"item"}))), None))
    decided += run_cases(F, rule, fn, "OneOrSet::append", cases)

    # --- OneOrMany::from(Vec): exactly one element → One, else Many (order kept)
    fn = "<" + OOM + " as core::convert::From<alloc::vec::Vec>>::from"
    decided += run_cases(F, rule, fn, "OneOrMany::from(Vec)", [
        ("[%s]" % ", ".join(L), (lambda L=L: [[E(x) for x in L]]), [World([[x] for x in L])],
         (lambda w, L=L: ("One", L[0]) if len(L) == 1 else ("Many", list(L))), (lambda p, a, L=L: oos_norm(p.ret, set(L))), None) for L in sizes],
        key_kind="normalisation")
    cands = F.find(r"^<identity_core::common::one_or_many::OneOrMany as core::iter::traits::collect::FromIterator(<.*>)?>::from_iter$")
    fn = cands[0] if cands else "<OneOrMany as FromIterator>::from_iter"
    # … for every *valid* size hint the source iterator may give (exact; no upper bound; lower 0; upper too large; both loose): what is
    # collected must not depend on it (a `filter`ed or `chain`ed source hints (1, Some(2)) and yields one element)
    HINTS = [("exact", None), ("(0, None)", lambda n: (0, None)), ("(len, None)", lambda n: (n, None)), ("(0, len+1)", lambda n: (0, n + 1)),
             ("(len, len+1)", lambda n: (n, n + 1)), ("(len-1, len+2)", lambda n: (max(n - 1, 0), n + 2)), ("(0, len)", lambda n: (0, n))]
    for hname, hf in HINTS:
        decided += run_cases(F, rule, fn, "OneOrMany::from_iter [size_hint %s]" % hname, [
            ("[%s]" % ", ".join(L), (lambda L=L: [[E(x) for x in L]]), [World([[x] for x in L])],
             (lambda w, L=L: ("One", L[0]) if len(L) == 1 else ("Many", list(L))), (lambda p, a, L=L: oos_norm(p.ret, set(L))), None) for L in sizes],
            key_kind="normalisation", size_hint_of=hf)
    return decided
