"""C03 — JWT presentation validation binds the token to the holder document."""
import re

import hir as H
import rulelib as L
import symrules as SR
import sym
from c02 import has, only

CRATES = ["identity_credential", "identity_document", "identity_jose", "identity_core"]
PV = "identity_credential::validator::jwt_presentation_validation::jwt_presentation_validator::JwtPresentationValidator"
PJ = "identity_credential::presentation::jwt_serialization::PresentationJwtClaims"
CORE = "identity_document::document::core_document::CoreDocument"
ITEM = "identity_jose::jws::decoder::JwsValidationItem"
Q = "identity_document::utils::did_url_query::DIDUrlQuery"
TS = "identity_core::common::timestamp::Timestamp"

ACC = re.compile(r"(JwsValidationItem::(nonce|kid)|Url::as_str|CoreDocument::id|IssuanceDateClaims::to_issuance_date|DIDUrl::(did|fragment)|DIDUrlQuery::(did_str|fragment)|CoreDID::as_str|DID::as_str)$")
SEE = re.compile(r"(CoreDID as core::str::traits::FromStr>::from_str|FromStr::from_str|Timestamp::from_unix|::transpose|Box::new|::clone|::into|Into::into|From::from)$")


def _rel(q, a_root, b_root):
    """Ordering established on path q between the value derived from a_root and the bound derived from b_root (or its default):
    'a>=b' | 'a<b' | 'a<=b' | 'a>b' | None"""
    facts = set()
    for (a, c, _, _) in q.decisions:
        if a[0] != "lt":
            continue
        x, y = a[1], a[2]
        xa, ya = SR.derives(x, a_root), SR.derives(y, a_root)
        xb = SR.derives(x, b_root) or ("default",) in list(sym.subterms(x))
        yb = SR.derives(y, b_root) or ("default",) in list(sym.subterms(y))
        if xa and yb:
            facts.add("a<b" if c else "a>=b")
        elif xb and ya:
            facts.add("a>b" if c else "a<=b")
    if len(facts) == 1:
        return facts.pop()
    if facts == {"a>=b", "a<=b"}:
        return "a==b"
    if facts == {"a>=b", "a>b"}:
        return "a>=b"
    if facts == {"a<=b", "a<b"}:
        return "a<=b"
    return None if not facts else "/".join(sorted(facts))



def matches_rule(F, rule, mfn):
    """DIDUrlQuery::matches on its decision table: true exactly when (the query has no DID part or it equals the entry's DID, as whole
    strings) and both fragments are present and equal."""
    tab = SR.Table(F, mfn, opaque=r"DIDUrlQuery::(did_str|fragment)$|DIDUrl::(did|fragment)$|CoreDID::as_str$|DID::as_str$|::as_str$", rule=rule)
    SELF_, URL_ = SR.SELF, SR.param("did_url")
    rows = set()
    for q in tab.paths:
        ds = [e for e in q.calls(r"DIDUrlQuery::did_str$") if SR.pure(e.args[0], SELF_)]
        fs = [e for e in q.calls(r"DIDUrlQuery::fragment$") if SR.pure(e.args[0], SELF_)]
        fu = [e for e in q.calls(r"DIDUrl::fragment$") if SR.pure(e.args[0], URL_)]

        def eq_of(x_t, y_pred):
            for (a, c, _, _) in q.decisions:
                if a[0] == "eq":
                    for u, v in ((a[1], a[2]), (a[2], a[1])):
                        if SR.pure(u, x_t) and y_pred(v):
                            return c
            return None
        did_some = bool(ds) and q.variant.get(ds[0].result.t) == "Some"
        did_none = bool(ds) and q.variant.get(ds[0].result.t) == "None"
        did_eq = eq_of(("payload", ds[0].result.t, "Some", 0), lambda v: SR.derives(v, URL_) and "did" in sym.fmt(v) and "fragment" not in sym.fmt(v)) if did_some else None
        both = bool(fs) and bool(fu) and q.variant.get(fs[0].result.t) == "Some" and q.variant.get(fu[0].result.t) == "Some"
        frag_eq = eq_of(("payload", fs[0].result.t, "Some", 0), lambda v: SR.pure(v, ("payload", fu[0].result.t, "Some", 0))) if both else None
        if q.ret is True:
            ok = (did_none or did_eq is True) and both and frag_eq is True
            rule.require(ok, (mfn, "did-eq" if not (did_none or did_eq is True) else "fragment-eq"),
                         "DIDUrlQuery::matches returns true on a path that does not establish %s — path: %s" % (
                             "that the query's DID (if any) equals the entry's DID" if not (did_none or did_eq is True) else "that both fragments are present and equal", q.describe()[:200]))
            rows.add("match")
        elif q.ret is False:
            if did_eq is False:
                rows.add("did-differs")
            if both and frag_eq is False:
                rows.add("fragment-differs")
            if (fs and q.variant.get(fs[0].result.t) == "None") or (fu and q.variant.get(fu[0].result.t) == "None"):
                rows.add("fragment-missing")
        else:
            rule.fail((mfn, "not-evaluable"), "DIDUrlQuery::matches returns %s, not a decided boolean" % (q.ret,))
    rule.site("DIDUrlQuery::matches: rows %s" % sorted(rows))
    if tab.paths:
        rule.require("did-differs" in rows, (mfn, "did-eq"), "DIDUrlQuery::matches does not return false when the query's DID differs from the entry's DID")
        rule.require({"match", "fragment-differs", "fragment-missing"} <= rows, (mfn, "fragment-eq"), "DIDUrlQuery::matches does not require both fragments to be present and equal (rows: %s)" % sorted(rows))

def run(F, R, tier):
    R.undecided += ["truth of the conjunction on concrete tokens (implied together with C01, C10, C13)", "first-match semantics of resolve_method when two ids differ only in path/query"]
    fn = PV + "::validate"
    h = F.hir(fn)
    r1 = R.rule("C03-R1", "T2+T3", "validate: Ok dominated by CoreDocument::verify_jws ✓ on the `holder` parameter with options.presentation_verifier_options; claims parsed from the verified payload")
    r2 = R.rule("C03-R2", "T6", "CoreDID::from_str(claims.iss) ✓ and holder_did == holder.id() (full DID equality) dominate Ok")
    r3 = R.rule("C03-R3", "T6+T2", "exp absent or ≥ earliest_expiry_date; issuance (nbf, else iat) absent or ≤ latest_issuance_date; both `?`-propagated before Ok; conversions through from_unix")
    r5 = R.rule("C03-R5", "T3", "the returned presentation, header, dates, aud and custom claims derive from the verified claims / protected header")
    if r1.anchor(h, fn):
        OPQ = (r"CoreDocument::verify_jws$|from_json_slice$|CoreDID as core::str::traits::FromStr|FromStr::from_str$|to_issuance_date$|Timestamp::from_unix$|try_into_presentation$|"
               r"CoreDocument::id$|one_presentation_error$")
        tab = SR.Table(F, fn, opaque=OPQ, rule=r1, max_paths=6000)
        OPT, HOLDER = SR.param("options"), SR.param("holder")
        n = 0
        for q in tab.ok():
            n += 1
            # ---- R1
            vj = [e for e in q.calls(r"CoreDocument::verify_jws$") if q.succeeded(e) is True]
            if not r1.require(len(vj) == 1, (fn, "missing-before-success", "holder.verify_jws"), "an accepting path has no successful CoreDocument::verify_jws"):
                continue
            e = vj[0]
            r1.require(sym.term(e.args[0]) == HOLDER, (fn, "verify-recv"), "verify_jws is not invoked on the holder document: %r" % (e.args[0],))
            r1.require(SR.derives(e.args[1], SR.param("presentation")), (fn, "verify-jws-arg"), "the token verified is not the presentation argument: %r" % (e.args[1],))
            r1.require(sym.term(e.args[2]) == ("ctor", "None"), (fn, "verify-detached"), "a detached payload is passed to verify_jws: %r" % (e.args[2],))
            r1.require(sym.term(e.args[3]) == SR.fld("0"), (fn, "verify-verifier"), "the verifier is not the validator's own: %r" % (e.args[3],))
            r1.require(sym.term(e.args[4]) == SR.fld("presentation_verifier_options", base=OPT), (fn, "verify-options"), "verify_jws is not given options.presentation_verifier_options: %r" % (e.args[4],))
            decoded = ("payload", e.result.t, "Ok", 0)
            fj = [x for x in q.calls(r"from_json_slice$") if q.succeeded(x) is True]
            if not r1.require(len(fj) == 1 and sym.term(fj[0].args[0]) == ("field", decoded, "claims"), (fn, "claims-source"), "the claims are not parsed from the verified token's payload"):
                continue
            claims = ("payload", fj[0].result.t, "Ok", 0)
            # ---- R2
            fs = [x for x in q.calls(r"FromStr") if q.succeeded(x) is True and SR.derives(x.args[0], ("field", claims, "iss"))]
            if r2.require(len(fs) == 1, (fn, "iss-parse"), "claims.iss is not parsed as a CoreDID (with the error propagated) before success"):
                hd = ("payload", fs[0].result.t, "Ok", 0)
                okeq = False
                for (a, c, _, _) in q.decisions:
                    if a[0] == "eq" and c is True and hd in (a[1], a[2]):
                        other = a[2] if a[1] == hd else a[1]
                        if other[:1] == ("call",) and other[1].endswith("CoreDocument::id") and other[2] == (HOLDER,):
                            okeq = True
                r2.require(okeq, (fn, "iss-eq-holder-id"), "success without `holder_did == holder.id()` (full DID equality) — path: %s" % q.describe()[-260:])
            # ---- R3 expiry
            EXP = ("field", claims, "exp")
            if SR.variant(q, EXP) == "Some":
                fu = [x for x in q.calls(r"Timestamp::from_unix$") if q.succeeded(x) is True and sym.term(x.args[0]) == ("payload", EXP, "Some", 0)]
                if r3.require(len(fu) == 1, (fn, "exp-from_unix"), "claims.exp is not converted with Timestamp::from_unix (error propagated)"):
                    rel = _rel(q, fu[0].result.t, SR.fld("earliest_expiry_date", base=OPT))
                    r3.require(rel == "a>=b", (fn, "expiry-predicate"), "the expiry check is not `exp absent ∨ exp ≥ options.earliest_expiry_date` (established: %s)" % rel)
            else:
                r3.require(SR.variant(q, EXP) == "None", (fn, "expiry-predicate"), "success without examining claims.exp")
            # ---- R3 issuance
            ISS = ("field", claims, "issuance_date")
            iv = SR.variant(q, ISS)
            isp = ("payload", ISS, "Some", 0)
            has_date = iv == "Some" and (SR.variant(q, ("field", isp, "iat")) == "Some" or SR.variant(q, ("field", isp, "nbf")) == "Some")
            both_absent = iv == "None" or (iv == "Some" and SR.variant(q, ("field", isp, "iat")) == "None" and SR.variant(q, ("field", isp, "nbf")) == "None")
            ti = [x for x in q.calls(r"to_issuance_date$") if q.succeeded(x) is True and sym.term(x.args[0]) == isp]
            if has_date:
                if r3.require(len(ti) == 1, (fn, "issuance-presence"), "issuance_date is not `Some(to_issuance_date()?)` whenever iat OR nbf is present: a token carrying only one of them would skip the issuance check"):
                    rel = _rel(q, ti[0].result.t, SR.fld("latest_issuance_date", base=OPT))
                    r3.require(rel == "a<=b", (fn, "issuance-predicate"), "the issuance check is not `issuance absent ∨ issuance ≤ options.latest_issuance_date` (established: %s)" % rel)
            else:
                r3.require(both_absent or len(ti) == 1, (fn, "issuance-presence"), "success without examining both iat and nbf — path: %s" % q.describe()[-200:])
                if len(ti) == 1:
                    rel = _rel(q, ti[0].result.t, SR.fld("latest_issuance_date", base=OPT))
                    r3.require(rel == "a<=b", (fn, "issuance-predicate"), "the issuance check is not `issuance ≤ options.latest_issuance_date` (established: %s)" % rel)
            # ---- R5
            out = q.ret.fields[0] if isinstance(q.ret, sym.V) and q.ret.fields else None
            if not r5.require(isinstance(out, sym.St), (fn, "result-visible"), "the returned DecodedJwtPresentation is not visible to the evaluator: %r" % (out,)):
                continue
            tp = [x for x in q.calls(r"try_into_presentation$") if q.succeeded(x) is True and sym.term(x.args[0]) == claims]
            r5.require(len(tp) == 1 and SR.derives(out.f.get("presentation"), tp[0].result.t), (fn, "presentation-source"), "the returned presentation is not claims.try_into_presentation()?")
            r5.require(SR.derives(out.f.get("header"), ("field", decoded, "protected")), (fn, "header-source"), "the returned header is not the verified token's protected header: %r" % (out.f.get("header"),))
            r5.require(SR.derives(out.f.get("aud"), ("field", claims, "aud")), (fn, "aud-source"), "aud does not come from the verified claims")
            r5.require(SR.derives(out.f.get("custom_claims"), ("field", claims, "custom")), (fn, "custom-source"), "custom claims do not come from the verified claims")
            ed = out.f.get("expiration_date")
            r5.require((SR.variant(q, EXP) == "None" and sym.term(ed) == ("ctor", "None")) or SR.derives(ed, EXP), (fn, "exp-source"), "expiration_date does not come from claims.exp: %r" % (ed,))
            idt = out.f.get("issuance_date")
            r5.require(sym.term(idt) == ("ctor", "None") or SR.derives(idt, ISS), (fn, "iss-source"), "issuance_date does not come from the verified claims: %r" % (idt,))
        for rr, m in ((r1, 7), (r2, 2), (r3, 4), (r5, 6)):
            for k in range(m):
                rr.site("validate: obligation %d checked on %d accepting path(s)" % (k + 1, n))
    r1.floor(7)
    r2.floor(2)
    r3.floor(4)
    r5.floor(6)

    # ------------------------------------------------------------------ R7 the returned presentation is the lossless image of the verified claims
    r7 = R.rule("C03-R7", "T5", "the Presentation returned is rebuilt from the verified claims without silently dropping a signed member: C07-R2 (field coverage) and "
                "C07-R3 (check_consistency rejects a vp member whose registered claim is absent) hold")
    L.depends_on(r7, F, tier, ["C07-R2", "C07-R3"], "try_into_presentation returns what was signed")
    # … and the issuance time the bound is applied to is the `nbf` claim when there is one (C07-R4: to_issuance_date = nbf, else iat, each through from_unix)
    L.depends_on(r7, F, tier, ["C07-R4"], "the issuance date compared with latest_issuance_date is to_issuance_date() = nbf, else iat")
    r7.floor(3)

    # ------------------------------------------------------------------ R6 CoreDocument::verify_jws
    r6 = R.rule("C03-R6", "T2+T3+T6+T4", "verify_jws: nonce equality dominates; method query = options.method_id or protected kid; resolve_method(query, options.method_scope) on self; verify(verifier, that key) result returned; DIDUrlQuery::matches table")
    verify_jws_rules(F, r6, tier)


def verify_jws_rules(F, r6, tier="quick"):
    vfn = CORE + "::verify_jws"
    if r6.anchor(F.hir(vfn), vfn):
        OPQ = r"Decoder::decode_compact_serialization$|JwsValidationItem::verify$|CoreDocument::resolve_method$|MethodData::(try_)?public_key_jwk$|VerificationMethod::data$"
        tab = SR.Table(F, vfn, opaque=OPQ, rule=r6)
        OPT = SR.param("options")
        ONONCE, OMID = SR.fld("nonce", base=OPT), SR.fld("method_id", base=OPT)
        n = n_cfg = n_kid = 0
        for q in tab.ok():
            n += 1
            dec = [e for e in q.calls(r"decode_compact_serialization$") if q.succeeded(e) is True]
            if not r6.require(len(dec) == 1, (vfn, "decode"), "decode_compact_serialization? does not precede success"):
                continue
            r6.require(sym.term(dec[0].args[1]) == SR.param("jws") and sym.term(dec[0].args[2]) == SR.param("detached_payload"), (vfn, "decode-args"), "the decoder is not given (jws, detached_payload)")
            item = ("payload", dec[0].result.t, "Ok", 0)
            # full nonce equality between options.nonce and the token's (protected) nonce
            ok = False
            for (a, c, _, _) in q.decisions:
                if a[0] == "eq" and c is True and ONONCE in (a[1], a[2]):
                    other = a[2] if a[1] == ONONCE else a[1]
                    f_ = sym.fmt(other)
                    if SR.derives(other, item) and other[:1] == ("field",) and other[2] == "nonce" and ("!Protected" in f_ or ".protected" in f_) and "!Unprotected" not in f_:
                        ok = True
            if not ok and SR.variant(q, ONONCE) == "None":
                ok = all(v_ == "None" for t_, v_ in q.variant.items() if SR.derives(t_, item) and t_[:1] == ("field",) and t_[2] == "nonce") and \
                    any(SR.derives(t_, item) and t_[:1] == ("field",) and t_[2] == "nonce" for t_ in q.variant) or SR.variant(q, ("field", item, "headers")) == "Unprotected"
            r6.require(ok, (vfn, "nonce-eq"), "verify_jws can succeed without the full nonce equality having been established — path: %s" % q.describe()[:220])
            rms = [e for e in q.calls(r"resolve_method$") if q.succeeded(e) is True]
            if not r6.require(len(rms) == 1, (vfn, "resolve"), "expected one successful resolve_method on an accepting path"):
                continue
            doc, qry, scope = rms[0].args[:3]
            r6.require(sym.term(doc) == SR.SELF, (vfn, "resolve-doc"), "the method is not resolved in this document")
            r6.require(sym.term(scope) == SR.fld("method_scope", base=OPT), (vfn, "resolve-scope"), "resolve_method is not given options.method_scope")
            if SR.variant(q, OMID) == "Some":
                n_cfg += 1
                r6.require(sym.term(qry) == ("payload", OMID, "Some", 0), (vfn, "query-some"), "configured method id not used: %r" % (qry,))
            else:
                n_kid += 1
                f_ = sym.fmt(sym.term(qry))
                r6.require(SR.variant(q, OMID) == "None" and SR.derives(qry, item) and "kid" in f_ and ("!Protected" in f_ or ".protected" in f_) and "!Unprotected" not in f_, (vfn, "query-kid"),
                           "fallback query is not the protected header's kid: %s" % f_)
            vs = [e for e in q.calls(r"JwsValidationItem::verify$") if q.succeeded(e) is True]
            if r6.require(len(vs) == 1, (vfn, "returns"), "verify_jws does not succeed through JwsValidationItem::verify"):
                v = vs[0]
                r6.require(sym.term(v.args[0]) == item, (vfn, "verify-item"), "the item verified is not the decoded token")
                r6.require(sym.term(v.args[1]) == SR.param("signature_verifier"), (vfn, "verifier"), "the caller's verifier is not used")
                r6.require(SR.derives(v.args[2], rms[0].result.t) and "public_key_jwk" in sym.fmt(sym.term(v.args[2])), (vfn, "key-source"), "the verifying key does not come from the resolved method: %r" % (v.args[2],))
                r6.require(SR.derives(q.ret, v.result.t), (vfn, "returns"), "verify_jws does not return the result of JwsValidationItem::verify")
        r6.site("verify_jws: success guarded by validation_item.nonce() == options.nonce on %d accepting path(s)" % n)
        r6.site("method query: configured id on %d path(s), protected kid on %d" % (n_cfg, n_kid))
        r6.site("resolve_method(self, query, options.method_scope) ✓")
        r6.site("validation_item.verify(signature_verifier, key of resolved method)")
        r6.require((n_cfg > 0 and n_kid > 0) or not tab.paths, (vfn, "query-table"), "the method query is not selected between options.method_id and the protected kid")

    mfn = Q + "::matches"
    if r6.anchor(F.hir(mfn), mfn):
        matches_rule(F, r6, mfn)
    # "within the configured scope" also needs resolve_method itself to map every scope to its own collection and every query to
    # the entry it names (C04-R5, C04-R7)
    L.depends_on(r6, F, tier, ["C04-R5", "C04-R7"], "resolve_method(query, scope) looks in the collection of that scope and matches by full id")
    r6.floor(7)
