"""C03 — JWT presentation validation binds the token to the holder document."""
import re

import hir as H
import rulelib as L
from c02 import has, only

CRATES = ["identity_credential", "identity_document", "identity_jose", "identity_core"]
PV = "identity_credential::validator::jwt_presentation_validation::jwt_presentation_validator::JwtPresentationValidator"
PJ = "identity_credential::presentation::jwt_serialization::PresentationJwtClaims"
CORE = "identity_document::document::core_document::CoreDocument"
ITEM = "identity_jose::jws::decoder::JwsValidationItem"
Q = "identity_document::utils::did_url_query::DIDUrlQuery"
TS = "identity_core::common::timestamp::Timestamp"

ACC = re.compile(r"(JwsValidationItem::(nonce|kid)|Url::as_str|CoreDocument::id|IssuanceDateClaims::to_issuance_date|DIDUrl::(did|fragment)|DIDUrlQuery::(did_str|fragment)|CoreDID::as_str|DID::as_str)$")
SEE = re.compile(r"(CoreDID as core::str::traits::FromStr>::from_str|FromStr::from_str|Timestamp::from_unix|::transpose|Box::new|::clone|::into|Into::into|From::from)$")


def run(F, R, tier):
    R.undecided += ["truth of the conjunction on concrete tokens (implied together with C01, C10, C13)", "first-match semantics of resolve_method when two ids differ only in path/query"]
    fn = PV + "::validate"
    h = F.hir(fn)

    # ------------------------------------------------------------------ R1 signature first, on the holder document
    r1 = R.rule("C03-R1", "T2+T3", "validate: Ok dominated by CoreDocument::verify_jws ✓ on the `holder` parameter with options.presentation_verifier_options; claims parsed from the verified payload")
    if r1.anchor(h, fn):
        env = H.Env(h)
        L.require_tried_before_success(r1, F, fn, [("holder.verify_jws", CORE + "::verify_jws"), ("from_json_slice(claims)", re.compile(r"from_json_slice$")),
                                                   ("CoreDID::from_str(iss)", re.compile(r"FromStr>::from_str$|FromStr::from_str$")),
                                                   ("try_into_presentation", PJ + "::try_into_presentation")])
        L.mir_success_dominates(r1, F, fn, CORE + "::verify_jws", "CoreDocument::verify_jws")
        for c in H.calls(h, CORE + "::verify_jws"):
            a = H.call_args(c)
            o = [H.origins(x, env, extra=re.compile(r"Jwt::as_str$")) for x in a]
            r1.site("verify_jws(doc ← %s, jws ← %s, opts ← %s)" % (sorted(map(str, o[0])), sorted(map(str, o[1])), sorted(map(str, o[4]))), c["sp"])
            r1.require(o[0] == {("param", "holder")}, (fn, "verify-doc"), "the JWS is not verified against the holder document: %s" % sorted(map(str, o[0])))
            r1.require(o[1] == {("param", "presentation")}, (fn, "verify-jws"), "the JWS verified is not the presentation parameter")
            r1.require(o[4] == {("param", "options", "presentation_verifier_options")}, (fn, "verify-options"), "verify_jws is not given options.presentation_verifier_options")
            r1.require(o[3] == {("param", "self", "0")}, (fn, "verify-verifier"), "verify_jws is not given the validator's own verifier")
        for c in H.calls(h, re.compile(r"from_json_slice$")):
            oo = H.origins(H.call_args(c)[0], env)
            r1.site("claims parsed from %s" % sorted(map(str, oo)), c["sp"])
            r1.require(oo == {("call", CORE + "::verify_jws", "claims")}, (fn, "claims-source"), "claims are not parsed from the verified DecodedJws.claims: %s" % sorted(map(str, oo)))
    r1.floor(7)

    # ------------------------------------------------------------------ R2 issuer == holder document id
    r2 = R.rule("C03-R2", "T6", "CoreDID::from_str(claims.iss) ✓ and holder_did == holder.id() (full DID equality) dominate Ok")
    if h:
        env = H.Env(h)
        tree, infos = L.exit_infos(h)
        for e in infos:
            if not L.is_success_exit(e):
                continue
            ok = False
            for c in e.conds:
                if c[0] != "if":
                    continue
                rel = H.relation(c[1], env,
                                 lambda o: bool(o) and all(x[0] == "call" and x[1].endswith("from_json_slice") and x[2:3] == ("iss",) for x in o),
                                 lambda o: o == {("param", "holder", "id")},
                                 accessors=ACC, extra=SEE)
                if rel is None:
                    continue
                if (rel == "Ne" and c[2] is False) or (rel == "Eq" and c[2] is True):
                    # the comparison must be on whole DIDs: no component accessor between the values and the operator
                    cc = H.strip(c[1])
                    comps = {f.rsplit("::", 1)[-1] for f in H.called_fns(cc)} & {"method_id", "method", "tag", "network_str", "fragment", "path", "query"}
                    if not comps:
                        ok = True
                        r2.site("Ok guarded by CoreDID(iss) == holder.id()", cc.get("sp"))
                    else:
                        r2.fail((fn, "did-eq-partial"), "the issuer/holder comparison only compares DID components %s, not the whole DID" % sorted(comps), cc.get("sp"))
            r2.require(ok, (fn, "iss-eq-holder-id"), "Ok is reachable without `CoreDID(iss) == holder.id()` having been established (DocumentMismatch check missing or weakened)", e.node.get("sp"))
        for c in H.calls(h, re.compile(r"FromStr>::from_str$|FromStr::from_str$")):
            oo = H.origins(H.call_args(c)[0], env, accessors=ACC, extra=SEE)
            r2.site("holder DID parsed from %s" % sorted(map(str, oo)), c["sp"])
            r2.require(bool(oo) and all(o[0] == "call" and o[1].endswith("from_json_slice") and o[2:] == ("iss", "as_str") for o in oo), (fn, "iss-source"), "the holder DID is not parsed from claims.iss: %s" % sorted(map(str, oo)))
            r2.require("identity_did::did::CoreDID" in (c.get("targs") or []) or "CoreDID" in (H.fn_name(c) or ""), (fn, "iss-type"), "iss is not parsed as a CoreDID")
    r2.floor(2)

    # ------------------------------------------------------------------ R3 dates
    r3 = R.rule("C03-R3", "T6+T2", "exp absent or ≥ earliest_expiry_date; issuance (nbf, else iat) absent or ≤ latest_issuance_date; both `?`-propagated before Ok; conversions through from_unix")
    if h:
        env = H.Env(h)
        tree, infos = L.exit_infos(h)
        checks = {}
        for n in H.walk(H.root(h)):
            if n.get("k") == "match" and n.get("src") == "try":
                inner = H.strip(n["scrut"]["args"][0])
                if inner.get("k") == "mcall" and inner["name"] == "ok_or":
                    r = H.strip(inner["recv"])
                    if r.get("k") == "mcall" and r["name"] in ("then_some", "then"):
                        err = H.err_variant(inner["args"][0]) or ""
                        ev = {H.variant_name(x.get("res", {})) for x in H.walk(inner["args"][0]) if x.get("k") == "path"}
                        which = "exp" if "ExpirationDate" in ev else ("iss" if "IssuanceDate" in ev else None)
                        if which:
                            checks[which] = (r["recv"], n)
        exp_ok = iss_ok = False
        if "exp" in checks:
            cond, node = checks["exp"]
            ds = H.disjuncts(cond)
            is_exp = lambda o: bool(o) and all(x[0] == "call" and x[1].endswith("from_json_slice") and x[2:3] == ("exp",) for x in o)
            none_ok = any(H.strip(d).get("k") == "mcall" and H.strip(d)["name"] == "is_none" and is_exp(H.origins(H.strip(d)["recv"], env, extra=SEE)) for d in ds)
            rels = [H.relation(d, env, is_exp, lambda o: o == {("param", "options", "earliest_expiry_date")}, extra=SEE) for d in ds]
            rels = [x for x in rels if x]
            r3.site("expiry check: absent-ok=%s relation exp %s earliest_expiry_date" % (none_ok, rels), H.strip(cond).get("sp"))
            exp_ok = none_ok and rels == ["Ge"] and len(ds) == 2
        r3.require(exp_ok, (fn, "expiry-predicate"), "the expiry check is not `exp absent ∨ exp ≥ options.earliest_expiry_date` → continue, else ExpirationDate")
        if "iss" in checks:
            cond, node = checks["iss"]
            ds = H.disjuncts(cond)
            NONE_ = ("def", "core::option::Option::None::{ctor}")
            is_iss = lambda o: bool(o - {NONE_}) and all(x[0] == "call" and x[1].endswith("from_json_slice") and x[2:3] == ("issuance_date",) for x in o - {NONE_})
            none_ok = any(H.strip(d).get("k") == "mcall" and H.strip(d)["name"] == "is_none" and is_iss(H.origins(H.strip(d)["recv"], env, extra=SEE, accessors=ACC)) for d in ds)
            rels = [H.relation(d, env, is_iss, lambda o: o == {("param", "options", "latest_issuance_date")}, extra=SEE, accessors=ACC) for d in ds]
            rels = [x for x in rels if x]
            r3.site("issuance check: absent-ok=%s relation issuance %s latest_issuance_date" % (none_ok, rels), H.strip(cond).get("sp"))
            iss_ok = none_ok and rels == ["Le"] and len(ds) == 2
        r3.require(iss_ok, (fn, "issuance-predicate"), "the issuance check is not `issuance absent ∨ issuance ≤ options.latest_issuance_date` → continue, else IssuanceDate")
        # both checks precede every success exit (they are `?` statements in the main sequence)
        for e in infos:
            if L.is_success_exit(e):
                pre_ids = {id(x) for s in e.pre for x in H.unconditional(s)}
                for which in ("exp", "iss"):
                    r3.require(which in checks and id(checks[which][1]) in pre_ids, (fn, "check-precedes-ok", which), "the %s date check does not precede the success exit unconditionally" % which)
        # issuance date is present whenever iat or nbf is: abstract evaluation of the definition
        idef = [n for n in H.walk(H.root(h)) if n.get("k") == "let" and any(b[0] == "issuance_date" for b in H.pat_bindings(n["pat"]))]
        if r3.require(len(idef) == 1, (fn, "issuance-def"), "definition of issuance_date not found"):
            m = H.strip(idef[0]["init"])
            ok_shape = False
            if m.get("k") == "match":
                for arm in m["arms"]:
                    if H.pat_str(arm["pat"]) == "Some(_)":
                        iff = H.find_first({"value": arm["body"]}, lambda n: n.get("k") == "if")
                        if iff is not None:
                            fields = set()
                            for d in H.disjuncts(iff["cond"]):
                                d = H.strip(d)
                                if d.get("k") == "mcall" and d["name"] == "is_some":
                                    for o in H.origins(d["recv"], env, extra=SEE):
                                        fields.add(o[-1])
                            calls_conv = any(f.endswith("to_issuance_date") for f in H.called_fns(iff["then"]))
                            else_none = H.outcome(iff["else"]) == "None" if iff.get("else") else False
                            r3.site("issuance_date defined when %s present → to_issuance_date()?, else None" % sorted(fields), iff["sp"])
                            ok_shape = fields == {"iat", "nbf"} and calls_conv and else_none and len(H.disjuncts(iff["cond"])) == 2
            r3.require(ok_shape, (fn, "issuance-presence"), "issuance_date is not `Some(to_issuance_date()?)` whenever iat OR nbf is present: a token carrying only one of them would skip the issuance check")
        # exp goes through from_unix
        edef = [n for n in H.walk(H.root(h)) if n.get("k") == "let" and any(b[0] == "expiration_date" for b in H.pat_bindings(n["pat"]))]
        if r3.require(len(edef) == 1, (fn, "expiry-def"), "definition of expiration_date not found"):
            fns = H.called_fns(edef[0]["init"])
            r3.require(TS + "::from_unix" in fns and H.try_inner(edef[0]["init"]) is not None, (fn, "exp-from_unix"), "exp is not converted through Timestamp::from_unix(..)? (0000-9999 range gate)")
            r3.site("expiration_date ← from_unix(claims.exp)?", edef[0]["sp"])
    r3.floor(4)

    # ------------------------------------------------------------------ R4/R5 returned values are the signed ones
    r5 = R.rule("C03-R5", "T3", "the returned presentation, header, dates, aud and custom claims derive from the verified claims / protected header")
    if h:
        env = H.Env(h)
        lits = [s for s in H.struct_lits(h) if s.get("ty", "").endswith("DecodedJwtPresentation")]
        if r5.require(len(lits) == 1, (fn, "literal"), "DecodedJwtPresentation literal not found"):
            fl = {f["name"]: H.origins(f["e"], env, extra=SEE, accessors=ACC) for f in lits[0]["fields"]}
            claims = lambda o, *suffix: bool(o) and all(x[0] == "call" and x[1].endswith("from_json_slice") and (not suffix or x[2:2 + len(suffix)] == suffix) for x in o)
            for k, v in fl.items():
                r5.site("result.%s ← %s" % (k, sorted(map(str, v))[:3]))
            r5.require(fl.get("presentation") == {("call", PJ + "::try_into_presentation")}, (fn, "presentation"), "returned presentation is not claims.try_into_presentation()")
            r5.require(fl.get("header") == {("call", CORE + "::verify_jws", "protected")}, (fn, "header"), "returned header is not the verified protected header: %s" % fl.get("header"))
            r5.require(claims(fl.get("aud"), "aud"), (fn, "aud"), "returned aud is not claims.aud: %s" % fl.get("aud"))
            r5.require(claims(fl.get("custom_claims"), "custom"), (fn, "custom"), "returned custom claims are not claims.custom")
            r5.require(claims(fl.get("expiration_date"), "exp"), (fn, "exp"), "returned expiration_date is not derived from claims.exp")
            r5.require(claims(fl.get("issuance_date"), "issuance_date") or all(x[0] == "call" and (x[1].endswith("from_json_slice")) or x == ("def", "core::option::Option::None::{ctor}") for x in fl.get("issuance_date", [("x",)])),
                       (fn, "issuance"), "returned issuance_date is not derived from claims.issuance_date: %s" % fl.get("issuance_date"))
        for c in H.calls(h, PJ + "::try_into_presentation"):
            oo = H.origins(H.call_args(c)[0], env)
            r5.require(bool(oo) and all(o[0] == "call" and o[1].endswith("from_json_slice") for o in oo), (fn, "try_into-recv"), "try_into_presentation is not applied to the verified claims")
    r5.floor(6)

    # ------------------------------------------------------------------ R6 CoreDocument::verify_jws
    r6 = R.rule("C03-R6", "T2+T3+T6+T4", "verify_jws: nonce equality dominates; method query = options.method_id or protected kid; resolve_method(query, options.method_scope) on self; verify(verifier, that key) result returned; DIDUrlQuery::matches table")
    verify_jws_rules(F, r6)


def verify_jws_rules(F, r6):
    vfn = CORE + "::verify_jws"
    vh = F.hir(vfn)
    if r6.anchor(vh, vfn):
        env = H.Env(vh)
        tree, infos = L.exit_infos(vh)
        succ = [e for e in infos if L.is_success_exit(e)]
        for e in succ:
            ok = False
            for c in e.conds:
                if c[0] != "if":
                    continue
                rel = H.relation(c[1], env, lambda o: o == {("call", "identity_jose::jws::decoder::Decoder::decode_compact_serialization", "nonce")}, lambda o: o == {("param", "options", "nonce")}, accessors=ACC)
                if rel and ((rel == "Ne" and c[2] is False) or (rel == "Eq" and c[2] is True)):
                    ok = True
                    r6.site("verify_jws: success guarded by validation_item.nonce() == options.nonce", H.strip(c[1]).get("sp"))
            r6.require(ok, (vfn, "nonce-eq"), "verify_jws can succeed without the full nonce equality having been established", e.node.get("sp"))
            oo = H.origins(e.node, env)
            r6.require(oo == {("call", ITEM + "::verify")}, (vfn, "returns"), "verify_jws does not return the result of JwsValidationItem::verify: %s" % sorted(map(str, oo)))
            tried = {H.fn_name(c) for c in e.tried}
            r6.require(any(t and t.endswith("decode_compact_serialization") for t in tried), (vfn, "decode"), "decode_compact_serialization? does not precede")
            r6.require(any(t and t.endswith("try_public_key_jwk") for t in tried), (vfn, "key"), "key extraction does not precede")
        for c in H.calls(vh, re.compile(r"decode_compact_serialization$")):
            a = H.call_args(c)
            r6.require(H.origins(a[1], env) == {("param", "jws")} and H.origins(a[2], env) == {("param", "detached_payload")}, (vfn, "decode-args"), "the decoder is not given (jws, detached_payload)")
        q = [n for n in H.walk(H.root(vh)) if n.get("k") == "let" and any(b[0] == "method_url_query" for b in H.pat_bindings(n["pat"]))]
        if r6.require(len(q) == 1, (vfn, "query-def"), "method_url_query definition not found"):
            m = H.strip(q[0]["init"])
            if r6.require(m.get("k") == "match" and H.origins(m["scrut"], env) == {("param", "options", "method_id")}, (vfn, "query-table"), "the method query is not selected by a match on options.method_id"):
                for arm in m["arms"]:
                    ps = H.pat_str(arm["pat"])
                    oo = H.origins(arm["body"], env, accessors=ACC)
                    r6.site("method query (%s) ← %s" % (ps, sorted(map(str, oo))), arm["body"].get("sp"))
                    if ps == "Some(_)":
                        r6.require(only(oo, "param", "options", "method_id"), (vfn, "query-some"), "configured method id not used")
                    elif ps == "None":
                        r6.require(oo == {("call", "identity_jose::jws::decoder::Decoder::decode_compact_serialization", "kid")}, (vfn, "query-kid"), "fallback query is not the protected header's kid: %s" % sorted(map(str, oo)))
        kid = F.hir(ITEM + "::kid")
        if r6.anchor(kid, "JwsValidationItem::kid"):
            r6.require(any(f.endswith("JwsValidationItem::protected_header") for f in H.called_fns(H.root(kid))), (ITEM + "::kid", "protected"), "JwsValidationItem::kid does not read the protected header")
        nonce = F.hir(ITEM + "::nonce")
        if r6.anchor(nonce, "JwsValidationItem::nonce"):
            r6.require(any(f.endswith("JwsValidationItem::protected_header") for f in H.called_fns(H.root(nonce))), (ITEM + "::nonce", "protected"), "JwsValidationItem::nonce does not read the protected header")
        for c in H.calls(vh, CORE + "::resolve_method"):
            a = H.call_args(c)
            o = [H.origins(x, env, accessors=ACC) for x in a]
            r6.site("resolve_method(self, query ← %s, scope ← %s)" % (sorted(map(str, o[1])), sorted(map(str, o[2]))), c["sp"])
            r6.require(o[0] == {("param", "self")}, (vfn, "resolve-doc"), "the method is not resolved in this document")
            r6.require(o[2] == {("param", "options", "method_scope")}, (vfn, "resolve-scope"), "resolve_method is not given options.method_scope")
            r6.require(all(x[:3] == ("param", "options", "method_id") or x == ("call", "identity_jose::jws::decoder::Decoder::decode_compact_serialization", "kid") for x in o[1]) and len(o[1]) == 2, (vfn, "resolve-query"), "resolve_method is not given the selected query")
        for c in H.calls(vh, ITEM + "::verify"):
            a = H.call_args(c)
            o = [H.origins(x, env, extra=re.compile(r"(resolve_method|::data|try_public_key_jwk)$")) for x in a]
            r6.require(o[1] == {("param", "signature_verifier")}, (vfn, "verifier"), "the caller's verifier is not used")
            r6.require(has(o[2], "param", "self") and all(x[:2] in (("param", "self"), ("param", "options")) or (x[0] == "call" and x[1].endswith("::kid")) for x in o[2]), (vfn, "key-source"), "the verifying key does not come from this document's resolved method: %s" % sorted(map(str, o[2])))
            r6.site("validation_item.verify(signature_verifier, key of resolved method)", c["sp"])
    # DIDUrlQuery::matches
    mfn = Q + "::matches"
    mh = F.hir(mfn)
    if r6.anchor(mh, mfn):
        env = H.Env(mh)
        gs = []
        for n in H.walk(H.root(mh)):
            if n.get("k") == "if" and H.strip(n["cond"]).get("k") == "letexpr":
                inner_g = L.block_guards(n["then"])
                for cond, oc, node in inner_g:
                    rel = H.relation(cond, env, lambda o: only(o, "param", "self", "did_str"), lambda o: only(o, "param", "did_url", "did"), accessors=ACC)
                    lits = H.literals(node["then"])
                    gs.append((rel, lits))
                    r6.site("matches: did_str %s did_url.did() → return %s" % (rel, lits), node["sp"])
        r6.require(("Ne", [False]) in gs, (mfn, "did-eq"), "DIDUrlQuery::matches does not return false when the query's DID differs from the entry's DID")
        m = H.find_first(mh, lambda n: n.get("k") == "match" and n.get("src") == "normal")
        okf = False
        if m is not None:
            so = H.origins(m["scrut"], env, accessors=ACC, extra=re.compile(r"Option::zip$"))
            zipped = H.strip(m["scrut"])
            both = zipped.get("k") == "mcall" and zipped["name"] == "zip"
            t = {}
            for arm in m["arms"]:
                ps = H.pat_str(arm["pat"])
                b = H.strip(arm["body"])
                t[ps] = ("eq" if b.get("k") == "binary" and b.get("op") == "Eq" else str(H.literals(b)))
            r6.site("matches: fragments %s" % t, m["sp"])
            okf = both and t.get("Some((_, _))") == "eq" and t.get("None") == "[False]"
            if both:
                ro = H.origins(zipped["recv"], env, accessors=ACC) | H.origins(zipped["args"][0], env, accessors=ACC)
                okf = okf and has(ro, "param", "self", "fragment") and has(ro, "param", "did_url", "fragment")
        r6.require(okf, (mfn, "fragment-eq"), "DIDUrlQuery::matches does not require both fragments to be present and equal")
    r6.floor(7)
