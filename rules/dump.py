"""Debug helper: python3 rules/dump.py <regex> [mir|hir]"""
import json, os, sys
sys.path.insert(0, os.path.dirname(os.path.abspath(__file__)))
import extract
from facts import Facts

def fmt_place(p):
    if isinstance(p, int): return "_%d" % p
    s = "_%d" % p["l"]
    for e in p["p"]:
        if e == "*": s = "(*%s)" % s
        elif isinstance(e, dict) and "f" in e: s += "." + e["f"]
        elif isinstance(e, dict) and "as" in e: s = "(%s as %s)" % (s, e["as"])
        elif isinstance(e, dict) and "idx" in e: s += "[_%d]" % e["idx"]
        else: s += "[%s]" % json.dumps(e)
    return s

def fmt_op(o):
    if "cp" in o: return fmt_place(o["cp"])
    if "mv" in o: return "move " + fmt_place(o["mv"])
    c = o["c"]
    for k in ("int", "str", "bool", "def", "fn"):
        if k in c: return "const %s" % json.dumps(c[k])
    if "promoted" in c: return "promoted[%d]" % c["promoted"]
    return "const<%s>" % c.get("ty")

def fmt_rv(rv):
    k = rv["k"]
    if k == "use": return fmt_op(rv["op"])
    if k == "ref": return "&%s%s" % ("mut " if rv["mut"] else ("fake " if rv.get("fake") else ""), fmt_place(rv["place"]))
    if k == "binop": return "%s(%s, %s)" % (rv["op"], fmt_op(rv["a"]), fmt_op(rv["b"]))
    if k == "unop": return "%s(%s)" % (rv["op"], fmt_op(rv["a"]))
    if k == "discr": return "discr(%s)" % fmt_place(rv["place"])
    if k == "cast": return "%s as %s [%s]" % (fmt_op(rv["op"]), rv["ty"], rv["ck"])
    if k == "agg":
        if rv["ak"] == "adt": return "%s::%s{%s}" % (rv["adt"].rsplit("::",1)[-1], rv["variant"], ", ".join("%s: %s" % (f, fmt_op(o)) for f, o in zip(rv["fields"], rv["ops"])))
        return "%s%s(%s)" % (rv["ak"], (" " + rv["def"]) if "def" in rv else "", ", ".join(fmt_op(o) for o in rv["ops"]))
    return json.dumps(rv)

def dump_mir(path, m):
    print("fn %s  args=%d coroutine=%s" % (path, m["arg_count"], m["coroutine"]))
    for i, l in enumerate(m["locals"]):
        if l.get("name"): print("   _%d: %s  // %s" % (i, l["ty"], l["name"]))
    for i, b in enumerate(m["blocks"]):
        if b["cleanup"]: continue
        print(" bb%d:" % i)
        for s in b["s"]:
            if s["k"] == "assign": print("    %s = %s   // L%d" % (fmt_place(s["dst"]), fmt_rv(s["rv"]), s["ln"]))
            elif s["k"] == "setdiscr": print("    setdiscr")
        t = b["t"]; k = t["k"]
        if k == "call":
            print("    %s = %s(%s) -> bb%s   // %s%s" % (fmt_place(t["dst"]), t.get("resolved") or t.get("fn") or ("indirect " + fmt_op(t["indirect"])), ", ".join(fmt_op(a) for a in t["args"]), t["target"], t["sp"].rsplit("/",1)[-1], " [exp]" if t["exp"] else ""))
        elif k == "switch": print("    switch %s %s otherwise bb%d" % (fmt_op(t["discr"]), t["targets"], t["otherwise"]))
        elif k == "assert": print("    assert(%s == %s, %s) -> bb%d" % (fmt_op(t["cond"]), t["expected"], t["msg"], t["target"]))
        elif k == "drop": print("    drop(%s) -> bb%d" % (fmt_place(t["place"]), t["target"]))
        elif k in ("goto", "falseedge", "falseunwind", "yield"): print("    %s -> bb%d" % (k, t["target"]))
        else: print("    %s" % k)

if __name__ == "__main__":
    import re
    d, st = extract.extract()
    F = Facts(d)
    what = sys.argv[2] if len(sys.argv) > 2 else "mir"
    for p in F.find(sys.argv[1]):
        b = F.bodies[p]
        if what == "mir" and b.get("mir"): dump_mir(p, b["mir"])
        elif what == "hir" and b.get("hir"): print(p); print(json.dumps(b["hir"], indent=1))
        elif what == "list": print(p, b["kind"], b["span"])
