"""Fact extraction: run the factdrv driver over /repo's current working tree (content-hash cached)."""
import hashlib
import json
import os
import shutil
import subprocess
import sys
import time

VERIF = os.path.dirname(os.path.dirname(os.path.abspath(__file__)))
REPO = os.environ.get("VERIF_REPO", "/repo")
WORK = os.environ.get("VERIF_WORK", os.path.join(VERIF, ".work"))
DRV_TARGET = os.path.join(WORK, "factdrv-target")
DRV = os.path.join(DRV_TARGET, "release", "factdrv")

WORKSPACE_CRATES = [
    "identity_core", "identity_credential", "identity_did", "identity_document", "identity_ecdsa_verifier",
    "identity_eddsa_verifier", "identity_iota", "identity_iota_core", "identity_jose", "identity_resolver",
    "identity_storage", "identity_stronghold", "identity_verification",
]

# configuration name -> cargo arguments (run from the workspace root)
CONFIGS = {
    # features unified exactly as the baseline `cargo test --workspace` does
    "workspace": ["--workspace", "--lib"],
    # every cargo feature of every member (custom_time, optional storage back ends, …); thorough tier
    "allfeatures": ["--workspace", "--lib", "--all-features"],
}


def sysroot():
    return subprocess.check_output(["rustc", "+nightly", "--print", "sysroot"], text=True).strip()


def build_driver(quiet=True):
    env = dict(os.environ, CARGO_NET_OFFLINE="true", CARGO_TARGET_DIR=DRV_TARGET)
    src = os.path.join(VERIF, "factdrv")
    newest = 0.0
    for root, _, files in os.walk(src):
        for f in files:
            newest = max(newest, os.path.getmtime(os.path.join(root, f)))
    if os.path.exists(DRV) and os.path.getmtime(DRV) >= newest:
        return
    r = subprocess.run(["cargo", "+nightly", "build", "--release", "--offline"], cwd=src, env=env,
                       stdout=subprocess.PIPE, stderr=subprocess.STDOUT, text=True)
    if r.returncode != 0:
        sys.stderr.write(r.stdout)
        raise SystemExit("factdrv build failed")


def tree_hash(repo=REPO):
    """Content hash of every file that can influence compilation of the workspace."""
    h = hashlib.sha256()
    paths = []
    for root, dirs, files in os.walk(repo):
        dirs[:] = sorted(d for d in dirs if d not in ("target", ".git", "node_modules", "bindings"))
        for f in sorted(files):
            if f.endswith(".rs") or f in ("Cargo.toml", "Cargo.lock", "rust-toolchain.toml", "build.rs", "config.toml"):
                paths.append(os.path.join(root, f))
    for p in paths:
        h.update(os.path.relpath(p, repo).encode())
        h.update(b"\0")
        with open(p, "rb") as fh:
            h.update(fh.read())
        h.update(b"\0")
    with open(DRV, "rb") as fh:
        h.update(hashlib.sha256(fh.read()).digest())
    return h.hexdigest()


def _run_cargo(config, facts_dir, target_dir, repo):
    env = dict(os.environ)
    env.update({
        "CARGO_NET_OFFLINE": "true",
        "LD_LIBRARY_PATH": os.path.join(sysroot(), "lib") + ":" + env.get("LD_LIBRARY_PATH", ""),
        "RUSTFLAGS": "-Zmir-opt-level=0 -Awarnings",
        "RUSTC_WORKSPACE_WRAPPER": DRV,
        "FACTDRV_OUT": facts_dir,
        "CARGO_TARGET_DIR": target_dir,
        "CARGO_INCREMENTAL": "0",   # members are always re-checked (the driver must run); incremental caches only cost disk
    })
    env.pop("RUSTC_WRAPPER", None)
    cmd = ["cargo", "+nightly", "check", "--offline"] + CONFIGS[config]
    return subprocess.run(cmd, cwd=repo, env=env, stdout=subprocess.PIPE, stderr=subprocess.STDOUT, text=True)


def extract(config="workspace", repo=REPO, work=WORK, force=False, facts_name=None):
    """Returns (facts_dir, info). Re-extracts unless the content hash of the tree is unchanged."""
    build_driver()
    t0 = time.time()
    os.makedirs(work, exist_ok=True)
    th = tree_hash(repo)
    facts_dir = os.path.join(work, facts_name or ("facts-" + config))
    stamp = os.path.join(facts_dir, "STAMP.json")
    if not force and os.path.exists(stamp):
        try:
            st = json.load(open(stamp))
            if st.get("tree_hash") == th and all(os.path.exists(os.path.join(facts_dir, c + ".json")) for c in WORKSPACE_CRATES):
                st["cache_hit"] = True
                st["wall_s"] = round(time.time() - t0, 2)
                return facts_dir, st
        except Exception:
            pass
    # lock: one extraction at a time per work dir
    import fcntl
    lock = open(os.path.join(work, "extract.lock"), "w")
    fcntl.flock(lock, fcntl.LOCK_EX)
    try:
        if not force and os.path.exists(stamp):
            try:
                st = json.load(open(stamp))
                if st.get("tree_hash") == th:
                    st["cache_hit"] = True
                    st["wall_s"] = round(time.time() - t0, 2)
                    return facts_dir, st
            except Exception:
                pass
        target_dir = os.path.join(work, "target")
        # cargo's freshness cache would skip the wrapper: drop the workspace members' fingerprints
        fp = os.path.join(target_dir, "debug", ".fingerprint")
        if os.path.isdir(fp):
            for d in os.listdir(fp):
                if d.startswith("identity_") or d.startswith("examples-"):
                    shutil.rmtree(os.path.join(fp, d), ignore_errors=True)
        shutil.rmtree(facts_dir, ignore_errors=True)
        os.makedirs(facts_dir)
        r = _run_cargo(config, facts_dir, target_dir, repo)
        if r.returncode != 0:
            sys.stderr.write(r.stdout[-6000:])
            raise SystemExit("fact extraction failed: the tree does not compile under `cargo +nightly check %s`" % " ".join(CONFIGS[config]))
        missing = [c for c in WORKSPACE_CRATES if not os.path.exists(os.path.join(facts_dir, c + ".json"))]
        if missing:
            sys.stderr.write(r.stdout[-3000:])
            raise SystemExit("fact extraction incomplete, no fact file for: %s" % missing)
        st = {"tree_hash": th, "config": config, "cargo_args": CONFIGS[config], "cache_hit": False,
              "extract_wall_s": round(time.time() - t0, 2)}
        json.dump(st, open(stamp, "w"))
        st["wall_s"] = st["extract_wall_s"]
        return facts_dir, st
    finally:
        fcntl.flock(lock, fcntl.LOCK_UN)
        lock.close()


if __name__ == "__main__":
    d, st = extract(force="--force" in sys.argv)
    print(d, st)
