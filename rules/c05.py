"""C05 — no parser, decoder or validator panics on externally supplied data.

T8 panic inventory over the pre-borrowck MIR of every non-test body of the library crates: every `Assert` terminator that can
fail at run time, every call to a diverging function / `core::panicking` entry, every call to an API of the frozen panic-API
table and every call to a dependency function known to panic must be discharged by exactly one class:

  CONST      the outcome depends on literals/consts only (constant folding of the assert condition / constant call arguments)
  INTERVAL   an upper-bound analysis of the operands (types, `% c`, `/ c`, `len()` <= isize::MAX) proves the assert
  TOTAL      the call cannot fail by its type (`x[..]`, `Result<_, Infallible>::unwrap`)
  GUARD      a structural guard checked on the HIR dominates the site (condition tied to the site's own operands)
  GATE       the invariant is established by a constructor gate checked here (R2)
  RULE       the invariant is established by rules of another property, which are run and must pass
  REVIEWED   frozen human judgement, one line each, with the number of sites it covers in that function

Anything else — a new site in a reviewed function included — is a violation keyed (function, construct).
"""
import importlib
import json
import os
import re

import hir as H
import rulelib as L
import mir as M
from report import Reporter, VERIF
from rulelib import short, require_tried_before_success

CRATES = None

LIB_EXCLUDE_CRATES = ("examples",)
EXCLUDED_MODULES = [
    ("identity_iota_core::client::", "network client: inputs are node responses and builder arithmetic on protocol counters, not a parser/decoder entry point"),
]

PANIC_API = re.compile(
    r"^(core::option::Option::(unwrap|expect)|core::result::Result::(unwrap|expect|unwrap_err|expect_err)"
    r"|.*::Index(Mut)?(<.*>)?(>)?::index(_mut)?"
    r"|\[T\]::(split_at|split_at_mut|copy_from_slice|clone_from_slice|chunks|chunks_exact|windows|swap|rotate_left|rotate_right)"
    r"|str::(split_at|split_at_mut)"
    r"|alloc::vec::Vec::(remove|insert|swap_remove|drain|split_off)"
    r"|alloc::string::String::(remove|insert|insert_str|drain|replace_range|split_off)"
    r"|core::cell::RefCell::(borrow|borrow_mut)"
    r"|.*GenericArray.*::(from_slice|clone_from_slice|from_mut_slice)"
    r"|.*OffsetDateTime::(to_offset|replace_.*)"
    r"|<time::.* as core::ops::arith::(Add|Sub)<.*>>::(add|sub)"
    r"|core::iter::traits::iterator::Iterator::step_by"
    r"|core::num::<impl .*>::from_str_radix|core::char::methods::<impl char>::from_digit"
    r"|alloc::boxed::Box::leak|std::process::(exit|abort)"
    r"|core::slice::<impl \[T\]>::.*)$")
# dependency functions confirmed (by reading the dependency and by probe) to panic on some input
DEP_PANIC = re.compile(r"^(did_url_parser::did::DID::parse)$")
ASSERT_KINDS = ("BoundsCheck", "Overflow", "OverflowNeg", "DivisionByZero", "RemainderByZero")

U64 = (1 << 64) - 1
ISIZE_MAX = (1 << 63) - 1
TY_MAX = {"u8": 255, "u16": 65535, "u32": (1 << 32) - 1, "u64": U64, "usize": U64, "bool": 1}


class Site:
    def __init__(self, fn, kind, what, full, sp, bi, term, body):
        self.fn, self.kind, self.what, self.full, self.sp, self.bi, self.term, self.body = fn, kind, what, full, sp, bi, term, body
        self.cls = None
        self.why = None

    @property
    def parent(self):
        return re.sub(r"(::\{closure#\d+\})+$", "", self.fn)

    @property
    def key_fn(self):
        """Function key without closures (`f::{closure#2}` → `f`): moving an expression into or out of a closure of the same function, or
        adding an unrelated closure, must not re-key a site."""
        return re.sub(r"(::\{closure#\d+\})+", "", self.fn)

    def where(self):
        return self.sp


def api_short(nm):
    if re.search(r"::Index(Mut)?(<.*>)?(>)?::index(_mut)?$", nm):
        return "Index::index"
    base = re.sub(r"<[^<>]*>", "", nm)
    base = re.sub(r"<[^<>]*>", "", base)
    parts = [p for p in base.split("::") if p]
    return "::".join(parts[-2:])


def inventory(F):
    sites = []
    excluded = []
    for p, b in F.fn_bodies(crates=[c for c in F.crates if c not in LIB_EXCLUDE_CRATES]):
        if F.derived_trait_of(p):
            continue
        ex = next((r for pre, r in EXCLUDED_MODULES if p.startswith(pre) or ("<" in p and pre in p)), None)
        body = None
        for bi, blk in enumerate(b["mir"]["blocks"]):
            if blk["cleanup"]:
                continue
            t = blk["t"]
            s = None
            if t["k"] == "assert" and t["msg"].split("(")[0] in ASSERT_KINDS:
                s = ("assert", t["msg"], t["msg"])
            elif t["k"] == "call":
                nm = t.get("fn") or ""
                if DEP_PANIC.match(nm):
                    s = ("dep", nm, nm)
                elif t.get("diverges") or nm.startswith("core::panicking") or nm.startswith("std::rt::begin_panic") or t.get("target") is None:
                    s = ("diverge", "panic!", nm or "?")
                elif PANIC_API.match(nm):
                    s = ("api", api_short(nm), nm)
                elif "collect" in nm and any("GenericArray" in x for x in t.get("targs", [])):
                    s = ("api", "collect->GenericArray", nm)
            if s is None:
                continue
            if ex:
                excluded.append((p, s[1], t.get("sp")))
                continue
            if body is None:
                body = M.Body(p, b["mir"])
            sites.append(Site(p, s[0], s[1], s[2], t.get("sp"), bi, t, body))
    return sites, excluded


# ---------------------------------------------------------------------------------------------------------------------------
# automatic classes

def _stmt_def_in_block(body, bi, local):
    for s in reversed(body.raw["blocks"][bi]["s"]):
        if s.get("k") == "assign" and M.place_local(s["dst"]) == local and not M.place_proj(s["dst"]):
            return s
    return None


def _is_const_op(op):
    return isinstance(op, dict) and "c" in op


_EB = {}


def _const_int(site, c):
    """Integer value of a MIR constant operand: a literal, or a named const folded from its initialiser."""
    if "int" in c:
        return int(c["int"])
    if "def" in c and _EB.get("eb") is not None:
        return _EB["eb"].const_int(c["def"])
    return None


def auto_const_fold(site):
    """assert whose condition is computed from constants only."""
    if site.kind != "assert":
        return None
    t = site.term
    if t["msg"].startswith("Overflow") and all(_is_const_op(o) for o in t.get("ops", [])):
        return "both operands are compile-time constants (%s)" % ", ".join(str(o["c"].get("int", o["c"].get("def", "?"))).split("::")[-2 if "def" in o["c"] else -1] for o in t["ops"])
    cl = M.op_local(t["cond"])
    if cl is not None and not M.place_proj(M.op_place(t["cond"])):
        d = _stmt_def_in_block(site.body, site.bi, cl)
        if d and d["rv"]["k"] == "binop" and _is_const_op(d["rv"]["a"]) and _is_const_op(d["rv"]["b"]):
            a, b = (_const_int(site, x["c"]) for x in (d["rv"]["a"], d["rv"]["b"]))
            if d["rv"]["op"] == "Eq" and a is not None and b is not None:
                if (a == b) != bool(t["expected"]):
                    return None
                return "condition `%s == %s` is constant and never fails" % (a, b)
    return None


class Bounds:
    """Upper bounds of unsigned integer expressions built by mir.ExprBuilder."""

    def __init__(self, F):
        self.F = F
        self.eb = M.ExprBuilder(F, inline_depth=2)

    def ub(self, e):
        k = e[0]
        if k == "const":
            return e[1] if e[1] >= 0 else None
        if k == "param":
            return TY_MAX.get(e[2])
        if k == "cast":
            inner = self.ub(e[1])
            tm = TY_MAX.get(e[2])
            if inner is None:
                return tm
            return min(inner, tm) if tm is not None else inner
        if k == "bin":
            op, a, b = e[1], e[2], e[3]
            ua, ubb = self.ub(a), self.ub(b)
            if op == "Rem" and b[0] == "const" and b[1] > 0:
                return b[1] - 1
            if op == "Div" and b[0] == "const" and b[1] > 0 and ua is not None:
                return ua // b[1]
            if op == "BitAnd":
                c = [x for x in (ua, ubb) if x is not None]
                return min(c) if c else None
            if op in ("Add", "AddWithOverflow") and ua is not None and ubb is not None:
                return ua + ubb
            if op in ("Mul", "MulWithOverflow") and ua is not None and ubb is not None:
                return ua * ubb
            if op in ("Eq", "Ne", "Lt", "Le", "Gt", "Ge"):
                return 1
            if op == "Shr" and ua is not None:
                return ua
            return None
        if k == "call":
            nm = e[1] or ""
            if re.search(r"(^|::)(alloc::vec::Vec|\[T\]|str|alloc::string::String|core::slice::<impl \[T\]>|core::str::<impl str>)::len$", nm):
                return ISIZE_MAX
            # lossless widening (`usize::from(x)`, `u64::from(x)`, `x.into()`): the bound of the argument carries over
            if re.search(r"core::convert::(From<(u8|u16|u32)>>::from|From::from|Into::into|Into<.*>>::into)$", nm) and len(e) > 2 and len(e[2]) == 1:
                inner = self.ub(e[2][0])
                if inner is not None:
                    return inner
            return TY_MAX.get(e[3]) if len(e) > 3 and e[3] in ("u8", "u16", "u32") else None
        if k == "named":
            return TY_MAX.get(e[2]) if e[2] in ("u8", "u16", "u32") else None
        return None

    def expr_of(self, body, op):
        return self.eb.operand(body, op, None, 0, frozenset())


def auto_interval(site, bounds):
    if site.kind != "assert":
        return None
    t = site.term
    msg = t["msg"]
    ops = t.get("ops", [])
    if msg in ("Overflow(Add)", "Overflow(Mul)") and len(ops) == 2:
        # result type = type of the with-overflow tuple's field 0
        cl = M.op_place(t["cond"])
        ty = None
        for pe in M.place_proj(cl):
            if isinstance(pe, dict) and "of" in pe:
                ty = pe["of"].strip("()").split(",")[0].strip()
        tm = TY_MAX.get(ty)
        if tm is None:
            return None
        ua, ub_ = (bounds.ub(bounds.expr_of(site.body, o)) for o in ops)
        if ua is None or ub_ is None:
            return None
        tot = ua + ub_ if msg == "Overflow(Add)" else ua * ub_
        if tot <= tm:
            return "operand upper bounds %d and %d cannot exceed %s::MAX" % (ua, ub_, ty)
        return None
    if msg in ("Overflow(Shr)", "Overflow(Shl)") and len(ops) == 2:
        lhs_ty = ops[0].get("c", {}).get("ty") if _is_const_op(ops[0]) else None
        if lhs_ty is None:
            l = M.op_local(ops[0])
            lhs_ty = site.body.locals[l]["ty"] if l is not None else None
        bits = M.INT_BITS.get(lhs_ty)
        u = bounds.ub(bounds.expr_of(site.body, ops[1]))
        if bits and u is not None and u < bits:
            return "shift amount is at most %d (< %d bits of %s)" % (u, bits, lhs_ty)
    return None


def auto_guard_sub(site):
    """`x - c` (c a constant) whose block is reached only through the true edge of a comparison of the same place that implies x >= c
    (`x > k`, `x >= k`, `x != 0`, or the false edge of `x == 0` / `x < k` / `x <= k`), with no write to x and no call in between."""
    if site.kind != "assert" or site.term.get("msg") != "Overflow(Sub)":
        return None
    ops = site.term.get("ops", [])
    if len(ops) != 2 or not _is_const_op(ops[1]):
        return None
    c = ops[1]["c"].get("int")
    x = ops[0].get("cp") if isinstance(ops[0], dict) else None
    if not isinstance(c, int) or x is None:
        return None
    body = site.body
    preds = body.preds()

    def writes(stmts):
        return any(st.get("k") == "assign" and st.get("dst") == x for st in stmts)
    cur = site.bi
    if writes(body.blocks[cur].get("s", [])):
        return None
    for _ in range(4):
        ps = preds[cur]
        if len(ps) != 1:
            return None
        p_ = ps[0]
        t = body.blocks[p_]["t"]
        if t["k"] == "goto":
            if writes(body.blocks[p_].get("s", [])):
                return None
            cur = p_
            continue
        if t["k"] != "switch":
            return None
        d = t["discr"].get("mv", t["discr"].get("cp"))
        zero_edge = any(v == 0 and tgt == cur for v, tgt in t["targets"])
        true_edge = t["otherwise"] == cur and len(t["targets"]) == 1 and t["targets"][0][0] == 0 and not zero_edge
        if not (zero_edge or true_edge):
            return None
        stmts = body.blocks[p_].get("s", [])
        cmp_i = next((i for i in range(len(stmts) - 1, -1, -1) if stmts[i].get("k") == "assign" and stmts[i].get("dst") == d and stmts[i]["rv"].get("k") == "binop"), None)
        if cmp_i is None or writes(stmts[cmp_i + 1:]):
            return None
        rv = stmts[cmp_i]["rv"]
        a_, b_ = rv["a"], rv["b"]

        def is_x(o):
            if not isinstance(o, dict):
                return False
            if o.get("cp") == x or o.get("mv") == x:
                return True
            # a temporary holding a copy of x taken earlier in the same block (x not written since)
            l_ = o.get("mv", o.get("cp"))
            if isinstance(l_, int):
                for j in range(cmp_i - 1, -1, -1):
                    st_ = stmts[j]
                    if st_.get("k") == "assign" and st_.get("dst") == l_:
                        src_ = st_["rv"].get("op", {}) if st_["rv"].get("k") == "use" else {}
                        return (src_.get("cp") == x or src_.get("mv") == x) and not writes(stmts[j + 1:])
            return False

        def kst(o):
            return o["c"].get("int") if _is_const_op(o) else None
        op = rv["op"]
        if is_x(b_) and kst(a_) is not None:      # `k op x`  →  `x op' k`
            a_, b_ = b_, a_
            op = {"Lt": "Gt", "Le": "Ge", "Gt": "Lt", "Ge": "Le"}.get(op, op)
        k = kst(b_)
        if not is_x(a_) or not isinstance(k, int):
            return None
        if true_edge:
            ok = (op == "Gt" and k >= c - 1) or (op == "Ge" and k >= c) or (op == "Ne" and k == 0 and c == 1)
        else:
            ok = (op == "Eq" and k == 0 and c == 1) or (op == "Lt" and k >= c) or (op == "Le" and k >= c - 1)
        return ("dominated by `%s %s %d` on the %s edge, no write in between" % ("x", {"Gt": ">", "Ge": ">=", "Ne": "!=", "Eq": "==", "Lt": "<", "Le": "<="}[op], k, "true" if true_edge else "false")) if ok else None
    return None


def auto_total(site):
    t = site.term
    if site.kind != "api":
        return None
    targs = t.get("targs", [])
    if site.what == "Index::index" and any(x.endswith("RangeFull") for x in targs):
        return "`x[..]` (RangeFull) cannot fail"
    if site.what in ("Result::unwrap", "Result::expect") and any(x == "core::convert::Infallible" for x in targs):
        return "the error type is Infallible"
    return None


CONST_CALL_OK = re.compile(r"(::parse$|::from_str$|::new$|::try_from$|::from$|::into$|^str::|^core::str::|::to_string$|::to_owned$)")


def auto_const_args(site):
    """`f(<constants>).unwrap()`: the unwrapped value is the direct result of a call whose arguments are all constants."""
    if site.kind != "api" or site.what not in ("Option::unwrap", "Option::expect", "Result::unwrap", "Result::expect"):
        return None
    body = site.body
    a0 = site.term["args"][0]
    seen = 0
    cur = a0
    while seen < 6:
        seen += 1
        if _is_const_op(cur):
            return "receiver is a constant"
        l = M.op_local(cur)
        if l is None or M.place_proj(M.op_place(cur)):
            return None
        root, _ = M.resolve_value(body, l)
        if root[0] == "const":
            return "receiver is a constant"
        if root[0] != "call":
            return None
        call = root[1]
        nm = M.callee(call) or ""
        if not CONST_CALL_OK.search(nm):
            return None
        args = call.get("args", [])
        if not args:
            return None
        if all(_is_const_op(a) for a in args):
            return "`%s(<constants>)`: the outcome does not depend on input" % short(nm)
        if len(args) == 1:
            cur = args[0]
            continue
        nonconst = [a for a in args if not _is_const_op(a)]
        if len(nonconst) == 1:
            cur = nonconst[0]
            continue
        return None
    return None


# ---------------------------------------------------------------------------------------------------------------------------
# HIR helpers for guards

class FnCtx:
    def __init__(self, F, fn):
        self.F, self.fn = F, fn
        self.h = F.hir(fn)
        self.tree = H.Tree(self.h) if self.h else None
        self.nodes = list(H.walk(H.root(self.h))) if self.h else []

    def node_for(self, site):
        """HIR node of a MIR site: same start span, compatible construct."""
        cands = [n for n in self.nodes if site.sp in (n.get("fsp"), n.get("sp"))]
        if site.kind in ("api", "dep"):
            full = site.full
            best = [n for n in cands if n.get("k") in ("call", "mcall") and full in (n.get("fn"), n.get("resolved"))]
            if not best and site.what == "Index::index":
                best = [n for n in cands if n.get("k") == "index"]
            if not best and site.what == "collect->GenericArray":
                best = [n for n in cands if n.get("k") == "mcall" and n.get("name") == "collect"]
            return best[0] if best else None
        if site.kind == "assert" and site.what == "BoundsCheck":
            best = [n for n in cands if n.get("k") == "index"]
            return best[0] if best else None
        if site.kind == "diverge":
            best = [n for n in cands if n.get("k") in ("call", "mcall")]
            return best[0] if best else (cands[0] if cands else None)
        return cands[0] if cands else None

    def conds(self, node):
        """Set of canonical condition strings that hold when `node` is evaluated."""
        out = set()
        for c in self.tree.path_conditions(node):
            if c[0] == "if":
                if c[1].get("exp"):
                    continue
                if c[2]:
                    for x in H.conjuncts(c[1]):
                        out.add(H.show(x))
                else:
                    for x in H.disjuncts(c[1]):
                        out.add("!" + H.show(x))
            elif c[0] == "arm":
                m, i = c[1], c[2]
                out.add("arm:%s@%s" % (H.pat_str(m["arms"][i]["pat"]), H.show(m["scrut"])))
        return out


def g_len_eq_1(ctx, site, node):
    rootn = H.show(H.chain_root(node))
    want = "(%s.len() == 1)" % rootn
    return None if want in ctx.conds(node) else "no dominating `%s`" % want


def g_index_lt_len(ctx, site, node):
    recv, idx = H.show(node["recv"]), H.show(node["args"][0])
    want = "(%s < %s.len())" % (idx, recv)
    return None if want in ctx.conds(node) else "no dominating `%s`" % want


def g_const_index_len(ctx, site, node):
    base = H.show(node["base"])
    idx = H.strip(node["idx"])
    need = None
    if idx.get("k") == "lit" and isinstance(idx.get("v"), dict) and "int" in idx["v"]:
        need = int(idx["v"]["int"]) + 1
    elif idx.get("k") == "struct" and (idx.get("res", {}).get("def") or "").endswith("::Range"):
        fs = {f["name"]: H.strip(f["e"]) for f in idx.get("fields", [])}
        lo, hi = fs.get("start"), fs.get("end")
        if lo and hi and lo.get("k") == hi.get("k") == "lit" and int(lo["v"]["int"]) <= int(hi["v"]["int"]):
            need = int(hi["v"]["int"])
    if need is None:
        return "index is not a constant or constant range"
    for c in ctx.conds(node):
        m = re.match(r"^!\(%s\.len\(\) != (\d+)\)$" % re.escape(base), c) or re.match(r"^\(%s\.len\(\) == (\d+)\)$" % re.escape(base), c)
        if m and int(m.group(1)) >= need:
            return None
        m = re.match(r"^!\(%s\.len\(\) < (\d+)\)$" % re.escape(base), c)
        if m and int(m.group(1)) >= need:
            return None
    return "no dominating length test on `%s` covering %d element(s)" % (base, need)


def g_sym_index(ctx, site, node):
    """By abstract evaluation of the whole function: on every path, each `base[i]` / `base[a..b]` with constant bounds is evaluated
    only after the path's decisions established a length of `base` that covers it (`len == N`, `len >= N`, `!(len < N)`, …)."""
    import sym as SY
    import symrules as SR
    try:
        paths = SY.Evaluator(ctx.F, inline_depth=3).explore(ctx.fn, max_paths=2000)
    except (SY.Abort, SY.TooManyPaths) as e:
        return "the function could not be evaluated abstractly: %s" % e
    seen = 0
    for q in paths:
        for e in q.events:
            if e.kind != "index":
                continue
            b, i = e.args
            if isinstance(i, int) and not isinstance(i, bool):
                need = i + 1
            elif isinstance(i, SY.St) and i.ty.startswith("core::ops::range::Range"):
                hi, lo = i.f.get("end"), i.f.get("start", 0)
                if hi is None:
                    need = lo if isinstance(lo, int) else None
                else:
                    need = (hi + (1 if i.ty.endswith("Inclusive") else 0)) if isinstance(hi, int) else None
                if isinstance(lo, int) and isinstance(hi, int) and lo > hi:
                    return "constant range %d..%d is reversed" % (lo, hi)
            else:
                need = None
            if need is None:
                return "index `%s` is not a constant or constant range" % (i,)
            seen += 1
            bt = SY.term(b)

            def is_len(t_):
                return isinstance(t_, tuple) and t_[:1] == ("call",) and re.sub(r"<[^<>]*>", "", t_[1]).endswith("::len") and len(t_[2]) == 1 and SR.pure(t_[2][0], bt, conv=re.compile(r"(as_ref|as_slice|deref|borrow|as_bytes|as_str)$"))
            ok = False
            for (a, c, _, _) in q.decisions[:e.nd]:
                if a[0] == "eq" and c:
                    for x, y in ((a[1], a[2]), (a[2], a[1])):
                        if is_len(x) and isinstance(y, tuple) and y[:1] == ("lit",) and isinstance(y[1], int) and y[1] >= need:
                            ok = True
            if not ok:
                class _P:      # the decisions made before the index expression
                    decisions = q.decisions[:e.nd]
                lo_, _hi = SR.int_bounds(_P, is_len)
                ok = lo_ is not None and lo_ >= need
            if not ok:
                return "a path evaluates `%s[%s]` without having established that the length covers %d element(s): %s" % (SY.fmt(bt), i if isinstance(i, int) else "%s..%s" % (i.f.get("start", ""), i.f.get("end", "")), need, q.describe()[:160] or "(unconditional)")
    if not seen:
        return "no constant index expression was reached on any evaluated path"
    return None


def g_arg_not_empty(ctx, site, node):
    # X.expect() where X = f(arg): `!arg.is_empty()` dominates
    inner = H.strip(node["recv"])
    if inner.get("k") not in ("call", "mcall"):
        return "receiver is not a call"
    args = H.call_args(inner)
    if not args:
        return "no argument"
    want = "!%s.is_empty()" % H.show(args[0])
    return None if want in ctx.conds(node) else "no dominating `%s`" % want


def g_replace_rematch(ctx, site, node):
    """`match X { V(_) => match replace(X, ..) { V(inner) => .., W(_) => unreachable!() } }`"""
    arms = [a for a in ctx.tree.ancestors(node) if a[0].get("k") == "match" and a[1] == "arm_body"]
    if len(arms) < 2:
        return "not inside a nested match"
    (m2, _, i2, _), (m1, _, i1, _) = arms[0], arms[1]
    sc2 = H.strip(m2["scrut"])
    if not (sc2.get("k") == "call" and (sc2.get("fn") or "").endswith("core::mem::replace")):
        return "inner scrutinee is not core::mem::replace(..)"
    if H.show(sc2["args"][0]) != H.show(m1["scrut"]):
        return "replace() target `%s` differs from the outer scrutinee `%s`" % (H.show(sc2["args"][0]), H.show(m1["scrut"]))

    def variant(p):
        s = H.pat_str(p)
        return re.split(r"[({ ]", s)[0]
    v_outer = variant(m1["arms"][i1]["pat"])
    v_dead = variant(m2["arms"][i2]["pat"])
    others = [variant(a["pat"]) for j, a in enumerate(m2["arms"]) if j != i2]
    if v_dead == v_outer or v_outer not in others:
        return "the diverging arm `%s` is not excluded by the outer arm `%s`" % (v_dead, v_outer)
    return None


def g_ec_coordinates(ctx, site, node):
    root = H.chain_root(node)
    x = H.show(root)
    # x.into_iter().chain(y).collect()
    chain = [n for n in H.walk(node) if n.get("k") == "mcall" and n.get("name") == "chain"]
    if not chain:
        return "not `x.into_iter().chain(y).collect()`"
    y = H.show(chain[0]["args"][0])
    cs = ctx.conds(node)
    missing = [v for v in (x, y) if "!(%s.len() != COORDINATE_LENGTH)" % v not in cs]
    if missing:
        return "no dominating `%s.len() != COORDINATE_LENGTH` rejection" % missing[0]
    crate = site.fn.split("::")[0]
    mod = site.fn.split("::")[1]
    cval = ctx.F.consts.get("%s::%s::COORDINATE_LENGTH" % (crate, mod))
    targs = site.term.get("targs", [])
    return None if cval is not None else "COORDINATE_LENGTH constant not found"


GUARDS = {
    "len==1": g_len_eq_1, "idx<len": g_index_lt_len, "const-index": g_const_index_len, "sym-index": g_sym_index, "arg-not-empty": g_arg_not_empty,
    "replace-rematch": g_replace_rematch, "ec-coordinates": g_ec_coordinates,
}

# ---------------------------------------------------------------------------------------------------------------------------
# the frozen table: (function, construct) -> (expected sites, class, argument, reason)

IC = "identity_core::common::"
CR = "identity_credential::"
SL = CR + "revocation::status_list_2021::status_list::StatusList2021::"
TOK = CR + "sd_jwt_vc::token::"
BLD = CR + "sd_jwt_vc::builder::SdJwtVcBuilder::"
INT = CR + "sd_jwt_vc::metadata::integrity::IntegrityMetadata::"
ST = "identity_storage::"
IO = "identity_iota_core::"
DID_PARSE = "did_url_parser::did::DID::parse"

TABLE = [
    # identity_core
    (IC + "one_or_many::OneOrMany::push", "panic!", 1, "GUARD", "replace-rematch", ""),
    ("<" + IC + "one_or_many::OneOrMany as core::convert::From<alloc::vec::Vec>>::from", "Option::expect", 1, "RULE", ["C19-R4"], "the model check of C19-R4 evaluates From<Vec<T>> on 0..3 elements and reports any path that panics"),
    ("<" + IC + "one_or_many::OneOrManyIter as core::iter::traits::iterator::Iterator>::next", "Overflow(Add)", 1, "REVIEWED", None,
     "the counter grows by one per `next` call; 2^64 calls are not reachable"),
    ("<" + IC + "one_or_many::OneOrManyIter as core::iter::traits::iterator::Iterator>::next", "Overflow(Sub)", 1, "REVIEWED", None,
     "`index - 1` directly after `index += 1` on the same field"),
    (IC + "one_or_set::OneOrSet::new_set", "Option::expect", 1, "RULE", ["C19-R4"], "the model check of C19-R4 evaluates this function on 0..3 elements in every key-equality world and reports any path that panics"),
    (IC + "one_or_set::OneOrSet::map", "Option::expect", 1, "RULE", ["C19-R4"], "the model check of C19-R4 evaluates this function on 0..3 elements in every key-equality world and reports any path that panics"),
    (IC + "one_or_set::OneOrSet::try_map", "Option::expect", 1, "RULE", ["C19-R4"], "the model check of C19-R4 evaluates this function on 0..3 elements in every key-equality world and reports any path that panics"),
    (IC + "one_or_set::OneOrSet::append", "panic!", 1, "RULE", ["C19-R4"], "the model check of C19-R4 evaluates append on One and on sets of 2..3 elements with a fresh and with a present key, in every key-equality world, and reports any path that panics (the unreachable arm after mem::replace is never entered, however the function is laid out)"),
    ("<" + IC + "one_or_set::OneOrSetIter as core::iter::traits::iterator::Iterator>::next", "Overflow(Add)", 1, "REVIEWED", None,
     "the counter grows by one per `next` call; 2^64 calls are not reachable"),
    ("<" + IC + "one_or_set::OneOrSetIter as core::iter::traits::iterator::Iterator>::next", "Overflow(Sub)", 1, "REVIEWED", None,
     "`index - 1` directly after `index += 1` on the same field"),
    (IC + "ordered_set::OrderedSet::prepend", "Vec::insert", 1, "REVIEWED", None, "`insert(0, _)`: index 0 <= len always"),
    (IC + "ordered_set::OrderedSet::remove::{closure#2}", "Vec::remove", 1, "REVIEWED", None,
     "the index is the `enumerate()` position of an element found in the same vector, with no mutation in between"),
    (IC + "ordered_set::OrderedSet::change", "Vec::drain", 1, "REVIEWED", None, "`index` is `Some(position(..))` of the same vector"),
    (IC + "ordered_set::OrderedSet::change", "Vec::insert", 1, "REVIEWED", None,
     "after `drain(index..)` the length is exactly `index`, `extend` only grows it"),
    (IC + "timestamp::Timestamp::to_rfc3339", "Result::expect", 1, "RULE", ["C13-R1"], "every Timestamp is UTC with year in 0..=9999 (C13-R1), which RFC 3339 formatting accepts"),
    # identity_credential
    (CR + "credential::linked_domain_service::LinkedDomainService::new", "Option::expect", 1, "GUARD", "len==1", ""),
    (CR + "credential::linked_domain_service::LinkedDomainService::domains", "panic!", 1, "GATE", "LinkedDomainService", ""),
    (CR + "credential::linked_domain_service::LinkedDomainService::domains", "Option::expect", 1, "GATE", "LinkedDomainService", ""),
    (CR + "credential::linked_verifiable_presentation_service::LinkedVerifiablePresentationService::new", "Option::expect", 1, "GUARD", "len==1", ""),
    (CR + "credential::linked_verifiable_presentation_service::LinkedVerifiablePresentationService::verifiable_presentation_urls", "panic!", 1,
     "GATE", "LinkedVerifiablePresentationService", ""),
    (CR + "credential::revocation_bitmap_status::RevocationBitmapStatus::new", "Result::expect", 1, "REVIEWED", None,
     "the query string is `index=<u32>`, always a valid DID URL query"),
    ("<" + CR + "credential::status::Status as core::convert::From<" + CR + "revocation::status_list_2021::entry::StatusList2021Entry>>::from",
     "Result::unwrap", 2, "REVIEWED", None,
     "serialising a StatusList2021Entry (Url id, fixed type string, enum, string index, Url) to a JSON value cannot fail and the value always has the `id`/`type` members Status requires"),
    (SL + "len", "Overflow(Mul)", 1, "REVIEWED", None, "needs a 2^61-byte list on the 64-bit targets analysed (32-bit targets: 512 MiB — undecided, see DESIGN)"),
    (SL + "get_unchecked", "BoundsCheck", 1, "RULE", ["C12-R2", "C12-R3"], "documented precondition; every caller tests `index < self.len()` first (C12-R2) and len = bytes*8 (C12-R3)"),
    (SL + "set_unchecked", "BoundsCheck", 2, "RULE", ["C12-R2", "C12-R3"], "documented precondition; every caller tests `index < self.len()` first (C12-R2) and len = bytes*8 (C12-R3)"),
    (SL + "into_encoded_str", "Result::unwrap", 2, "REVIEWED", None, "gzip into an in-memory Vec: `Write for Vec<u8>` never returns an error"),
    (CR + "validator::sd_jwt::validator::SdJwtCredentialValidator::verify_signature::{closure#1}", "Box::leak", 1, "REVIEWED", None,
     "not a panic: leaks the error string of a failed verification (unbounded leak on an attacker-reachable error path, reported for information)"),
    ("<" + CR + "sd_jwt_vc::builder::SdJwtVcBuilder as core::default::Default>::default", "Result::unwrap", 1, "REVIEWED", None,
     "`SdJwtBuilder::new(json!({}))`: the argument is a literal empty object (built through the json! macro, so not a MIR constant)"),
    (BLD + "new_from_credential", "Option::expect", 2, "REVIEWED", None,
     "the value is the JSON of CredentialJwtClaims, a struct with a mandatory `vc` member, so it is an object with `vc`"),
    (BLD + "new_from_credential", "panic!", 1, "REVIEWED", None, "`vc` is serialised from a struct, hence a JSON object"),
    (BLD + "finish::{closure#0}", "Result::unwrap", 7, "REVIEWED", None,
     "serde_json::to_value of Url/Timestamp/StringOrUrl/String/Status values: no map with non-string keys, no failing Serialize impl"),
    (BLD + "finish::{closure#0}::{closure#4}", "Result::expect", 1, "REVIEWED", None,
     "inserts a top-level claim with a fixed registered name into an object"),
    ("<sd_jwt_payload::sd_jwt::SdJwtClaims as core::convert::From<" + CR + "sd_jwt_vc::claims::SdJwtVcClaims>>::from::{closure#2}", "Result::unwrap", 1,
     "REVIEWED", None, "serde_json::to_value of a Status (Url, String, string-keyed map)"),
    (INT + "alg", "Option::unwrap", 1, "GATE", "IntegrityMetadata", ""),
    (INT + "digest", "Option::unwrap", 1, "GATE", "IntegrityMetadata", ""),
    (INT + "digest_bytes", "Result::unwrap", 1, "GATE", "IntegrityMetadata", ""),
    (CR + "sd_jwt_vc::metadata::vc_type::validate_credential_impl::{closure#0}", "Option::unwrap", 1, "REVIEWED", None,
     "`is_immediate` is `schema.map(is Object).unwrap_or(true)`; in the `!is_immediate` branch schema is Some"),
    (CR + "sd_jwt_vc::metadata::vc_type::validate_credential_impl::{closure#0}", "panic!", 1, "GUARD", "typeschema-two-variants",
     ""),
    (TOK + "SdJwtVc::verify_signature", "Option::unwrap", 1, "REVIEWED", None, "`SdJwt`'s Display always writes `<jwt>~`"),
    (TOK + "SdJwtVc::validate_key_binding", "Result::unwrap", 1, "REVIEWED", None, "a Jwk (strings and string vectors) always serialises"),
    (TOK + "SdJwtVc::validate_key_binding", "Option::unwrap", 1, "REVIEWED", None, "a Jwk is a struct, so its JSON is an object"),
    (TOK + "SdJwtVc::validate_key_binding", "Option::expect", 1, "REVIEWED", None, "`SdJwt`'s Display always writes at least one `~`"),
    (TOK + "SdJwtVc::validate_key_binding", "Index::index", 1, "REVIEWED", None, "`..=i` with i the byte index of an ASCII `~` found in the same string"),
    (TOK + "vct_to_url", "Result::unwrap", 1, "REVIEWED", None,
     "only reached for scheme https (tested just above), whose origin is a tuple origin, so `<origin>/.well-known/vct<path>` re-parses"),
    # identity_did
    ("identity_did::did_jwk::DIDJwk::jwk", "Result::expect", 1, "GATE", "DIDJwk", ""),
    ("<identity_core::common::url::Url as core::convert::From<identity_did::did_url::DIDUrl>>::from", "Result::expect", 1, "REVIEWED", None,
     "a DID URL is `did:` + an opaque path + query + fragment; the WHATWG parser has no failure state after an accepted scheme without `//`"),
    ("identity_did::did_url::is_valid_url_segment", "Index::index", 1, "REVIEWED", None, "`i` comes from `char_indices()` of the same string: a char boundary <= len"),
    ("identity_did::did::CoreDID::parse", DID_PARSE, 1, "OPEN", None, ""),
    ("identity_did::did_url::DIDUrl::parse", DID_PARSE, 1, "OPEN", None, ""),
    ("identity_did::did_url::DIDUrl::join", DID_PARSE, 1, "OPEN", None, ""),
    # identity_document
    ("identity_document::document::core_document::CoreDocumentData::check_id_constraints", "Overflow(Add)", 5, "REVIEWED", None,
     "sum of the lengths of six live collections of >= 1-byte elements cannot exceed the address space"),
    ("identity_document::utils::did_url_query::DIDUrlQuery::fragment", "Overflow(Add)", 1, "REVIEWED", None, "`rfind` index < len <= isize::MAX"),
    ("identity_document::utils::did_url_query::DIDUrlQuery::fragment::{closure#0}", "Overflow(Add)", 1, "REVIEWED", None, "`rfind` index < len <= isize::MAX"),
    # identity_ecdsa_verifier
    ("identity_ecdsa_verifier::secp256k1::Secp256K1Verifier::verify", "collect->GenericArray", 1, "GUARD", "ec-coordinates", ""),
    ("identity_ecdsa_verifier::secp256r1::Secp256R1Verifier::verify", "collect->GenericArray", 1, "GUARD", "ec-coordinates", ""),
    # identity_iota_core
    (IO + "did::iota_did::IotaDID::new", "Result::expect", 1, "RULE", ["C17-R2", "C10-R6"],
     "`did:iota:<NetworkName>:0x<64 hex>` satisfies check_validity (C17-R2) and the DID grammar (C10-R6); NetworkName is validated on construction"),
    (IO + "did::iota_did::IotaDID::from_alias_id", "Result::expect", 1, "OPEN", None, ""),
    (IO + "did::iota_did::IotaDID::normalize", "Result::expect", 1, "RULE", ["C17-R1", "C17-R2"],
     "normalize only runs on a CoreDID that passed check_validity (C17-R1); the tag is 0x + 64 hex digits (C17-R2), a valid method id"),
    (IO + "did::iota_did::IotaDID::denormalized_components::{closure#0}", "str::split_at", 1, "REVIEWED", None, "`idx` is the byte index `find(':')` returned for the same string"),
    (IO + "did::iota_did::IotaDID::denormalized_components::{closure#1}", "Index::index", 1, "REVIEWED", None, "`tail` starts with the one-byte ':' found by `find`"),
    ("<iota_sdk::types::block::output::alias_id::AliasId as core::convert::From<&" + IO + "did::iota_did::IotaDID>>::from", "Result::expect", 1, "RULE",
     ["C17-R1", "C17-R2"], "every IotaDID passed check_validity (C17-R1), whose tag rule is exactly `prefix_hex::decode::<[u8; 32]>` succeeding (C17-R2)"),
    (IO + "document::iota_document::IotaDocument::new_with_id", "Result::expect", 1, "REVIEWED", None, "builds a document with no methods and no services: no id can collide"),
    (IO + "document::iota_document::IotaDocument::set_controller", "Result::expect", 1, "GUARD", "arg-not-empty", ""),
    (IO + "state_metadata::document::add_flags_to_message", "Overflow(Add)", 4, "REVIEWED", None,
     "3 + 1 + 1 + 2 + data_len(u16): the first three additions are on small constants (not folded in MIR because `len()` is a call)"),
    # identity_jose
    ("identity_jose::jwk::key_set::JwkSet::del", "Vec::remove", 1, "GUARD", "idx<len", ""),
    ("<identity_jose::jwk::key_set::JwkSet as core::ops::index::Index<I>>::index", "Index::index", 1, "REVIEWED", None,
     "`Index` impl: out-of-range is the documented contract of `set[i]`; no workspace caller (checked: callers = 0)"),
    ("<identity_jose::jwk::key_set::JwkSet as core::ops::index::IndexMut<I>>::index_mut", "Index::index", 1, "REVIEWED", None,
     "`IndexMut` impl: out-of-range is the documented contract of `set[i]`; no workspace caller (checked: callers = 0)"),
    # identity_storage
    (ST + "key_id_storage::method_digest::MethodDigest::unpack", "Index::index", 2, "GUARD", "sym-index", ""),
    (ST + "key_storage::bls::encode_bls_jwk", "Option::expect", 1, "REVIEWED", None, "the Jwk was built three lines above from OKP parameters; `to_public` is None only for `oct`"),
    ("<" + ST + "key_storage::memstore::JwkMemStore as " + ST + "key_storage::jwk_storage::JwkStorage>::generate::{closure#0}", "Option::expect", 1, "REVIEWED", None,
     "the Jwk was just generated as OKP/Ed25519; `to_public` is None only for `oct`"),
    ("<" + ST + "key_storage::memstore::JwkMemStore as " + ST + "key_storage::jwk_storage_bbs_plus_ext::JwkStorageBbsPlusExt>::sign_bbs::{closure#0}", "Option::expect", 1,
     "REVIEWED", None, "keys enter the store through generate (private) or insert, which rejects Jwks without `d`"),
    ("<" + ST + "key_storage::memstore::JwkMemStore as " + ST + "key_storage::jwk_storage_bbs_plus_ext::JwkStorageBbsPlusExt>::update_signature::{closure#0}", "Option::expect",
     1, "REVIEWED", None, "keys enter the store through generate (private) or insert, which rejects Jwks without `d`"),
    (ST + "storage::jwk_document_ext::purge_method_core_document::{closure#0}::{closure#0}", "Option::unwrap", 2, "REVIEWED", None,
     "inside the expansion of futures::join!: `take_output().unwrap()` after both futures completed"),
    (ST + "storage::jwk_document_ext::iota_document::purge_method_iota_document::{closure#0}::{closure#0}", "Option::unwrap", 2, "REVIEWED", None,
     "inside the expansion of futures::join!: `take_output().unwrap()` after both futures completed"),
    ("<identity_document::document::core_document::CoreDocument as " + ST + "storage::timeframe_revocation_ext::TimeframeRevocationExtension>::update::{closure#0}",
     "Result::unwrap", 4, "REVIEWED", None, "serde_json::to_vec of a Duration newtype: cannot fail"),
    # identity_stronghold
    ("identity_stronghold::ed25519::expand_secret_jwk", "Result::unwrap", 1, "REVIEWED", None,
     "both callers first check `key_type == Ed25519` and `alg` compatibility against the stored key type, and the Jwk was produced by this crate's generate/insert for that type"),
    ("identity_stronghold::storage::StrongholdStorage::get_stronghold::{closure#0}", "panic!", 1, "REVIEWED", None,
     "the SecretManager is private and constructed only from a StrongholdAdapter in `StrongholdStorage::new`"),
]

KNOWN_OPEN = {
    # (function, construct): what fails — these must be listed in known_findings.json to be tolerated
    ("identity_did::did::CoreDID::parse", DID_PARSE): "panics inside did_url_parser 0.3.0 for a percent-encoded triple at the end of the method id, e.g. \"did:example:a%41\"",
    ("identity_did::did_url::DIDUrl::parse", DID_PARSE): "panics inside did_url_parser 0.3.0, e.g. \"did:example:a%41\"",
    ("identity_did::did_url::DIDUrl::join", DID_PARSE): "re-parses the base DID URL; panics when its method id ends with a percent-encoded triple (set via CoreDID::set_method_id(\"a%41\"))",
    (IO + "did::iota_did::IotaDID::from_alias_id", "Result::expect"): "IotaDID::from_alias_id(\"not-hex\", ..) panics: the alias id string is not validated and the function has no error return",
}

# constructor gates (R2): adt -> {constructor fn: (label, required tried-call pattern) | None}
GATES = {
    "DIDJwk": ("identity_did::did_jwk::DIDJwk", "closure-map", r"identity_jose::jwu::base64::decode_b64_json$"),
    "IntegrityMetadata": (CR + "sd_jwt_vc::metadata::integrity::IntegrityMetadata", "tried", None),
    "LinkedDomainService": (CR + "credential::linked_domain_service::LinkedDomainService", "tried", None),
    "LinkedVerifiablePresentationService": (CR + "credential::linked_verifiable_presentation_service::LinkedVerifiablePresentationService", "tried", None),
}

UNSAFE_ALLOWED = {
    "identity_iota_core::did::iota_did::IotaDID::from_inner_ref_unchecked": "repr(transparent) ref-cast, callers checked by C17-R1",
    "identity_storage::storage::jwk_document_ext::purge_method_core_document": "expansion of futures::join! (pin projection of a stack future)",
    "identity_storage::storage::jwk_document_ext::iota_document::purge_method_iota_document": "expansion of futures::join! (pin projection of a stack future)",
    "identity_core::custom_time::now_utc_custom": "extern \"Rust\" hook of the optional `custom_time` feature",
    "identity_core::custom_time::now_utc_custom::{ForeignMod#0}::__now_utc_custom": "declaration of that hook (foreign items are unsafe to call)",
}
FORBID_UNSAFE_CRATES = ("identity_credential", "identity_did", "identity_document", "identity_iota", "identity_jose", "identity_resolver",
                        "identity_storage", "identity_verification")


# ---------------------------------------------------------------------------------------------------------------------------

from rulelib import subordinate  # noqa: E402


# accessors that unwrap an invariant ↔ the validator that is supposed to establish it:
# (accessor fn, validator fn, accessor's root term → validator's root term)
INVARIANT_PAIRS = [
    ("identity_did::did_jwk::DIDJwk::jwk", "<identity_did::did_jwk::DIDJwk as core::convert::TryFrom<identity_did::did::CoreDID>>::try_from",
     [(("field", ("param", "self"), "0"), ("param", "$0")), (("param", "self"), ("param", "$0"))]),      # DIDJwk derefs to its CoreDID; $0 = the validator's first parameter
    (CR + "credential::linked_domain_service::LinkedDomainService::domains", CR + "credential::linked_domain_service::LinkedDomainService::check_structure",
     (("field", ("param", "self"), "service"), ("param", "$0"))),
    (CR + "credential::linked_verifiable_presentation_service::LinkedVerifiablePresentationService::verifiable_presentation_urls",
     CR + "credential::linked_verifiable_presentation_service::LinkedVerifiablePresentationService::check_structure",
     (("field", ("param", "self"), "0"), ("param", "$0"))),
] + [
    # IntegrityMetadata: the accessors split the stored string at '-' and unwrap segment 1 (and its base64 decoding); TryFrom<String> is the
    # only constructor.  Decided over the split-stream model: seg(s, '-', k) / hasseg(s, '-', k) mean the same in split('-'), splitn(3, '-')
    # and split_once('-'), so "the validator decoded segment 1 ✓" contradicts "the accessor's decode of segment 1 failed" term for term.
    (INT + acc_, "<" + INT[:-2] + " as core::convert::TryFrom<alloc::string::String>>::try_from", (("field", ("param", "self"), "0"), ("param", "$0")))
    for acc_ in ("alg", "digest", "digest_bytes")
]
INV_OPAQUE = r"BaseEncoding::decode$|Service::(service_endpoint|type_)$|::get$|url_only_includes_origin$|Url::scheme$|::scheme$|::is_empty$|decode_b64_json$|::method_id$|::method$"


def _subst(t, a, b):
    if t == a:
        return b
    if isinstance(t, tuple):
        return tuple(_subst(x, a, b) for x in t)
    return t


def check_accessor_invariants(F, r2):
    """By abstract evaluation: the conditions under which an accessor panics (as a conjunction of decisions about the wrapped value)
    are each contradicted on every accepting path of the validator — the validator looked at the same thing and found the opposite."""
    import sym as SY
    import symrules as SR
    for acc, val, maps in INVARIANT_PAIRS:
        maps = maps if isinstance(maps, list) else [maps]
        hv = F.hir(val)
        import sym as _sy
        p0 = _sy.param_name(F, val, 0)
        maps = [(ra, _subst(rv, ("param", "$0"), ("param", p0))) for ra, rv in maps]
        if not (r2.anchor(F.hir(acc), acc) and r2.anchor(F.hir(val), val)):
            continue
        try:
            ea, evv = SY.Evaluator(F, opaque=INV_OPAQUE, inline_depth=3), SY.Evaluator(F, opaque=INV_OPAQUE, inline_depth=3)
            ea.split_streams = evv.split_streams = True
            ap = ea.explore(acc)
            vp = evv.explore(val)
        except (SY.Abort, SY.TooManyPaths) as e:
            r2.fail((acc, "not-evaluable"), "%s / %s could not be evaluated: %s" % (short(acc), short(val), e))
            continue
        panics = [q for q in ap if isinstance(q.ret, SY.V) and q.ret.name == "Panic"]
        oks = [q for q in vp if q.complete and SR.is_success(q.ret) and not SR.is_failure(q.ret)]
        if [q for q in vp if not q.complete]:
            r2.fail((val, "not-evaluable"), "%s: a path could not be evaluated to the end" % short(val))
        good = bool(oks)
        def no_more_sep(decs):
            """rest(s, sep, k) is segment k itself on a path that decided there is no (k+1)th segment"""
            subs = []
            for (a, c) in decs:
                if a[0] == "hasseg" and c is False and isinstance(a[3], int) and a[3] >= 1:
                    subs.append((("rest", a[1], a[2], a[3] - 1), ("seg", a[1], a[2], a[3] - 1)))
            out = []
            for (a, c) in decs:
                for x, y in subs:
                    a = _subst(a, x, y)
                out.append((a, c))
            return out
        for pq in panics:
            conj = []
            for (a, c, _, _) in pq.decisions:
                for ra, rv in maps:
                    a = _subst(a, ra, rv)
                conj.append((a, c))
            conj = no_more_sep(conj)
            for vq in oks:
                vdec = dict(no_more_sep([(a, c) for (a, c, _, _) in vq.decisions]))
                contradicted = False
                for a, c in conj:
                    if a in vdec and vdec[a] != c:
                        contradicted = True
                    # variant atoms list their remaining options: compare by (kind, term)
                    for a2, c2 in vdec.items():
                        if a2[0] == a[0] == "variant" and a2[1] == a[1] and c2 != c and "*" not in (c, c2):
                            contradicted = True
                    v2 = vq.variant.get(a[1]) if a[0] == "variant" else None
                    if isinstance(v2, str) and isinstance(c, str) and c != "*" and v2 != c:
                        contradicted = True
                if not contradicted:
                    good = False
                    r2.fail((acc, "invariant-not-established"), "%s panics when %s, and %s accepts a value without excluding that (accepting path: %s)" % (
                        short(acc), " ∧ ".join("%s=%s" % (SY.fmt_atom(a), c) for a, c in conj) or "(always)", short(val), vq.describe()[:160] or "(unconditional)"))
                    break
        r2.site("%s: each of its %d panic condition(s) is excluded on all %d accepting path(s) of %s: %s" % (short(acc), len(panics), len(oks), short(val), good))


def check_gates(F, R):
    r2 = R.rule("C05-R2", "T1", "types whose accessors unwrap an invariant are built only behind their validating constructor: private fields, no field writes, "
                "serde through try_from, every construction after the validation call succeeded")
    ok = {}
    # DIDJwk
    for gname, (adt, mode, pat) in GATES.items():
        fails0 = len(r2.fails)
        a = F.adts.get(adt)
        if not r2.anchor(a, adt):
            ok[gname] = False
            continue
        for f in F.adt_fields(adt):
            r2.require(f["vis"] != "pub", (adt, "pub-field", f["name"]), "%s.%s is public: the invariant can be bypassed" % (short(adt), f["name"]))
            ws = [w for w in F.field_writes(adt, f["name"])]
            for w in ws:
                r2.fail((adt, "field-write", w[0]), "%s.%s is written in %s" % (short(adt), f["name"], w[0]))
        item = F.ast_item(adt)
        attrs = " ".join(item.get("attrs", [])) if item else ""
        if "Deserialize" in attrs and not r2.require("try_from" in attrs, (adt, "serde-bypass"), "%s derives Deserialize without #[serde(try_from = ..)]" % short(adt)):
            pass
        cons = F.constructions(adt, None)
        for fn, bi, st in cons:
            parent = re.sub(r"(::\{closure#\d+\})+$", "", fn)
            r2.site("%s constructed in %s" % (short(adt), short(fn)), F.code_path(parent))
            if gname == "DIDJwk":
                gate = "<identity_did::did_jwk::DIDJwk as core::convert::TryFrom<identity_did::did::CoreDID>>::try_from"
                r2.require(parent == gate or bool(L.private_helper_of(F, parent, {gate})), (adt, "ungated-construction", fn), "%s is constructed in %s, outside TryFrom<CoreDID>" % (short(adt), fn))
                # what the gate establishes is decided with the accessor it protects (check_accessor_invariants): every accepting
                # path decoded the method id as a JWK ✓ — the very oracle call `jwk()` later `expect`s
            elif gname == "IntegrityMetadata":
                want = "<" + adt + " as core::convert::TryFrom<alloc::string::String>>::try_from"
                r2.require(fn == want, (adt, "ungated-construction", fn), "%s is constructed in %s" % (short(adt), fn))
                # what the constructor establishes (a second '-'-segment that base64-decodes) is decided together with the accessors that
                # unwrap it, on the split-stream model (check_accessor_invariants)
            else:
                tf = "<" + adt + " as core::convert::TryFrom<identity_document::service::service::Service>>::try_from"
                new = adt + "::new"
                if fn == tf:
                    require_tried_before_success(r2, F, fn, [("check_structure", re.compile(re.escape(adt) + r"::check_structure$"))])
                elif fn == new:
                    pass  # builds the endpoint itself: One(url) or Map{"origins": ..} / Set — see the `new` entries of the table
                else:
                    r2.fail((adt, "ungated-construction", fn), "%s is constructed in %s" % (short(adt), fn))
        ok[gname] = len(r2.fails) == fails0
    check_accessor_invariants(F, r2)
    r2.floor(8)
    return ok


def check_unsafe(F, R):
    r3 = R.rule("C05-R3", "T13", "no unsafe code outside the listed sites; the crates that carry #![forbid(unsafe_code)] still do")
    for c in FORBID_UNSAFE_CRATES:
        attrs = F.crate_attrs.get(c)
        if attrs is None:
            r3.fail(("ANCHOR-MISSING", c), "crate attributes of %s not extracted" % c)
            continue
        r3.site("%s: #![forbid(unsafe_code)]" % c)
        r3.require(any(re.sub(r"\s", "", a) == "#![forbid(unsafe_code)]" for a in attrs), (c, "forbid-unsafe-removed"),
                   "crate %s no longer carries #![forbid(unsafe_code)]" % c)
    for p, b in F.fn_bodies(crates=[c for c in F.crates if c not in LIB_EXCLUDE_CRATES]):
        h = b.get("hir")
        if not h:
            continue
        for n in H.walk(H.root(h)):
            if n.get("k") == "block" and n.get("unsafe") == "UserProvided":
                r3.site("unsafe block in %s" % short(p), n.get("sp"))
                r3.require(p in UNSAFE_ALLOWED, (p, "unsafe-block"), "unsafe block in %s is not in the reviewed list" % p, n.get("sp"))
    for f in F.fns.values():
        if f.get("unsafe") and f["path"].split("::")[0] not in LIB_EXCLUDE_CRATES:
            r3.site("unsafe fn %s" % short(f["path"]))
            r3.require(f["path"] in UNSAFE_ALLOWED, (f["path"], "unsafe-fn"), "unsafe fn %s is not in the reviewed list" % f["path"])
    r3.floor(8 + 5)


RECURSIVE_REVIEWED = {
    CR + "sd_jwt_vc::metadata::vc_type::validate_credential_impl":
        "follows issuer-controlled `extends` links: terminates because every type visited is added to the list handed down and a type already on it is rejected",
}


def check_recursion(F, R):
    """Recursion over externally supplied data can exhaust the stack (an abort, not an error): every self-reachable function of the
    workspace is listed with its termination argument, and the one there is has its visited-list discipline decided on its table."""
    import sym as SY
    import symrules as SR
    r4 = R.rule("C05-R4", "T1+T8", "the workspace's call graph has no recursive function besides the reviewed ones; validate_credential_impl rejects a type already on its visited list and hands the callee a list that contains everything it was given plus the current type")
    idx = F.call_index()
    base = lambda p_: re.sub(r"(::\{closure#\d+\})+$", "", p_)  # noqa: E731
    edges = {}
    for callee, lst in idx.items():
        for (p_, bi, t) in lst:
            edges.setdefault(base(p_), set()).add(callee)
    ws = set(F.fns.keys())
    # conversion edges through generic bodies: a trait-default (or generic) method that does `self.into()` / `self.try_into()` calls, for
    # the Self type of each of its call sites, that type's `From` / `TryFrom` impl — `impl From<T> for String { fn from(t) { t.into_string() } }`
    # with `fn into_string(self) -> String { self.into() }` in the trait is a cycle the uninstantiated graph does not show
    conv_inner = {}
    for callee_, lst_ in idx.items():
        m_ = re.match(r"^core::convert::(Into::into|TryInto::try_into)$", callee_)
        if not m_:
            continue
        for (p_, bi_, t_) in lst_:
            ta_ = t_.get("targs") or []
            if len(ta_) == 2 and ta_[0] == "Self":
                conv_inner.setdefault(base(p_), []).append(("From" if m_.group(1).startswith("Into") else "TryFrom", ta_[1]))
    n_conv = 0
    for callee_, lst_ in idx.items():
        if callee_ not in conv_inner:
            continue
        for (p_, bi_, t_) in lst_:
            ta_ = t_.get("targs") or []
            if not ta_ or ta_[0] in ("Self", "T"):
                continue
            for tr_, u_ in conv_inner[callee_]:
                tgt_ = "<%s as core::convert::%s<%s>>::%s" % (u_, tr_, ta_[0], "from" if tr_ == "From" else "try_from")
                if tgt_ in ws:
                    edges.setdefault(callee_ + "[Self=" + ta_[0] + "]", set()).add(tgt_)
                    edges.setdefault(base(p_), set()).add(callee_ + "[Self=" + ta_[0] + "]")
                    ws.add(callee_ + "[Self=" + ta_[0] + "]")
                    n_conv += 1
    r4.site("generic conversion edges instantiated: %d" % n_conv)

    def self_reachable(f):
        seen, st = set(), [f]
        while st:
            x = st.pop()
            for y in edges.get(x, ()):
                if y == f:
                    return True
                if y in ws and y not in seen:
                    seen.add(y)
                    st.append(y)
        return False
    rec = [f for f in sorted(ws) if f in edges and not any(f.startswith(p_) for p_, _ in EXCLUDED_MODULES) and self_reachable(f)]
    r4.site("recursive functions in the workspace call graph: %s" % [short(f) for f in rec])
    for f in rec:
        if f in RECURSIVE_REVIEWED:
            r4.exception(f, "checked", RECURSIVE_REVIEWED[f])
        else:
            r4.fail((f, "unreviewed-recursion"), "%s is (mutually) recursive and has no reviewed termination argument: recursion driven by external data can overflow the stack" % short(f))
    fn = CR + "sd_jwt_vc::metadata::vc_type::validate_credential_impl"
    if fn in rec and r4.anchor(F.hir(fn), fn):
        P_ = lambda x: SY.Sym(("param", x))  # noqa: E731
        ev = SY.Evaluator(F, opaque=r"Resolver::resolve$|validate_credential$|validate_credential_with_schema$|from_value$|TypeMetadata::extends$", inline_depth=3, concrete_vec=True)
        try:
            paths = ev.explore(fn, args=lambda: [P_("cur"), P_("credential"), P_("resolver"), [P_("t0")]])
        except (SY.Abort, SY.TooManyPaths) as e:
            paths = []
            r4.fail((fn, "not-evaluable"), "validate_credential_impl could not be evaluated: %s" % e)
        n_rec = 0
        cyc = False
        for q in paths:
            if not q.complete:
                r4.fail((fn, "not-evaluable"), "validate_credential_impl: a path could not be evaluated to the end (%s)" % q.note)
                continue
            same = [c for (a, c, _, _) in q.decisions if a[0] == "eq" and {a[1], a[2]} == {("param", "cur"), ("param", "t0")}]
            rc = [e for e in q.events if e.kind == "call" and (e.fn or "") == fn]
            if same == [True]:
                cyc = True
                r4.require(not rc and not q.calls(r"Resolver::resolve$") and "Err" in str(q.ret), (fn, "cycle-rejected"), "a type that is already on the visited list is not rejected before anything is resolved")
                continue
            for e in rc:
                n_rec += 1
                lst = e.args[3] if len(e.args) > 3 else None
                names = [SY.term(x) for x in lst] if isinstance(lst, list) else None
                ok = same == [False] and names is not None and ("param", "t0") in names and ("param", "cur") in names
                r4.require(ok, (fn, "visited-accumulates"), "the recursive call is handed the visited list %s: it must contain every type it was given and the current one, after the current type was checked against it (otherwise a loop of two or more types is followed forever)" % (
                    [SY.fmt(t_) for t_ in names] if names is not None else "(not a list built from the received one)"))
        r4.require(cyc or not paths, (fn, "cycle-rejected"), "validate_credential_impl never compares the current type with the visited list")
        r4.site("validate_credential_impl: cycle rejected; %d recursive call(s) each handed visited ∪ {current}" % n_rec)
        r4.require(n_rec >= 1 or not paths, (fn, "visited-accumulates"), "no recursive call was found on the evaluated paths")
    r4.floor(2)


def run(F, R, tier):
    check_recursion(F, R)
    r1 = R.rule("C05-R1", "T8", "every panic-capable construct (Assert terminator, diverging call, panic-API call, known-panicking dependency call) of the library "
                "crates is discharged: CONST | INTERVAL | TOTAL | GUARD | GATE | RULE | REVIEWED")
    sites, excluded = inventory(F)
    gates_ok = check_gates(F, R)
    check_unsafe(F, R)
    bounds = Bounds(F)
    _EB["eb"] = bounds.eb
    table = {}
    for fn, what, n, cls, arg, reason in TABLE:
        k = (re.sub(r"(::\{closure#\d+\})+", "", fn), what)
        if k in table:   # two closures of one function with the same construct: counts add up
            n0, cls0, arg0, reason0 = table[k]
            table[k] = (n0 + n, cls0, arg0, reason0 if reason0 == reason else reason0 + " / " + reason)
        else:
            table[k] = (n, cls, arg, reason)
    groups = {}
    counts = {"CONST": 0, "INTERVAL": 0, "TOTAL": 0, "GUARD": 0, "GATE": 0, "RULE": 0, "REVIEWED": 0, "OPEN": 0}
    ctxs = {}
    for s in sites:
        why = auto_const_fold(s)
        if why:
            s.cls, s.why = "CONST", why
        if not s.cls:
            why = auto_total(s)
            if why:
                s.cls, s.why = "TOTAL", why
        if not s.cls:
            why = auto_const_args(s)
            if why:
                s.cls, s.why = "CONST", why
        if not s.cls:
            why = auto_interval(s, bounds)
            if why:
                s.cls, s.why = "INTERVAL", why
        if not s.cls:
            why = auto_guard_sub(s)
            if why:
                s.cls, s.why = "GUARD", why
        if s.cls:
            counts[s.cls] += 1
            r1.site("%s: %s [%s] %s" % (short(s.fn), s.what, s.cls, s.why), s.sp)
            continue
        groups.setdefault((s.key_fn, s.what), []).append(s)

    used = set()
    # a discharged site that moved into a private helper extracted from the function(s) it was reviewed in: the helper is not
    # exported, every (transitive) caller is a function with a table entry for the same construct whose class is REVIEWED or RULE,
    # and those functions now show correspondingly fewer sites
    def base_fn(p_):
        return re.sub(r"(::\{closure#\d+\})+", "", p_)
    moved = {}
    for (fn, what), ss in sorted(groups.items()):
        if (fn, what) in table:
            continue
        owners = {tfn for (tfn, twhat), ent_ in table.items() if twhat == what and ent_[1] in ("REVIEWED", "RULE", "OPEN")}
        serves = L.private_helper_of(F, fn, owners)
        if not serves:
            continue
        budget = sum(table[(o, what)][0] - len(groups.get((o, what), [])) for o in serves)
        if len(ss) <= budget:
            closed = sorted(o for o in serves if table[(o, what)][1] != "OPEN") or sorted(serves)
            o0 = closed[0]
            moved[(fn, what)] = (o0, table[(o0, what)], sorted(serves))
    # positional Vec edits inside functions that C19-R2 evaluates concretely on every list of <= N elements in every key-equality world:
    # an out-of-range insert / remove / drain / split_off raises Panic in that evaluation and fails C19-R2, so these sites are as safe as
    # C19-R2 says — whichever of the equivalent positional APIs the function uses
    MODEL_CHECKED = {IC + "ordered_set::OrderedSet::change": ["C19-R2"], IC + "ordered_set::OrderedSet::remove": ["C19-R2"], IC + "ordered_set::OrderedSet::prepend": ["C19-R2"]}
    for (fn, what), ss in sorted(groups.items()):
        if fn in MODEL_CHECKED and (fn, what) not in table and re.match(r"Vec::(insert|remove|swap_remove|drain|split_off|truncate|split_at|splice)$", what):
            okm = True
            for rid in MODEL_CHECKED[fn]:
                res = subordinate(F, rid.split("-")[0], tier)
                if rid not in res or res[rid]:
                    okm = False
                    r1.fail((fn, what, "rule-failed", rid), "%s: `%s` is only safe while %s holds, and it reported %s" % (short(fn), what, rid, (res.get(rid) or ["did not run"])[0]), ss[0].sp)
            for s_ in ss:
                s_.cls = "RULE"
                counts["RULE"] += 1
                r1.site("%s: %s [RULE, %s] positional edit inside a function the ordered-set model check evaluates concretely (an out-of-range edit panics there)" % (short(fn), what, ",".join(MODEL_CHECKED[fn])), s_.sp)
            moved[(fn, what)] = None
    for (fn, what), ss in sorted(groups.items()):
        if (fn, what) in moved and moved[(fn, what)] is None:
            continue
        if (fn, what) in moved:
            tfn, (n_, cls_, arg_, reason_), serves_ = moved[(fn, what)]
            okm = True
            # an owner whose entry is an open (known) defect keeps it: the construct still fails on its behalf, now inside the helper
            for o in serves_:
                if table[(o, what)][1] == "OPEN":
                    r1.fail((o, what), "%s: %s" % (short(o), KNOWN_OPEN.get((o, what), "confirmed panic")), ss[0].sp)
            if cls_ == "OPEN":
                for s_ in ss:
                    s_.cls = "OPEN"
                    counts["OPEN"] += 1
                for o in serves_:
                    used.add((o, what))
                continue
            if cls_ == "RULE":
                for rid in arg_:
                    res = subordinate(F, rid.split("-")[0], tier)
                    if rid not in res or res[rid]:
                        okm = False
                        r1.fail((fn, what, "rule-failed", rid), "%s: `%s` is only safe while %s holds, and it reported %s" % (short(fn), what, rid, (res.get(rid) or ["did not run"])[0]), ss[0].sp)
            for s_ in ss:
                s_.cls = cls_
                counts[cls_] += 1
                r1.site("%s: %s [%s, moved out of %s] %s" % (short(fn), what, cls_, ", ".join(short(x) for x in serves_), reason_), s_.sp)
            for o in serves_:
                used.add((o, what))
            r1.exception("%s | %s ×%d" % (fn, what, len(ss)), "reviewed" if cls_ == "REVIEWED" else "checked", "moved with its code out of %s: %s" % (", ".join(serves_), reason_ or arg_))
            continue
        ent = table.get((fn, what))
        spans = ", ".join(x.sp.split("/")[-1] for x in ss)
        if ent is None:
            for s in ss:
                r1.site("%s: %s [UNDISCHARGED]" % (short(fn), what), s.sp)
            r1.fail((fn, what), "%d panic-capable site(s) `%s` in %s (%s) not discharged by any class: callee/assert `%s`" % (
                len(ss), what, fn, spans, ss[0].full), ss[0].sp)
            continue
        used.add((fn, what))
        n, cls, arg, reason = ent
        if len(ss) > n:
            r1.fail((fn, what, "extra"), "%s has %d `%s` site(s) (%s) but only %d were reviewed: a new panic-capable site was added" % (fn, len(ss), what, spans, n), ss[0].sp)
        for s in ss:
            s.cls = cls
            counts[cls] = counts.get(cls, 0) + 1
            r1.site("%s: %s [%s] %s" % (short(fn), what, cls, reason or arg), s.sp)
        if cls == "REVIEWED":
            r1.exception("%s | %s ×%d" % (fn, what, len(ss)), "reviewed", reason)
        elif cls == "OPEN":
            r1.fail((fn, what), "%s: %s" % (short(fn), KNOWN_OPEN.get((fn, what), "confirmed panic")), ss[0].sp)
        elif cls == "RULE":
            for rid in arg:
                pid = rid.split("-")[0]
                res = subordinate(F, pid, tier)
                if rid not in res:
                    r1.fail((fn, what, "rule-missing", rid), "%s relies on %s, which did not run" % (short(fn), rid))
                elif res[rid]:
                    r1.fail((fn, what, "rule-failed", rid), "%s: `%s` is only safe while %s holds, and it reported %s" % (short(fn), what, rid, res[rid][0]), ss[0].sp)
            r1.exception("%s | %s ×%d" % (fn, what, len(ss)), "checked", "%s ⇐ %s" % (reason, ", ".join(arg)))
        elif cls == "GATE":
            if not gates_ok.get(arg, False):
                r1.fail((fn, what, "gate-failed", arg), "%s: `%s` is only safe behind the %s constructor gate (C05-R2), which failed" % (short(fn), what, arg), ss[0].sp)
            r1.exception("%s | %s ×%d" % (fn, what, len(ss)), "checked", "constructor gate of %s (C05-R2)" % arg)
        elif cls == "GUARD":
            for s in ss:
                if arg == "typeschema-two-variants":
                    a = F.adts.get(CR + "sd_jwt_vc::metadata::vc_type::TypeSchema")
                    vs = sorted(v["name"] for v in a["variants"]) if a else None
                    if vs != ["Object", "Uri"]:
                        r1.fail((fn, what, "guard", arg), "TypeSchema variants are %s, the let-else on `Uri` after excluding `Object` is no longer exhaustive" % vs, s.sp)
                    continue
                ctx = ctxs.get(s.parent) or ctxs.setdefault(s.parent, FnCtx(F, s.parent))
                node = ctx.node_for(s) if ctx.h else None
                if node is None:
                    r1.fail((fn, what, "guard", "no-hir-node"), "cannot locate the HIR expression of `%s` in %s" % (what, fn), s.sp)
                    continue
                err = GUARDS[arg](ctx, s, node)
                if err:
                    r1.fail((fn, what, "guard", arg), "%s: `%s` lost its guard: %s" % (short(fn), what, err), s.sp)
            r1.exception("%s | %s ×%d" % (fn, what, len(ss)), "checked", "guard `%s` verified on the HIR" % arg)
    # a type deserialised *through* a dependency type (`#[serde(try_from = "X")]` / `from = "X"` with X the dependency's) reaches the
    # dependency's parser from its derived Deserialize — a call that is in no function body of the workspace
    dep_tys = sorted({m.group(1) for m in (re.match(r"^(.*)::parse$", x) for x in DEP_PANIC.pattern.strip("^$()").split("|")) if m})
    n_ser = 0
    for ty, a in sorted(F.ast.items()):
        attrs = " ".join(a.get("attrs") or [])
        m = re.search(r'serde\s*\(.*?\b(?:try_from|from)\s*=\s*"([^"]+)"', attrs)
        if not m:
            continue
        n_ser += 1
        for dt in dep_tys:
            conv = [f for f in F.bodies_all if re.match(r"^<%s as core::convert::(Try)?From<%s>>::(try_)?from$" % (re.escape(ty), re.escape(dt)), f)]
            named = m.group(1).split("::")[-1].split("<")[0]
            # the attribute names the type by whatever name is in scope: it is the dependency's when it is the dependency's own last
            # segment, or an alias — no conversion of this type comes from a type that is actually called so
            direct = [f for f in F.bodies_all if re.match(r"^<%s as core::convert::(Try)?From<(.*::)?%s(<.*>)?>>::(try_)?from$" % (re.escape(ty), re.escape(named)), f)]
            if conv and named not in ("String", "str") and (named == dt.split("::")[-1] or not direct):
                r1.fail((ty, "serde-through", dt + "::parse"), "%s is deserialised through %s (serde %s): its Deserialize runs %s::parse on the string read, which panics for \"did:example:a%%41\"" % (
                    short(ty), dt, m.group(0)[m.group(0).index("(") + 1:], dt))
    r1.site("%d type(s) deserialised through another type examined for dependency parsers %s" % (n_ser, dep_tys))
    stale = [k for k in table if k not in used]
    for k in stale:
        r1.note("table entry without a site (construct removed or now auto-discharged): %s | %s" % k)
    r1.floor(100)
    R.extra["panic_inventory"] = {
        "sites": len(sites), "by_class": counts, "excluded_module_sites": len(excluded),
        "excluded_modules": [{"prefix": p, "reason": r} for p, r in EXCLUDED_MODULES],
        "stale_table_entries": ["%s | %s" % k for k in stale],
        "panic_api_table": PANIC_API.pattern, "dependency_panic_table": DEP_PANIC.pattern,
    }
    R.undecided += [
        "panics inside dependencies on paths whose entry function is not in the dependency table (serde_json, roaring, flate2, jsonschema, url, time, josekit, iota_sdk)",
        "stack exhaustion on deeply nested JSON; allocation failure / gzip bombs in StatusList2021::try_from_encoded_str and RevocationBitmap decoding",
        "arithmetic that only overflows on 32-bit targets (StatusList2021::len)",
        "bodies compiled only under non-default features (custom_time, the optional storage back ends) are analysed by the thorough tier only when the feature builds offline",
    ]
