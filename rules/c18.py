"""C18 — JWK public projection, thumbprint and key-type coherence never leak keys."""
import re

import hir as H
import mir as M
import rulelib as L
import symrules as SR
import sym
import spec_tables as S
from c08 import format_calls

CRATES = ["identity_jose", "identity_verification", "identity_storage", "identity_stronghold"]
JWK = "identity_jose::jwk::key::Jwk"
KP = "identity_jose::jwk::key_params"
VM = "identity_verification::verification_method::method::VerificationMethod"


def run(F, R, tier):
    R.undecided += ["the SHA-256 / base64url steps of the thumbprint (delegated to the crypto and multibase crates)"]

    # ------------------------------------------------------------------ R1 projection
    r1 = R.rule("C18-R1", "T5", "per key type: Option-typed (private) fields = fields tested by is_public = fields set to None by to_public; all other fields are cloned from self; Oct has no public projection")
    for ty in ("JwkParamsEc", "JwkParamsRsa", "JwkParamsOkp"):
        path = KP + "::" + ty
        fs = F.adt_fields(path)
        if not r1.anchor(fs, path):
            continue
        priv = {f["name"] for f in fs if f["ty"].replace(" ", "").startswith("core::option::Option<")}
        pub = {f["name"] for f in fs} - priv
        # is_public ⇔ every private (Option) member is None — by abstract evaluation
        fn = path + "::is_public"
        if r1.anchor(F.hir(fn), fn):
            tab = SR.Table(F, fn, rule=r1)
            tested = set()
            for q in tab.paths:
                st = {t_[2]: v_ for t_, v_ in q.variant.items() if isinstance(t_, tuple) and t_[:1] == ("field",) and t_[1] == SR.SELF and isinstance(v_, str)}
                tested |= set(st)
                if q.ret is True:
                    r1.require(set(k_ for k_, v_ in st.items() if v_ == "None") == priv and not any(v_ == "Some" for v_ in st.values()), (fn, "fields", ",".join(sorted(priv ^ set(st)))),
                               "%s::is_public returns true with only %s known to be absent, but the private (Option) members are %s" % (ty, sorted(k_ for k_, v_ in st.items() if v_ == "None"), sorted(priv)))
                elif q.ret is False:
                    r1.require(any(v_ == "Some" and k_ in priv for k_, v_ in st.items()), (fn, "shape"), "%s::is_public returns false although no private member is present — path: %s" % (ty, q.describe()[:160]))
                else:
                    r1.fail((fn, "shape"), "%s::is_public does not evaluate to a boolean over its members: %r" % (ty, q.ret))
            r1.site("%s::is_public tests absence of %s; Option fields %s" % (ty, sorted(tested), sorted(priv)))
            r1.require(tested == priv or not tab.paths, (fn, "fields", ",".join(sorted(priv ^ tested))), "%s::is_public tests %s but the private (Option) members are %s" % (ty, sorted(tested), sorted(priv)))
        # to_public: private members None, public members kept — by abstract evaluation
        fn = path + "::to_public"
        if r1.anchor(F.hir(fn), fn):
            # evaluated on a structured `self` (one symbol per member), so that "clone, then clear the private members" and a literal are the
            # same thing to the rule
            import sibling as SB
            selfv = sym.St(path, {f_["name"]: sym.Sym(("field", SR.SELF, f_["name"])) for f_ in fs})
            tab_paths = SB.explore(F, fn, [selfv], rule=r1)
            for q in tab_paths:
                out = q.ret
                if not r1.require(isinstance(out, sym.St) and out.ty == path, (fn, "literal"), "%s::to_public does not build a %s value the evaluator can see: %r" % (ty, ty, out)):
                    continue
                nones = {k_ for k_, v_ in out.f.items() if sym.term(v_) == ("ctor", "None")}
                kept = {k_ for k_, v_ in out.f.items() if sym.term(v_) == ("field", SR.SELF, k_)}
                r1.site("%s::to_public: None ← %s; cloned ← %s" % (ty, sorted(nones), sorted(kept)))
                r1.require(nones == priv, (fn, "private-dropped", ",".join(sorted(priv ^ nones))), "%s::to_public sets %s to None but the private members are %s: a private member survives the projection" % (ty, sorted(nones), sorted(priv)))
                r1.require(kept == pub and set(out.f) == priv | pub, (fn, "public-set"), "%s::to_public keeps %s from self, public members are %s" % (ty, sorted(kept), sorted(pub)))
        # is_private: true only when the private members are present
        fn = path + "::is_private"
        if F.hir(fn):
            tab = SR.Table(F, fn, rule=r1)
            need = None
            for q in tab.paths:
                if q.ret is True:
                    st = {t_[2] for t_, v_ in q.variant.items() if isinstance(t_, tuple) and t_[:1] == ("field",) and t_[1] == SR.SELF and v_ == "Some"}
                    need = st if need is None else need & st
            r1.site("%s::is_private requires %s" % (ty, sorted(need or [])))
            r1.require(bool(need) and need <= priv and "d" in need, (fn, "fields"), "%s::is_private does not require the private members (requires %s)" % (ty, sorted(need or [])))
    # JwkParams tables
    for fn, want in ((KP + "::JwkParams::to_public", {"Okp(_)": "Some", "Ec(_)": "Some", "Rsa(_)": "Some", "Oct(_)": "None"}),):
        h = F.hir(fn)
        if r1.anchor(h, fn):
            m = H.find_first(h, lambda n: n.get("k") == "match" and n.get("src") == "normal")
            t = {H.pat_str(a["pat"]): H.outcome(a["body"]) for a in (m["arms"] if m else [])}
            r1.site("JwkParams::to_public table %s" % t)
            r1.require(t == want, (fn, "table"), "JwkParams::to_public table is %s, expected %s" % (t, want))
            if m:
                for a in m["arms"]:
                    ps = H.pat_str(a["pat"])
                    if want.get(ps) == "Some":
                        v = ps.split("(")[0]
                        fns = H.called_fns(a["body"])
                        r1.require(KP + "::JwkParams%s::to_public" % v in fns and H.ctor_class(H.ctor_class(a["body"])[1])[0] == v, (fn, "arm", v), "JwkParams::to_public arm %s does not wrap JwkParams%s::to_public in the same variant" % (v, v))
    h = F.hir(KP + "::JwkParams::is_public")
    if r1.anchor(h, "JwkParams::is_public"):
        m = H.find_first(h, lambda n: n.get("k") == "match" and n.get("src") == "normal")
        ok = m is not None and len(m["arms"]) == 4 and all(H.strip(a["body"]).get("k") == "mcall" and H.strip(a["body"])["name"] == "is_public" for a in m["arms"])
        r1.require(ok, (KP + "::JwkParams::is_public", "table"), "JwkParams::is_public does not delegate per variant")
    h = F.hir(KP + "::JwkParamsOct::is_public")
    if r1.anchor(h, "JwkParamsOct::is_public"):
        r1.require([H.literals(n) for n, _ in H.exits(h)] == [[False]], (KP + "::JwkParamsOct::is_public", "false"), "a symmetric key reports itself public")
    # Jwk::to_public
    fn = JWK + "::to_public"
    h = F.hir(fn)
    if r1.anchor(h, fn):
        env = H.Env(h)
        fp = H.calls(h, JWK + "::from_params")
        ok = len(fp) == 1 and H.origins(fp[0]["args"][0], env, accessors=re.compile(r"Jwk::params$")) == {("call", KP + "::JwkParams::to_public")}
        r1.require(ok, (fn, "from-projection"), "Jwk::to_public does not start from Jwk::from_params(self.params().to_public()?)")
        sets = sorted(n["name"] for n in H.walk(H.root(h)) if n.get("k") == "mcall" and n["name"].startswith("set_"))
        r1.site("Jwk::to_public copies %s" % sets)
        r1.require(set(sets) <= {"set_use", "set_key_ops", "set_alg", "set_kid"}, (fn, "copies"), "Jwk::to_public copies additional members: %s" % sets)
        r1.require(not any(n["name"] in ("set_params", "set_params_unchecked", "params_mut") for n in H.walk(H.root(h)) if n.get("k") == "mcall"), (fn, "params-untouched"), "Jwk::to_public modifies the projected params afterwards")
    fn = JWK + "::is_public"
    h = F.hir(fn)
    if r1.anchor(h, fn):
        r1.require(KP + "::JwkParams::is_public" in H.called_fns(H.root(h)), (fn, "delegates"), "Jwk::is_public does not delegate to the params")
    r1.floor(11)

    # ------------------------------------------------------------------ R2 thumbprint
    r2 = R.rule("C18-R2", "T8+T7", "thumbprint_hash_input, per key type on its decision table, formats exactly the RFC 7638/8037 required members in lexicographic order, each printing the same-named member of the parameters (kty: the key type's name), and depends on nothing else; thumbprint_sha256 = SHA-256 of exactly that string and thumbprint_sha256_b64 = its base64url, unconditionally (no decision on any other member such as kid)")
    import sibling as SB
    fn = JWK + "::thumbprint_hash_input"
    if r2.anchor(F.hir(fn), fn):
        ev2 = sym.Evaluator(F, opaque=r"JwkType::name$|Jwk::params$", inline_depth=3)
        try:
            paths = [q for q in ev2.explore(fn)]
        except (sym.Abort, sym.TooManyPaths) as e:
            paths = []
            r2.fail((fn, "not-evaluable"), "thumbprint_hash_input could not be evaluated: %s" % e)
        seen = set()
        PARAMS = ("call", JWK + "::params", (SR.SELF,))
        for q in paths:
            if not q.complete:
                r2.fail((fn, "not-evaluable"), "thumbprint_hash_input: a path could not be evaluated to the end (%s)" % q.note)
                continue
            vs = [c for (a, c, _, _) in q.decisions if a[0] == "variant" and a[1] in (PARAMS, SR.fld("params"))]
            other = [a for (a, c, _, _) in q.decisions if not (a[0] == "variant" and a[1] in (PARAMS, SR.fld("params")))]
            v = next((c for c in vs if c in S.THUMBPRINT_MEMBERS), None)
            if not r2.require(v is not None and not other, (fn, "scrutinee"), "thumbprint input depends on something other than the parameter family: %s" % [sym.fmt_atom(a) for a in other][:3]):
                continue
            seen.add(v)
            pat, argv = SB.render_pattern(q)
            rt_ = sym.term(q.ret)
            if isinstance(rt_, tuple) and rt_[:1] == ("concat",):
                # the returned string itself, as a concatenation (possibly nested: members formatted one by one and joined): its literal
                # pieces are the template, the rest the arguments — however many format! calls produced it
                pat, argv = "", []

                def flat_(t_):
                    nonlocal pat
                    for p_ in t_[1]:
                        if p_[0] == "lit":
                            pat += p_[1]
                        elif isinstance(p_[1], tuple) and p_[1][:1] == ("concat",):
                            flat_(p_[1])
                        elif isinstance(p_[1], tuple) and p_[1][:1] == ("lit",) and isinstance(p_[1][1], str):
                            pat += p_[1][1]
                        else:
                            pat += "{}"
                            argv.append(p_[1])
                flat_(rt_)
            want = S.THUMBPRINT_MEMBERS[v]
            members = re.findall(r'"([A-Za-z0-9_]+)":"\{\}"', pat)
            r2.site("thumbprint %s: %s" % (v, pat))
            r2.require(members == want, (fn, "members", v), "thumbprint members for %s are %s, required (in lexicographic order) %s" % (v, members, want))
            r2.require(pat == "{" + ",".join('"%s":"{}"' % m_ for m_ in members) + "}" and len(argv) == len(members), (fn, "shape", v), "thumbprint template for %s is not a flat JSON object of string members: %s" % (v, pat))
            for name, a_ in zip(members, argv):
                if name == "kty":
                    ok = isinstance(a_, tuple) and a_[:1] == ("call",) and a_[1].endswith("JwkType::name") and SR.pure(a_[2][0], SR.fld("kty"))
                else:
                    base_ok = any(SR.pure(a_, ("field", ("payload", root_, v, 0), name)) for root_ in (PARAMS, SR.fld("params")))
                    ok = base_ok
                r2.require(ok, (fn, "member-source", v, name), "thumbprint member `%s` of %s does not print the same-named field: %s" % (name, v, sym.fmt(a_)))
        r2.require(seen == set(S.THUMBPRINT_MEMBERS) or not paths, (fn, "variants"), "thumbprint table does not cover exactly Ec/Rsa/Oct/Okp: %s" % sorted(seen))
    for fn, enc in ((JWK + "::thumbprint_sha256", False), (JWK + "::thumbprint_sha256_b64", True)):
        if not r2.anchor(F.hir(fn), fn):
            continue
        tab = SR.Table(F, fn, opaque=r"Jwk::thumbprint_hash_input$|SHA256$|Sha256(<.*>)?::digest$|encode_b64$|Jwk::kid$|decode_b64$", rule=r2, inline_depth=3)
        okh = len(tab.paths) == 1 and not tab.paths[0].decisions
        r2.require(okh or not tab.paths, (fn, "unconditional"), "%s branches (%s): the thumbprint must depend on the required members only, not on kid or any other optional member" % (
            L.short(fn), [sym.fmt_atom(a) for q in tab.paths for (a, c, _, _) in q.decisions][:3]))
        for q in tab.paths:
            hi = q.calls(r"Jwk::thumbprint_hash_input$")
            sh = [e for e in q.events if e.kind == "call" and re.search(r"SHA256$|::digest$", e.fn or "")]
            good = len(hi) == 1 and SR.pure(hi[0].args[0], SR.SELF) and len(sh) == 1 and SR.derives(sh[0].args[0], hi[0].result.t)
            if enc:
                eb = q.calls(r"encode_b64$")
                good = good and len(eb) == 1 and SR.pure(q.ret, eb[0].result.t) and (len(sh[0].args) < 2 or SR.pure(eb[0].args[0], sym.term(sh[0].args[1])) or SR.derives(eb[0].args[0], sh[0].result.t))
            else:
                good = good and (SR.derives(q.ret, sh[0].result.t) or (len(sh[0].args) > 1 and SR.pure(q.ret, sym.term(sh[0].args[1])))) if good else False
            if not r2.require(good, (fn, "hash-of-input"), "%s is not %sSHA-256(thumbprint_hash_input(self)) on every path: %s" % (L.short(fn), "base64url of " if enc else "", q.ret)):
                okh = False
        r2.site("%s = %sSHA-256(thumbprint_hash_input(self)), unconditionally: %s" % (L.short(fn), "b64(" if enc else "", okh))
    r2.floor(6)

    # ------------------------------------------------------------------ R3 kty ↔ params coupling
    r3 = R.rule("C18-R3", "T1", "every writer of Jwk::kty / Jwk::params maintains `kty == params.kty()`")
    writers = {}
    for field in ("kty", "params"):
        for (p, bi, kind, d) in F.field_writes(JWK, field):
            base = p.split("::{closure#")[0]
            writers.setdefault(base, set()).add((field, kind))
    for (p, bi, s) in F.constructions(JWK, skip_derived=("core::clone::Clone",)):
        base = p.split("::{closure#")[0]
        writers.setdefault(base, set()).add(("literal", "agg"))
    ok_writers = {
        JWK + "::new": "params = JwkParams::new(kty)",
        JWK + "::from_params": "kty = params.kty()",
        JWK + "::set_kty": "resets params to JwkParams::new(kty)",
        JWK + "::set_params": "writes only through the checked (kty, params) table",
        "<" + JWK + " as zeroize::Zeroize>::zeroize": "reviewed: zeroises the values in place; the enum variant (family) and kty are unchanged",
    }
    ext = "<" + JWK + " as core::convert::TryFrom<jsonprooftoken::jwk::key::Jwk>>::try_from"
    if F.hir(ext) is not None:
        # on the decision table: every Jwk returned has kty and params of one family
        tabx = SR.Table(F, ext, opaque=r"JwkParams(Ec|Rsa|Oct|Okp) as core::convert::From<.*>>::from$|From::from$|Url as core::str::traits::FromStr>::from_str$|from_str$", rule=r3)
        okx = bool(tabx.ok())
        fams = set()
        for q in tabx.ok():
            out = q.ret.fields[0] if isinstance(q.ret, sym.V) and q.ret.fields else None
            kt = out.f.get("kty") if isinstance(out, sym.St) else None
            pv = out.f.get("params") if isinstance(out, sym.St) else None
            kn = kt.name if isinstance(kt, (sym.V, sym.Ctor)) else None
            pn = pv.name if isinstance(pv, sym.V) else None
            fams.add((kn, pn))
            if not (kn is not None and kn == pn):
                okx = False
                r3.fail((ext, "coupled"), "TryFrom<JwkExt> builds a Jwk with kty %s and parameters of family %s" % (kn, pn))
        r3.site("TryFrom<JwkExt>: (kty, params family) on accepting paths %s" % sorted(fams, key=str))
        if okx:
            ok_writers[ext] = "checked: on every accepting path kty and params are of one family"
    for w, kinds in sorted(writers.items()):
        r3.site("%s writes %s" % (L.short(w), sorted(kinds)))
        if w in ok_writers:
            continue
        tr = F.derived_trait_of(w) or ""
        if "Deserialize" in tr or "deserialize" in w.lower() or re.search(r"_::.*(Visitor|Deserialize)", w):
            key = (JWK, "deserialize-uncoupled")
            if not any(k[0].startswith("C18-R3|%s|deserialize-uncoupled" % JWK) for k in r3.fails):
                r3.fail(key, "the derived Deserialize of Jwk fills `kty` and the flattened untagged `params` independently: {\"kty\":\"RSA\",\"crv\":\"Ed25519\",\"x\":\"AAAA\"} deserialises to kty()==Rsa with Okp params")
            continue
        if w == JWK + "::set_params_unchecked":
            r3.fail((w, "unchecked-writer"), "Jwk::set_params_unchecked (public) replaces params without consulting kty: the declared key type can disagree with the parameter family")
            continue
        if w == JWK + "::params_mut":
            r3.fail((w, "mutable-escape"), "Jwk::params_mut hands out &mut JwkParams: `*jwk.params_mut() = JwkParams::Oct(..)` changes the family under an unchanged kty")
            continue
        serves = L.private_helper_of(F, w, set(ok_writers))
        if serves:
            r3.exception(w, "checked", "private helper reachable only from %s, whose results are decided by abstract evaluation below (the helper is inlined)" % sorted(L.short(x) for x in serves))
            continue
        r3.fail((w, "unreviewed-writer"), "%s writes Jwk::kty/params and is not a reviewed writer" % L.short(w))
    # the reviewed writers do what the table says
    # by abstract evaluation: on every path the constructors/setters leave `params` = JwkParams::new(k) with k the very value left
    # in `kty` (or kty = params.kty() of the very params stored); a path that leaves one of the two untouched must have decided
    # that the other did not change (new kty == old kty)
    def coupled(kty_t, params_t, q):
        """is the stored params term the empty family of the stored kty term, or the stored kty the family of the stored params?"""
        kt, pt = sym.term(kty_t), sym.term(params_t)
        if isinstance(pt, tuple) and pt[:1] == ("call",) and re.search(r"JwkParams::new$", pt[1]) and len(pt[2]) == 1:
            return pt[2][0] == kt or SR.pure(pt[2][0], kt) or SR.pure(kt, pt[2][0])
        if isinstance(kt, tuple) and kt[:1] == ("call",) and re.search(r"JwkParams::kty$", kt[1]) and len(kt[2]) == 1:
            return SR.pure(kt[2][0], pt) or SR.pure(pt, kt[2][0]) or kt[2][0] == pt
        return False

    OP = r"JwkParams::(new|kty)$"
    for fn_ in (JWK + "::new", JWK + "::from_params"):
        if not r3.anchor(F.hir(fn_), fn_):
            continue
        tab_ = SR.Table(F, fn_, opaque=OP, rule=r3)
        good = bool(tab_.paths)
        for q in tab_.paths:
            v = q.ret
            if not (isinstance(v, sym.St) and "kty" in v.f and "params" in v.f and coupled(v.f["kty"], v.f["params"], q)):
                good = False
                r3.fail((fn_, "coupled"), "%s does not build kty and params from one another: kty=%s params=%s" % (
                    L.short(fn_), sym.fmt(sym.term(v.f.get("kty"))) if isinstance(v, sym.St) else "?", sym.fmt(sym.term(v.f.get("params"))) if isinstance(v, sym.St) else "?"))
        r3.site("%s: kty and params built from one another on %d path(s): %s" % (L.short(fn_), len(tab_.paths), good))
    fn_ = JWK + "::set_kty"
    if r3.anchor(F.hir(fn_), fn_):
        tab_ = SR.Table(F, fn_, opaque=OP, rule=r3)
        OLDK, OLDP = SR.fld("kty"), SR.fld("params")
        good = bool(tab_.paths)
        escapes = sorted({k[0].split("|")[-1] for k in r3.fails if k[0].split("|")[-1] in ("deserialize-uncoupled", "unchecked-writer", "mutable-escape")})
        for q in tab_.paths:
            why_ = ""
            wk = [e.args[1] for e in SR.writes(q, "kty") if sym.term(e.args[0]) == OLDK]
            wp = [e.args[1] for e in SR.writes(q, "params") if sym.term(e.args[0]) == OLDP]
            kfin = wk[-1] if wk else sym.Sym(OLDK)
            same = (not wk) or sym.term(kfin) == OLDK or SR.eq_value(q, sym.term(kfin), OLDK) is True
            if wp:
                ok_ = coupled(kfin, wp[-1], q)
                if not ok_ and same:
                    # params reset to the old kty's family, on a path that decided new kty == old kty
                    ok_ = coupled(sym.Sym(OLDK), wp[-1], q)
            else:
                # keeping the parameters when the new type equals the old one re-establishes nothing: it is sound only as an
                # inductive step, i.e. when kty == params.kty() holds for every Jwk that can reach this setter — not while a
                # public writer / the deserialiser can hand out an incoherent one (the escapes found above, known or not)
                ok_ = same and not escapes
                if same and escapes:
                    why_ = " — the parameters are kept on the path that decided `new type == old type`, which assumes they already matched it; they need not: " + ", ".join(escapes)
            if wk and not SR.pure(kfin, SR.param("value")) and sym.term(kfin) != OLDK:
                ok_ = False
            if not ok_:
                good = False
                r3.fail((fn_, "resets"), "Jwk::set_kty leaves kty=%s with params=%s: the parameters are not the new key type's empty parameters — path: %s" % (
                    sym.fmt(sym.term(kfin)), sym.fmt(sym.term(wp[-1])) if wp else "(unchanged)", (q.describe()[:160] or "(unconditional)") + why_))
            if not wk and not same:
                good = False
        stores = any(SR.writes(q, "kty") for q in tab_.paths)
        r3.require(stores or not tab_.paths, (fn_, "stores"), "Jwk::set_kty never stores the new key type")
        r3.site("set_kty: params = JwkParams::new(kty stored) on %d path(s): %s" % (len(tab_.paths), good))
    # set_params: by abstract evaluation, every path that stores the new parameters (field write, or the unchecked setter) has
    # kty and the parameter family decided and equal, the write happens only after that decision, and a mismatch returns Err
    tab = SR.Table(F, JWK + "::set_params", rule=r3)
    KTY = SR.fld("kty")
    fams = set()
    for q in tab.paths:
        ws = SR.writes(q, "params")
        if not ws:
            r3.require(not SR.is_success(q.ret), (JWK + "::set_params", "ok-without-write"), "set_params returns Ok without storing the parameters: %s" % q.describe()[:200])
            continue
        kv = SR.variant(q, KTY)
        pv = None
        for t_, v_ in q.variant.items():
            if isinstance(v_, str) and SR.derives(t_, SR.param("params")) and v_ in ("Ec", "Rsa", "Oct", "Okp"):
                pv = v_
        fams.add((kv, pv, "Ok" if SR.is_success(q.ret) else "Err"))
        r3.require(kv is not None and kv == pv and SR.is_success(q.ret), (JWK + "::set_params", "rows"),
                   "set_params stores parameters of family %s into a key of type %s (outcome %s): kty and params can disagree — path: %s" % (pv, kv, q.outcome(), q.describe()[:200]))
    r3.site("set_params stores on %s" % sorted(fams, key=str))
    if tab.paths:
        r3.require({f[0] for f in fams if f[2] == "Ok"} >= {"Ec", "Rsa", "Oct", "Okp"}, (JWK + "::set_params", "coverage"), "set_params does not accept every matching (kty, params) family: %s" % sorted(fams, key=str))
    r3.floor(9)

    # ------------------------------------------------------------------ R4 no private members in verification methods
    r4 = R.rule("C18-R4", "T1+T2", "VerificationMethod is built from a builder only after `!jwk.is_public() → Err(PrivateKeyMaterialExposed)`; the other construction sites pass an existing method through; key generation returns to_public()")
    allowed = {VM + "::from_builder": "validated", VM + "::map": "pass-through", VM + "::try_map": "pass-through"}
    for (p, bi, s) in F.constructions(VM):
        base = p.split("::{closure#")[0]
        r4.note("VerificationMethod{..} constructed in %s" % L.short(p))
        if F.derived_trait_of(base):
            continue
        if re.search(r"From<.*_VerificationMethod>>::from$", base):
            r4.exception(base, "reviewed", "deserialisation path, outside the clause (library constructors)")
            continue
        r4.require(base in allowed or bool(L.private_helper_of(F, base, set(allowed))), (base, "constructs-VerificationMethod"), "VerificationMethod is constructed in %s, outside from_builder/map/try_map" % L.short(base))
    fn = VM + "::from_builder"
    if r4.anchor(F.hir(fn), fn):
        # by abstract evaluation: an accepting path either decided that builder.data is not a PublicKeyJwk, or called
        # is_public(that very jwk) and found it true; the data stored is builder.data; a non-public JWK → PrivateKeyMaterialExposed
        tab = SR.Table(F, fn, opaque=r"Jwk::is_public$|Jwk::is_private$", rule=r4)
        DATA = SR.fld("data", base=SR.param("builder"))
        okg = bool(tab.ok())
        for q in tab.ok():
            dv = q.variant.get(DATA)
            inner = None
            for t_, v_ in q.variant.items():
                if isinstance(t_, tuple) and t_[:1] == ("payload",) and t_[1] == DATA:
                    inner = v_
            not_jwk = (dv == "None") or (isinstance(inner, str) and inner != "PublicKeyJwk") or (isinstance(inner, tuple) and inner[:1] == ("not",) and "PublicKeyJwk" in inner[1])
            guarded = any(q.succeeded(e) is True and SR.derives(e.args[0], DATA) for e in q.calls(r"Jwk::is_public$"))
            if not r4.require(not_jwk or guarded, (fn, "private-guard"), "from_builder does not reject a JWK carrying any private member (`!jwk.is_public()`; `!is_private()` would miss partial private sets) — accepting path: %s" % (q.describe()[:200] or "(unconditional)")):
                okg = False
            out = q.ret.fields[0] if isinstance(q.ret, sym.V) and q.ret.fields else None
            if isinstance(out, sym.St) and "data" in out.f:
                if not r4.require(SR.pure(out.f["data"], DATA) or SR.derives(out.f["data"], DATA), (fn, "data-field"), "the method data stored is not the guarded builder.data"):
                    okg = False
        rej = any(SR.err_name(q.ret) == "PrivateKeyMaterialExposed" and any(q.succeeded(e) is False for e in q.calls(r"Jwk::is_public$")) for q in tab.err())
        r4.require(rej or not tab.paths, (fn, "private-guard"), "from_builder has no path rejecting a non-public JWK with PrivateKeyMaterialExposed")
        r4.site("from_builder: PublicKeyJwk data accepted only with is_public() ✓; otherwise Err(PrivateKeyMaterialExposed): %s" % (okg and rej))
    fn = VM + "::new_from_jwk"
    if r4.anchor(F.hir(fn), fn):
        fns = L.called_fns_deep(F, fn, depth=3)
        r4.site("new_from_jwk → %s" % sorted(L.short(x) for x in fns if "build" in x or "from_builder" in x))
        r4.require(any(f.endswith("MethodBuilder::build") for f in fns) or VM + "::from_builder" in fns, (fn, "via-builder"), "new_from_jwk does not construct through the builder (private-material guard)")
    bfn = "identity_verification::verification_method::builder::MethodBuilder::build"
    if r4.anchor(F.hir(bfn), bfn):
        r4.require(VM + "::from_builder" in L.called_fns_deep(F, bfn, depth=3), (bfn, "delegates"), "MethodBuilder::build does not delegate to VerificationMethod::from_builder")
    # key stores return the public projection
    for gen in F.find(r"(JwkMemStore|StrongholdStorage) as identity_storage::key_storage::jwk_storage::JwkStorage>::generate$"):
        code = F.code_path(gen)
        hb = F.bodies[gen].get("hir")
        if not hb:
            continue
        env = H.Env(hb)
        lits = [s for s in H.struct_lits(hb) if s.get("ty", "").endswith("JwkGenOutput")]
        calls_new = H.calls(hb, re.compile(r"JwkGenOutput::new$"))
        pub_calls = [n for n in H.walk(H.root(hb)) if n.get("k") == "mcall" and (H.fn_name(n) or "") == JWK + "::to_public"]
        r4.site("%s: to_public() calls %d, JwkGenOutput::new calls %d" % (L.short(gen), len(pub_calls), len(calls_new)))
        ok = False
        for c in calls_new:
            oo = H.origins(c["args"][1], env, extra=re.compile(r"::ok_or$|::ok_or_else$|Option::expect$|Option::unwrap$"))
            if oo and all(o[0] == "call" and o[1] == JWK + "::to_public" for o in oo):
                ok = True
            # or: the returned JWK is assembled from the public key only (no private member is ever written)
            if oo and all(o[0] == "call" and o[1] == JWK + "::from_params" for o in oo):
                wr = [w for w in F.field_writes(KP + "::JwkParamsOkp", "d") + F.field_writes(KP + "::JwkParamsEc", "d") if w[0].split("::{closure#")[0] == gen]
                ok = not wr
        r4.require(ok, (gen, "returns-public"), "%s does not return jwk.to_public() in its JwkGenOutput" % L.short(gen))
    r4.floor(4)
