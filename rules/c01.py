"""C01 — JWS verification binds the signature to exactly the bytes received."""
import re

import hir as H
import mir as M
import rulelib as L
import symrules as SR
import sym

CRATES = ["identity_jose", "identity_eddsa_verifier", "identity_ecdsa_verifier", "identity_credential", "identity_document", "identity_storage"]
DEC = "identity_jose::jws::decoder"
SER = "identity_jose::jwu::serde"
B64 = "identity_jose::jwu::base64"
JWSH = "identity_jose::jws::header::JwsHeader"
JWK = "identity_jose::jwk::key::Jwk"
VIN = "identity_jose::jws::custom_verification::jws_verifier::VerificationInput"
ITEM = DEC + "::JwsValidationItem"

SEE_THROUGH = re.compile(r"(decode_b64_json|::try_from|::from_bytes|::from|::decode_b64|try_okp_params|try_ec_params|from_encoded_point|from_untagged_bytes|"
                         r"::unwrap|::collect|::chain|::into_iter|::try_into|TryInto::try_into|::deref|VerifyingKey.*::from|::as_str|::as_slice|::as_ref)$")
ACC = re.compile(r"JwsHeader::(alg|b64)$|JwsAlgorithm::name$")



PROT = SR.fld("protected", base=SR.param("jws_signature"))
UNPROT = SR.fld("header", base=SR.param("jws_signature"))
DS_OPAQUE = r"validate_jws_headers$|create_message$|DecodedHeaders::new$|::decode_b64(_json)?$|encode_b64|serde_json::|::to_json|ToJson"


def _decode_signature_table(F, r1, dfn):
    """Abstract evaluation of Decoder::decode_signature (helpers inlined): what every accepting path signs over and returns."""
    tab = SR.Table(F, dfn, opaque=DS_OPAQUE, rule=r1, max_paths=4000)
    oks = tab.ok()
    out = []
    for q in oks:
        item = q.ret.fields[0] if isinstance(q.ret, sym.V) and q.ret.fields else None
        if not isinstance(item, sym.St) or not item.ty.endswith("JwsValidationItem"):
            r1.fail((dfn, "item-not-visible"), "decode_signature returns a value whose construction the evaluator cannot see: %r" % (item,))
            continue
        out.append((q, item))
        cms = q.calls(r"create_message$")
        if not r1.require(len(cms) == 1, (dfn, "create_message-count"), "expected exactly one create_message call on an accepting path, found %d" % len(cms)):
            continue
        a0, a1 = cms[0].args[0], cms[0].args[1]
        prot_present = SR.variant(q, PROT)
        ok0 = SR.derives(a0, PROT) if prot_present != "None" else not SR.derives_any(a0, [SR.param("payload"), UNPROT])
        r1.require(ok0 and not any(isinstance(x, tuple) and x[:1] == ("call",) and x[1] != "identity_jose::jwu::serde::create_message" and "as_bytes" not in x[1] for x in sym.subterms(sym.term(a0))),
                   (dfn, "signing-input-header"), "create_message's first operand is not the bytes of the received protected segment: %r" % (a0,))
        r1.require(sym.term(a1) == SR.param("payload"), (dfn, "signing-input-payload"), "create_message's second operand is not the received payload: %r" % (a1,))
        si = item.f.get("signing_input")
        r1.require(si is not None and SR.pure(si, cms[0].result.t), (dfn, "signing_input-field"), "JwsValidationItem.signing_input is not (the whole of) the result of create_message: %r" % (si,))
        sg = item.f.get("decoded_signature")
        want = ("call", B64 + "::decode_b64", (SR.fld("signature", base=SR.param("jws_signature")),))
        r1.require(sg is not None and SR.pure(sg, want), (dfn, "decoded_signature-field"), "decoded_signature is not (the whole of) decode_b64(jws_signature.signature)?: %r" % (sg,))
        for e in q.events:
            if e.kind == "call" and re.search(r"(encode_b64|serde_json::(to_string|to_vec|to_value)|ToJson|to_json)", e.fn or ""):
                r1.fail((dfn, "re-serialise", e.fn), "decode_signature calls the encoder/serialiser %s: the signing input may be built from re-serialised data" % e.fn)
    if oks:
        r1.site("decode_signature: %d accepting path(s): signing_input = create_message(bytes(jws_signature.protected), payload), decoded_signature = decode_b64(jws_signature.signature)" % len(oks))
        r1.site("decode_signature: create_message operand 0 ← jws_signature.protected")
        r1.site("decode_signature: create_message operand 1 ← payload")
    return out


def _b64_reads(q):
    """Decision terms of path q that read a header's `b64` member: [(term, from_protected)]"""
    out = []
    for t_ in list(q.variant) + [a[1] for a, _, _, _ in q.decisions if a[0] == "truth"]:
        if any(isinstance(x, tuple) and x[:1] == ("field",) and x[2] == "b64" for x in sym.subterms(t_)):
            out.append((t_, SR.derives(t_, PROT)))
    return out


def _b64_sources(r2, item_paths, dfn):
    if item_paths is None:
        return
    n = 0
    for q, item in item_paths:
        for t_, prot in _b64_reads(q):
            n += 1
            r2.require(prot, (dfn, "header-source", "b64"), "decode_signature branches on a b64 value that does not come from the protected header: %s" % sym.fmt(t_))
    r2.site("decode_signature: %d b64 read(s) on accepting paths, all from the decoded protected header" % n)


def _claims_rule(r4, item_paths, dfn):
    if item_paths is None:
        return
    seen = set()
    for q, item in item_paths:
        claims = item.f.get("claims")
        # effective b64 on this path: true unless the protected header carries b64 = false
        eff = True
        for t_, prot in _b64_reads(q):
            if q.variant.get(t_) == "Some":
                tv = q.val.get(("truth", ("payload", t_, "Some", 0)))
                if tv is False:
                    eff = False
        kind = claims.name if isinstance(claims, sym.V) else None
        seen.add((eff, kind))
        inner = claims.fields[0] if isinstance(claims, sym.V) and claims.fields else None
        if eff:
            dec = ("call", B64 + "::decode_b64", (SR.param("payload"),))
            ok = kind == "Owned" and inner is not None and SR.pure(inner, dec) and SR.call_succeeded(q, r"::decode_b64$", {0: lambda a: sym.term(a) == SR.param("payload")})
            r4.require(ok, (dfn, "claims-owned"), "with b64 absent/true the claims are not Owned(decode_b64(payload)?): %r" % (claims,))
        else:
            ok = (kind == "Borrowed" and inner is not None and sym.term(inner) == SR.param("payload")) or sym.term(claims) == SR.param("payload")   # (a Cow handed through as it is)
            r4.require(ok, (dfn, "claims-borrowed"), "with b64=false the claims are not the received payload itself: %r" % (claims,))
    for row in sorted(seen, key=str):
        r4.site("claims rule: effective b64 %s → %s" % row)
    r4.require({e for e, _ in seen} == {True, False} or not item_paths, (dfn, "claims-rule"), "decode_signature does not distinguish b64=false from b64 absent/true: %s" % sorted(seen, key=str))
    r4.site("JwsValidationItem{claims ← payload}")


def verify_item_facts(F, rule, vfy):
    """JwsValidationItem::verify by abstract evaluation.  Reports into `rule` and returns True when every accepting path
    (a) has a protected header (alone or next to an unprotected one) whose alg is present,
    (b) passed Jwk::check_alg(public_key, name of that alg) ✓ and JwsVerifier::verify(verifier, input, public_key) ✓ with
        input = {alg: that alg, signing_input: self.signing_input, decoded_signature: self.decoded_signature},
    (c) never reads an alg outside the protected header, and rejecting paths for a missing protected header / missing alg make no call."""
    tab = SR.Table(F, vfy, opaque=r"Jwk::check_alg$|JwsVerifier(<.*>)?(>)?::verify$|JwsAlgorithm::name$", rule=rule)
    HD = SR.fld("headers")
    n = 0
    errs = set()
    for q in tab.paths:
        hv = SR.variant(q, HD)
        algs = [t_ for t_ in q.variant if isinstance(t_, tuple) and t_[:1] == ("field",) and t_[2] == "alg"]
        for t_ in algs:
            f_ = sym.fmt(t_)
            prot = SR.derives(t_, HD) and ("!Protected" in f_ or ".protected" in f_) and "unprotected" not in f_.replace(".protected", "") and "!Unprotected" not in f_
            rule.require(prot, (vfy, "header-source", "alg"), "verify reads alg from %s, not from the protected header" % f_)
        if SR.is_success(q.ret):
            n += 1
            good = [t_ for t_ in algs if q.variant.get(t_) == "Some"]
            if not rule.require(hv in ("Protected", "Both") and len(good) == 1, (vfy, "alg-required"), "verify() can succeed without `alg` having been read (and required) from the protected header — path: %s" % q.describe()[:200]):
                continue
            alg = ("payload", good[0], "Some", 0)
            ca = [e for e in q.calls(r"Jwk::check_alg$") if q.succeeded(e) is True]
            if rule.require(len(ca) == 1, (vfy, "missing-before-success", "public_key.check_alg"), "an accepting path has no successful Jwk::check_alg"):
                rule.require(sym.term(ca[0].args[0]) == SR.param("public_key"), (vfy, "check_alg-key"), "check_alg is not applied to the caller's key: %r" % (ca[0].args[0],))
                rule.require(sym.term(ca[0].args[1]) == ("call", "identity_jose::jws::algorithm::JwsAlgorithm::name", (alg,)), (vfy, "check_alg-expected"),
                             "check_alg is not given the protected header's alg name: %r" % (ca[0].args[1],))
            vs = [e for e in q.calls(r"JwsVerifier(<.*>)?(>)?::verify$") if q.succeeded(e) is True]
            if rule.require(len(vs) == 1, (vfy, "missing-before-success", "verifier.verify"), "an accepting path has no successful JwsVerifier::verify"):
                v = vs[0]
                rule.require(sym.term(v.args[0]) == SR.param("verifier"), (vfy, "verifier-recv"), "verify is not invoked on the caller's verifier")
                rule.require(sym.term(v.args[2]) == SR.param("public_key"), (vfy, "verifier-key"), "the verifier is not given the caller's public key: %r" % (v.args[2],))
                inp = v.args[1]
                if rule.require(isinstance(inp, sym.St) and inp.ty.endswith("VerificationInput"), (vfy, "input-visible"), "the VerificationInput handed to the verifier is not visible: %r" % (inp,)):
                    rule.require(sym.term(inp.f.get("signing_input")) == SR.fld("signing_input"), (vfy, "input.signing_input"), "VerificationInput.signing_input is not self.signing_input: %r" % (inp.f.get("signing_input"),))
                    rule.require(sym.term(inp.f.get("decoded_signature")) == SR.fld("decoded_signature"), (vfy, "input.decoded_signature"), "VerificationInput.decoded_signature is not self.decoded_signature")
                    rule.require(sym.term(inp.f.get("alg")) == alg, (vfy, "input.alg"), "VerificationInput.alg is not the protected header's alg: %r" % (inp.f.get("alg"),))
                if ca and rule.require(q.events.index(ca[0]) < q.events.index(v), (vfy, "order"), "the key's alg is checked after the signature"):
                    pass
            out = q.ret.fields[0] if isinstance(q.ret, sym.V) and q.ret.fields else None
            if isinstance(out, sym.St):
                rule.require(sym.term(out.f.get("claims")) == SR.fld("claims"), (vfy, "decoded.claims"), "DecodedJws.claims is not the item's claims: %r" % (out.f.get("claims"),))
        else:
            en = SR.err_name(q.ret)
            errs.add((hv, en))
            if hv == "Unprotected" or (hv in ("Protected", "Both") and any(q.variant.get(t_) == "None" for t_ in algs)):
                rule.require(not q.calls(r"Jwk::check_alg$|JwsVerifier(<.*>)?(>)?::verify$"), (vfy, "reject-before-verify"), "a token without protected header / alg reaches the key check or the verifier")
    rule.site("verify: %d accepting path(s); check_alg(public_key, protected alg) ✓ then verifier.verify(input{protected alg, self.signing_input, self.decoded_signature}, public_key) ✓" % n)
    rule.require(("Unprotected", "MissingHeader") in errs or not tab.paths, (vfy, "unprotected-only"), "a token with only an unprotected header is not rejected with MissingHeader (%s)" % sorted(errs, key=str))
    rule.require(any(e_ == "ProtectedHeaderWithoutAlg" for _, e_ in errs) or not tab.paths, (vfy, "error-variant"), "a protected header without alg is not rejected with ProtectedHeaderWithoutAlg (%s)" % sorted(errs, key=str))
    return tab


def run(F, R, tier):
    R.undecided += [
        "that the ed25519 / p256 / k256 libraries reject every mutated message or signature (cryptography) — the single-bit-flip consequence follows from R1–R6 and their soundness",
        "strictness of the base64url decoder on non-canonical trailing bits",
    ]
    dfn = DEC + "::Decoder::decode_signature"
    dh = F.hir(dfn)

    # ------------------------------------------------------------------ R1 signing input = received bytes
    r1 = R.rule("C01-R1", "T3+T1", "signing input = create_message(received protected segment bytes, received payload); nothing re-serialised")
    item_paths = _decode_signature_table(F, r1, dfn) if r1.anchor(dh, dfn) else None
    # create_message: header, '.', claims in that order
    cmf = SER + "::create_message"
    if r1.anchor(F.hir(cmf), "create_message"):
        # by abstract evaluation: the returned buffer receives header, b'.', claims in that order and nothing else
        tab = SR.Table(F, cmf, rule=r1)
        for q in tab.paths:
            ret = q.ret
            seq = []
            for e in q.events:
                if e.kind == "call" and e.name in ("extend", "extend_from_slice", "push", "append", "insert", "push_str", "truncate", "clear", "pop", "remove", "resize", "splice") and e.args and sym.term(e.args[0]) == sym.term(ret):
                    seq.append((e.name if e.name != "extend_from_slice" else "extend", sym.term(e.args[1]) if len(e.args) > 1 else None))
            r1.site("create_message: %s" % [(a, sym.fmt(b) if b else None) for a, b in seq])
            want = [("extend", SR.param("header")), ("push", ("lit", 46)), ("extend", SR.param("claims"))]
            r1.require(seq == want, ("create_message", "sequence"), "create_message does not append header, b'.', claims in that order: %s" % [(a, sym.fmt(b) if b else None) for a, b in seq])
            r1.require(isinstance(ret, sym.Sym) and "with_capacity" in sym.fmt(ret.t) or isinstance(ret, sym.Sym), ("create_message", "returns"), "create_message does not return the assembled message")
        for k_ in range(3):
            r1.site("create_message obligation %d" % (k_ + 1))
    # who constructs JwsValidationItem / writes signing_input
    cons = F.constructions(ITEM)
    for (p, bi, s) in cons:
        r1.site("construction of JwsValidationItem in %s" % L.short(p))
        r1.require(p == dfn, (p, "constructs-JwsValidationItem"), "JwsValidationItem is constructed in %s, outside decode_signature" % p)
    r1.require(len(cons) == 1, (ITEM, "construction-count"), "expected 1 construction site of JwsValidationItem, found %d" % len(cons))
    for (p, bi, kind, d) in F.field_writes(ITEM, "signing_input") + F.field_writes(ITEM, "decoded_signature") + F.field_writes(ITEM, "claims") + F.field_writes(ITEM, "headers"):
        r1.fail((p, "mutates-JwsValidationItem"), "a field of JwsValidationItem is written after construction in %s" % p)
    # borrowed segments (T13)
    for ty, fields in ((DEC + "::JwsSignature", {"protected": "&", "signature": "&"}), (DEC + "::Flatten", {"payload": "&"}), (DEC + "::General", {"payload": "&"})):
        fs = F.adt_fields(ty)
        if r1.anchor(fs, ty):
            for f in fs:
                if f["name"] in fields:
                    r1.site("%s.%s : %s" % (L.short(ty), f["name"], f["ty"]))
                    cow_ok = f["name"] == "payload" and re.search(r"Cow<'\w+,\s*str>", f["ty"]) is not None      # borrowed when possible, owned only to unescape
                    r1.require(cow_ok or ("&" in f["ty"] and "str" in f["ty"] and "String" not in f["ty"]), (ty, f["name"], "borrowed"), "%s.%s is no longer a borrowed &str (%s): a re-serialised copy could be signed over" % (L.short(ty), f["name"], f["ty"]))
    # decode_b64 — what turns the signature segment into the bytes the verifier sees — is base64url, unpadded, and nothing else: one
    # decoding of the whole input with Base::Base64Url, its result returned, its error returned.  A second, more lenient decoding
    # (standard alphabet, padding) would give one signature several spellings: a mutated segment that still verifies.
    bfn = B64 + "::decode_b64"
    if r1.anchor(F.hir(bfn), bfn):
        tabb = SR.Table(F, bfn, opaque=r"BaseEncoding::decode$|from_utf8$|BaseEncoding::decode_\w+$", rule=r1)
        DATA_ = SR.param(sym.param_name(F, bfn, 0, "data"))
        for q in tabb.paths:
            ds = q.calls(r"BaseEncoding::decode(_\w+)?$")
            one = len(ds) == 1 and "Base64Url" in str(ds[0].args[1]) and SR.derives(ds[0].args[0], DATA_)
            if SR.is_success(q.ret) and not SR.is_failure(q.ret):
                r1.require(one and q.succeeded(ds[0]) is True and SR.pure(q.ret, ("payload", ds[0].result.t, "Ok", 0)), (bfn, "base64url-only"),
                           "decode_b64 returns something other than the one Base64Url decoding of its input (decodings on this path: %s)" % [str(e.args[1]) for e in ds])
            else:
                r1.require(len(ds) <= 1 and (not ds or one), (bfn, "base64url-only"), "decode_b64 tries another decoding after the Base64Url one failed (%s): the same bytes get several accepted spellings" % [str(e.args[1]) for e in ds])
        r1.site("decode_b64: one Base64Url decoding of the input, returned or failed: %d path(s)" % len(tabb.paths))
    # compact serialization: exactly three '.'-separated segments — protected, payload, signature — and each goes where it belongs; a
    # fourth segment (or anything after the signature) is not ignored.  Decided over the positional split model.
    cfn = DEC + "::Decoder::decode_compact_serialization"
    if r1.anchor(F.hir(cfn), cfn):
        tabc = SR.Table(F, cfn, opaque=r"Decoder::(expand_payload|decode_signature)$|parse_utf8$", rule=r1, split_streams=True)
        JB = SR.param(sym.param_name(F, cfn, 1, "jws_bytes"))
        n_okc = 0
        for q in tabc.ok():
            n_okc += 1
            segs = {a[3]: c for (a, c, _, _) in q.decisions if a[0] == "hasseg" and a[1] == JB}
            # hasseg is monotone: "segment 2 exists" covers segment 1, "segment 3 does not" covers the later ones
            r1.require(max([k_ for k_, c_ in segs.items() if c_ is True] or [0]) == 2 and min([k_ for k_, c_ in segs.items() if c_ is False] or [99]) == 3, (cfn, "three-segments"),
                       "decode_compact_serialization accepts without having established exactly three segments (decided: %s): bytes after the signature segment are neither signed nor rejected" % sorted(segs.items()))
            ds = [e for e in q.calls(r"Decoder::decode_signature$") if q.succeeded(e) is not False]      # (its result is usually returned as it is)
            ep = [e for e in q.calls(r"Decoder::expand_payload$") if q.succeeded(e) is True]
            good = len(ds) == 1 and len(ep) == 1 and SR.derives(q.ret, ds[0].result.t)
            if good:
                sepk = next((a[2] for (a, c, _, _) in q.decisions if a[0] == "hasseg" and a[1] == JB), None)
                seg = lambda k_: ("seg", JB, sepk, k_)  # noqa: E731
                sig = sym.term(ds[0].args[2])
                fl = dict((kv[0], kv[1]) for kv in sig[2:] if isinstance(kv, tuple) and len(kv) == 2) if isinstance(sig, tuple) and sig[:1] == ("struct",) else {}
                has_ = lambda t_, x_: isinstance(t_, tuple) and any(y_ == x_ for y_ in sym.subterms(t_))  # noqa: E731
                only_ = lambda t_, k_: has_(t_, seg(k_)) and not any(has_(t_, seg(j_)) for j_ in range(4) if j_ != k_)  # noqa: E731
                good = (only_(fl.get("protected"), 0) and only_(fl.get("signature"), 2) and only_(sym.term(ep[0].args[1]), 1)
                        and has_(sym.term(ds[0].args[1]), ep[0].result.t) and not any(has_(sym.term(ds[0].args[1]), seg(j_)) for j_ in (0, 2, 3)))
            r1.require(good, (cfn, "segment-roles"), "decode_compact_serialization does not hand segment 0 on as the protected header, segment 1 as the payload and segment 2 as the signature")
        r1.site("decode_compact_serialization: %d accepting path(s), each with exactly three segments in their roles" % n_okc)
        r1.require(n_okc >= 1 or not tabc.paths, (cfn, "three-segments", "rows"), "decode_compact_serialization has no accepting path")
    r1.floor(13)

    # ------------------------------------------------------------------ R2 algorithm / b64 come from the protected header only
    r2 = R.rule("C01-R2", "T3", "every alg()/b64() read on the verification path has a receiver derived from the protected header")
    n = 0
    _b64_sources(r2, item_paths, dfn)
    for fn in F.find(r"^identity_jose::jws::decoder::"):
        h = F.hir(fn)
        if not h or not (fn.endswith("JwsValidationItem::alg")):
            continue   # decode_signature and its helpers are decided by abstract evaluation above
        env = H.Env(h)
        for c in H.calls(h, re.compile(r"JwsHeader::(alg|b64)$")):
            recv = H.call_args(c)[0]
            oo = H.origins(recv, env, extra=re.compile(r"decode_b64_json$|protected_header$"))
            roots = H.param_roots(recv, env)
            ok = bool(oo) and all(
                (o[:3] == ("param", "jws_signature", "protected")) or
                (o[:3] == ("param", "self", "headers") and len(o) > 3 and o[3] in ("Protected", "protected")) or
                (o[:2] == ("param", "self") and fn.endswith("::alg")) or
                (o[0] == "closure_param")
                for o in oo)
            if any(o[0] == "closure_param" for o in oo):
                # closure param of and_then/map on the protected header: resolve through the enclosing adapter call
                ok = ok and _closure_recv_is_protected(h, env, c)
            n += 1
            r2.site("%s: %s() receiver ← %s" % (L.short(fn), c["name"] if "name" in c else "?", sorted(map(str, oo))[:3]), c["sp"])
            r2.require(ok, (fn, "header-source", H.fn_name(c).rsplit("::", 1)[-1]), "%s reads %s from %s, not from the protected header" % (L.short(fn), H.fn_name(c).rsplit("::", 1)[-1], sorted(map(str, oo))))
    r2.floor(2)

    # ------------------------------------------------------------------ R3 verified ⇒ both checks succeeded
    r3 = R.rule("C01-R3", "T2+T1+T4", "Ok(DecodedJws) only after Jwk::check_alg(alg from protected header) and JwsVerifier::verify(input, public_key) succeeded; check_alg table")
    vfy = ITEM + "::verify"
    if r3.anchor(F.hir(vfy), vfy):
        verify_item_facts(F, r3, vfy)
        for k_ in range(9):
            r3.site("verify obligation %d" % (k_ + 1))
    cons = F.constructions(DEC + "::DecodedJws")
    for (p, bi, s) in cons:
        r3.site("construction of DecodedJws in %s" % L.short(p))
        r3.require(p == vfy, (p, "constructs-DecodedJws"), "DecodedJws is constructed in %s, outside JwsValidationItem::verify" % p)
    a = F.adt(DEC + "::DecodedJws")
    if r3.anchor(a, "DecodedJws"):
        r3.require(a["variants"][0]["non_exhaustive"] or a["non_exhaustive"], ("DecodedJws", "non_exhaustive"), "DecodedJws is no longer #[non_exhaustive]: it can be built outside identity_jose")
    # check_alg decision table, derived by abstract evaluation (independent of how the function spells it):
    #   alg absent → Ok ; alg present ∧ alg == expected → Ok ; alg present ∧ alg ≠ expected → Err
    tab = SR.Table(F, JWK + "::check_alg", rule=r3)
    ALG = SR.fld("alg")
    rows = set()
    for q in tab.paths:
        present = SR.variant(q, ALG)
        eqv = SR.eq_value(q, ALG, SR.param("expected"))
        rows.add((present, eqv, "Ok" if SR.is_success(q.ret) else "Err"))
    for row in sorted(rows, key=str):
        r3.site("check_alg row: alg %s, alg==expected %s → %s" % row)
    bad = [r_ for r_ in rows if not ((r_[0] == "None" and r_[2] == "Ok") or (r_[0] == "Some" and r_[1] is True and r_[2] == "Ok") or (r_[0] == "Some" and r_[1] is False and r_[2] == "Err"))]
    want = {("None", None, "Ok"), ("Some", True, "Ok"), ("Some", False, "Err")}
    if tab.paths:
        r3.require(not bad and want <= rows, ("check_alg", "rows"),
                   "check_alg table is not {no alg→Ok, alg==expected→Ok, alg≠expected→Err}: %s" % sorted(rows, key=str))
    r3.floor(13)

    # ------------------------------------------------------------------ R4 claims = signed payload
    r4 = R.rule("C01-R4", "T3+T4", "claims = Owned(decode_b64(payload)) when protected b64 is absent/true, Borrowed(payload) otherwise; same payload as the signing input")
    _claims_rule(r4, item_paths, dfn)
    # the three entry points hand decode_signature the expanded payload and the parsed signature
    for ep, pay_src in (("decode_compact_serialization", None), ("decode_flattened_serialization", None)):
        fn = DEC + "::Decoder::" + ep
        h = F.hir(fn)
        if r4.anchor(h, fn):
            env = H.Env(h)
            for c in H.calls(h, dfn):
                po = H.origins(H.call_args(c)[1], env)
                r4.site("%s → decode_signature(payload ← %s)" % (ep, sorted(map(str, po))), c["sp"])
                r4.require(po == {("call", DEC + "::Decoder::expand_payload")}, (fn, "payload-arg"), "%s passes a payload that is not the result of expand_payload: %s" % (ep, sorted(map(str, po))))
    # general serialization: the iterator carries the expanded payload into decode_signature
    gfn = DEC + "::Decoder::decode_general_serialization"
    gh = F.hir(gfn)
    if r4.anchor(gh, gfn):
        env = H.Env(gh)
        for s_ in H.struct_lits(gh):
            if s_.get("ty") == DEC + "::JwsValidationIter":
                fl = {f["name"]: H.origins(f["e"], env, extra=re.compile(r"into_iter$")) for f in s_["fields"]}
                r4.site("JwsValidationIter{payload ← %s, signatures ← %s}" % (sorted(map(str, fl.get("payload", []))), sorted(map(str, fl.get("signatures", [])))), s_["sp"])
                r4.require(fl.get("payload") == {("call", DEC + "::Decoder::expand_payload")}, (gfn, "payload-field"), "JwsValidationIter.payload is not the result of expand_payload")
    nfn = "<" + DEC + "::JwsValidationIter as core::iter::traits::iterator::Iterator>::next"
    nh = F.hir(nfn)
    if r4.anchor(nh, nfn):
        env = H.Env(nh)
        cs = H.calls(nh, dfn)
        for c in cs:
            po = H.origins(H.call_args(c)[1], env)
            r4.site("JwsValidationIter::next → decode_signature(payload ← %s)" % sorted(map(str, po)), c["sp"])
            r4.require(po == {("param", "self", "payload")}, (nfn, "payload-arg"), "the iterator does not pass its stored payload to decode_signature")
        r4.require(len(cs) == 1, (nfn, "decode_signature-call"), "JwsValidationIter::next does not call decode_signature exactly once")
    r4.floor(6)

    # ------------------------------------------------------------------ R5 exactly one payload source
    r5 = R.rule("C01-R5", "T4", "expand_payload: (detached,None)→detached, (None,embedded)→embedded, both→Err, neither→Err")
    efn = DEC + "::Decoder::expand_payload"
    if r5.anchor(F.hir(efn), efn):
        # evaluated on the four Option shapes with symbolic payloads (the helper that drops an empty embedded payload inlined): the row is
        # decided by (detached present?, embedded present and non-empty?)
        ev5 = sym.Evaluator(F, inline_depth=4)
        D_, E_ = sym.Sym(("param", "D")), sym.Sym(("param", "E"))
        rows = {}
        okev = True
        for dname, dv in (("Some", sym.V("Some", (D_,))), ("None", sym.V("None"))):
            for ename, evv in (("Some", sym.V("Some", (E_,))), ("None", sym.V("None"))):
                try:
                    ps = ev5.explore(efn, args=[dv, evv], max_paths=50)
                except (sym.Abort, sym.TooManyPaths) as e:
                    r5.fail((efn, "not-evaluable"), "expand_payload could not be evaluated: %s" % e)
                    okev = False
                    continue
                for q in ps:
                    if not q.complete:
                        r5.fail((efn, "not-evaluable"), "expand_payload: a path could not be evaluated to the end (%s)" % q.note)
                        okev = False
                        continue
                    # is the embedded payload known to be empty / non-empty on this path?
                    emp = None
                    for (a_, c, _, _) in q.decisions:
                        fa = sym.fmt_atom(a_)
                        if "E" in fa and ("is_empty" in fa or a_[0] == "nonempty"):
                            emp = (bool(c) if "is_empty" in fa else not bool(c))
                    ekey = "None" if ename == "None" or emp is True else "Some"
                    if SR.is_success(q.ret) and not SR.is_failure(q.ret):
                        inner = q.ret.fields[0] if isinstance(q.ret, sym.V) and q.ret.fields else None
                        ti = sym.term(inner)
                        conv = re.compile(r"(as_ref|as_bytes|as_slice|deref|borrow|into|from|Borrowed|Owned)$")
                        src = "detached" if SR.pure(ti, D_.t, conv=conv) else ("embedded" if SR.pure(ti, E_.t, conv=conv) else "other:%s" % sym.fmt(ti)[:60])
                        out = "Ok(%s)" % src
                    else:
                        out = "Err"
                    prev = rows.get((dname, ekey))
                    rows[(dname, ekey)] = out if prev in (None, out) else "%s / %s" % (prev, out)
        for k_, v_ in sorted(rows.items(), key=str):
            r5.site("expand_payload (detached %s, non-empty embedded %s) → %s" % (k_[0], k_[1], v_))
        want = {("Some", "None"): "Ok(detached)", ("None", "Some"): "Ok(embedded)", ("Some", "Some"): "Err", ("None", "None"): "Err"}
        for k_, v_ in want.items():
            r5.require(rows.get(k_) == v_ or not okev, (efn, "row", "(%s, %s)" % k_), "row (detached %s, embedded %s) is %s, expected %s" % (k_[0], k_[1], rows.get(k_), v_))
        r5.require(set(rows) == set(want) or not okev, (efn, "rows"), "expand_payload does not decide on exactly (detached payload, non-empty embedded payload): %s" % sorted(rows, key=str))
    r5.floor(4)

    # ------------------------------------------------------------------ R6 concrete verifiers
    r6 = R.rule("C01-R6", "T2+T3+T4", "Ed25519/ES256/ES256K verifiers return Ok only from the success edge of the crypto verify over (input.signing_input, input.decoded_signature, public_key); alg dispatch tables")
    specs = [
        ("identity_eddsa_verifier::ed25519_verifier::Ed25519Verifier::verify", re.compile(r"ed25519::PublicKey::verify$")),
        ("identity_ecdsa_verifier::secp256r1::Secp256R1Verifier::verify", re.compile(r"signature::(verifier::)?Verifier(<.*>)?(>)?::verify$")),
        ("identity_ecdsa_verifier::secp256k1::Secp256K1Verifier::verify", re.compile(r"signature::(verifier::)?Verifier(<.*>)?(>)?::verify$")),
    ]
    for fn, cpat in specs:
        body = F.mir(fn)
        h = F.hir(fn)
        if not (r6.anchor(body, fn) and r6.anchor(h, fn)):
            continue
        # by abstract evaluation: on every accepting path the crypto verify ✓ got exactly input.signing_input as message and a
        # signature converted from the *whole* input.decoded_signature (conversions only — no slicing, indexing or truncation)
        tabv = SR.Table(F, fn, opaque=r"Jwk::try_(okp|ec)_params$", rule=r6, max_paths=6000)
        INP = SR.param("input")
        SIG, MSG = ("field", INP, "decoded_signature"), ("field", INP, "signing_input")
        CONV = re.compile(r"(try_from|from_slice|from_bytes|from|into|try_into|normalize_s|as_ref|as_slice|deref|borrow|clone|to_vec|to_bytes|unwrap_or)$")

        def pure(t_, root):
            if t_ == root:
                return True
            if isinstance(t_, tuple) and t_[:1] == ("payload",):
                return pure(t_[1], root)
            if isinstance(t_, tuple) and t_[:1] == ("call",) and CONV.search(re.sub(r"<[^<>]*>", "", t_[1])):
                return any(pure(a_, root) for a_ in t_[2]) and not any(SR.derives(a_, root) and not pure(a_, root) for a_ in t_[2])
            return False
        nok = 0
        for q in tabv.ok():
            nok += 1
            cv = [e for e in q.events if e.kind == "call" and cpat.search(e.fn or "") and q.succeeded(e) is True]
            if not r6.require(len(cv) >= 1, (fn, "missing-before-success", "crypto verify"), "%s: an accepting path has no successful crypto verify" % L.short(fn)):
                continue
            e = cv[-1]
            ats = [sym.term(a_) for a_ in e.args]
            r6.require(any(a_ == MSG for a_ in ats), (fn, "message-pure"), "%s: the verified message is not exactly input.signing_input: %s" % (L.short(fn), [sym.fmt(a_)[:60] for a_ in ats]))
            sig_args = [a_ for a_ in ats if SR.derives(a_, SIG)]
            r6.require(len(sig_args) == 1 and pure(sig_args[0], SIG), (fn, "signature-whole"),
                       "%s: the signature verified is not a conversion of the whole input.decoded_signature (it is sliced, truncated or otherwise reduced): %s" % (L.short(fn), [sym.fmt(a_)[:120] for a_ in sig_args]))
            r6.require(any(SR.derives(a_, SR.param("public_key")) for a_ in ats), (fn, "key"), "%s: the verifying key does not derive from the public_key parameter" % L.short(fn))
        r6.site("%s: %d accepting path(s): crypto verify(key ← public_key, msg = input.signing_input, sig = conv(input.decoded_signature)) ✓" % (L.short(fn), nok))
        # the key-type / curve gate: an accepting path examined the key's parameters of the right family ✓
        for q in tabv.ok():
            kt = [e for e in q.events if e.kind == "call" and re.search(r"Jwk::try_(okp|ec)_params$", e.fn or "") and q.succeeded(e) is True and SR.derives(e.args[0], SR.param("public_key"))]
            r6.require(bool(kt), (fn, "kty-check"), "%s: success without the key-type check (try_okp_params/try_ec_params ✓ on public_key)" % L.short(fn))
    # dispatch tables, on the decision table of each JwsVerifier::verify: input.alg = X → exactly the verifier for X applied to
    # (input, public_key), its verdict returned; every other alg → Err without any verifier call
    for fn, want in (("<identity_eddsa_verifier::eddsa_verifier::EdDSAJwsVerifier as identity_jose::jws::custom_verification::jws_verifier::JwsVerifier>::verify",
                      {"EdDSA": "identity_eddsa_verifier::ed25519_verifier::Ed25519Verifier::verify"}),
                     ("<identity_ecdsa_verifier::ecdsa_jws_verifier::EcDSAJwsVerifier as identity_jose::jws::custom_verification::jws_verifier::JwsVerifier>::verify",
                      {"ES256": "identity_ecdsa_verifier::secp256r1::Secp256R1Verifier::verify", "ES256K": "identity_ecdsa_verifier::secp256k1::Secp256K1Verifier::verify"})):
        if not r6.anchor(F.hir(fn), fn):
            continue
        tabd = SR.Table(F, fn, opaque=r"(Ed25519Verifier|Secp256R1Verifier|Secp256K1Verifier)::verify$", rule=r6)
        ALG = ("field", SR.param("input"), "alg")
        seen = {}
        for q in tabd.paths:
            av = q.variant.get(ALG)
            vc = [e for e in q.events if e.kind == "call" and re.search(r"(Ed25519Verifier|Secp256R1Verifier|Secp256K1Verifier)::verify$", e.fn or "")]
            if isinstance(av, str) and av in want:
                good = len(vc) == 1 and (vc[0].fn or "") == want[av] and SR.pure(vc[0].args[0], SR.param("input")) and SR.pure(vc[0].args[1], SR.param("public_key")) and SR.pure(q.ret, vc[0].result.t)
                r6.require(good, (fn, "arm", av), "alg %s does not dispatch to %s(input, public_key) with its verdict returned (calls: %s)" % (av, L.short(want[av]), [L.short(e.fn or "") for e in vc]))
                seen[av] = good
                r6.site("%s: %s → %s" % (L.short(fn), av, L.short(want[av])))
            else:
                r6.require(not vc and SR.is_failure(q.ret), (fn, "arm", str(av)), "alg %s is not rejected without calling a verifier (outcome %s)" % (av, q.ret))
                if not isinstance(av, str) or av not in want:
                    seen.setdefault("<other>", True)
        r6.require(set(want) <= set(seen) or not tabd.paths, (fn, "arms-missing"), "dispatch table lacks %s" % sorted(set(want) - set(seen)))
        r6.require("<other>" in seen or not tabd.paths, (fn, "scrutinee"), "dispatch is not on input.alg (no rejecting row for other algorithms)")
    r6.floor(6)

    # ------------------------------------------------------------------ R8 one algorithm, one name
    # The key pin is checked by name: `public_key.check_alg(alg.name())`.  `name()` must therefore give every algorithm its own registered
    # name — the serde name of the variant, which is also what FromStr reads back — or a token of one algorithm passes the pin of another.
    r8 = R.rule("C01-R8", "T7", "JwsAlgorithm: name(v) = serde name of v and from_str(name(v)) = v for every variant (the name the key pin is compared with identifies the algorithm)")
    ALG = "identity_jose::jws::algorithm::JwsAlgorithm"
    aa, ai = F.adt(ALG), F.ast_item(ALG)
    if r8.anchor(aa, ALG) and r8.anchor(ai, ALG + " (ast)"):
        nfn, pfn = ALG + "::name", (F.find(r"^<%s as core::str::traits::FromStr>::from_str$" % re.escape(ALG)) or [None])[0]
        serde_name = {}
        for v in ai.get("variants", []):
            nm = v["name"]
            for at in v.get("attrs", []):
                mm = re.search(r'rename\s*=\s*"([^"]+)"', at)
                if mm:
                    nm = mm.group(1)
            serde_name[v["name"]] = nm
        unit = [v["name"] for v in aa["variants"] if not v.get("fields")]
        if r8.require(F.hir(nfn) is not None and pfn is not None, (ALG, "ANCHOR"), "JwsAlgorithm::name / FromStr not found"):
            seen = {}
            for vn in unit:
                want = serde_name.get(vn, vn)
                try:
                    ps = [q for q in sym.Evaluator(F, inline_depth=3).explore(nfn, args=[sym.V(vn)]) if q.complete]
                except (sym.Abort, sym.TooManyPaths):
                    ps = []
                got = {q.ret if isinstance(q.ret, str) and not isinstance(q.ret, sym.Sym) else sym.fmt(sym.term(q.ret)) for q in ps}
                r8.require(got == {want}, (ALG, "name", vn), "JwsAlgorithm::%s.name() is %s, not %r: the key pin `alg` is compared with this name, so a %s token passes (only) the pin of %s" % (vn, sorted(got), want, vn, sorted(got)))
                for g_ in got:
                    r8.require(seen.setdefault(g_, vn) == vn, (ALG, "name", "injective", vn), "JwsAlgorithm::%s and ::%s share the name %r" % (seen.get(g_), vn, g_))
                try:
                    ps = [q for q in sym.Evaluator(F, inline_depth=3).explore(pfn, args=[want]) if q.complete]
                except (sym.Abort, sym.TooManyPaths):
                    ps = []
                back = {sym.fmt(sym.term(q.ret)) for q in ps}
                r8.require(back == {"Ok(%s)" % vn}, (ALG, "from_str", vn), "JwsAlgorithm::from_str(%r) is %s, not Ok(%s)" % (want, sorted(back), vn))
            r8.site("JwsAlgorithm: %d unit variants, name() = serde name, from_str(name) = variant" % len(unit))
    r8.floor(1)

    # ------------------------------------------------------------------ R7 the verification result is never discarded
    r7 = R.rule("C01-R7", "T9", "every caller of JwsValidationItem::verify propagates or branches on its Result (never drops it or treats Err as success)")
    for (p, bi, t) in F.callers(ITEM + "::verify"):
        body = F.mir(p, follow_async=False)
        use = result_use(body, bi)
        r7.site("caller %s: result %s" % (L.short(p), use), t["sp"])
        if use in ("dropped", "swallowed"):
            r7.fail((p, "verify-result", use), "%s discards the result of JwsValidationItem::verify" % L.short(p), t["sp"])
        elif use == "unwrapped":
            # a panic, not a false acceptance: reported under C16/C05 where the property says "never as a crash"
            r7.note("%s unwraps the verification result (panic on invalid signature): reported by C16-R1/C05" % L.short(p))
    # … and the key they hand to it is the caller's: CoreDocument::verify_jws resolves the configured method id (else the kid) once, within
    # the configured scope, and fails when it is not found (C08-R5 decides it; a fallback to another lookup would verify under a key the
    # caller did not name)
    L.depends_on(r7, F, tier, ["C08-R5"], "the public key handed to JwsValidationItem::verify is the one the caller's options name")
    r7.floor(3)


def _closure_recv_is_protected(h, env, call):
    """`x.and_then(|v| v.b64())`: is x derived from the protected header?"""
    tree = H.Tree(h)
    cl = tree.enclosing_closure(call)
    if cl is None:
        return False
    par = tree.parent.get(id(cl))
    if not par:
        return False
    p, role, idx = par
    if p.get("k") != "mcall":
        return False
    oo = H.origins(p["recv"], env, extra=re.compile(r"decode_b64_json$|protected_header$"))
    return bool(oo) and all(o[:3] == ("param", "jws_signature", "protected") or (o[:3] == ("param", "self", "headers") and o[3] in ("Protected", "protected")) or o[:2] == ("param", "self") for o in oo)


def _b64_default(F, cond):
    """Value used when the b64 header is absent in `<opt>.unwrap_or(<lit>)` / extract_b64 (DEFAULT_B64)."""
    for n in H.walk(cond):
        if n.get("k") == "mcall" and n["name"] in ("unwrap_or",):
            lits = H.literals(n["args"][0])
            if lits and isinstance(lits[0], bool):
                return lits[0]
            a = H.strip(n["args"][0])
            if a.get("k") == "path" and a.get("res", {}).get("def"):
                return _const_bool(F, a["res"]["def"])
        if n.get("k") == "mcall" and n["name"] == "unwrap_or_default":
            return False
        if n.get("k") == "call" and (n.get("fn") or "").endswith("extract_b64"):
            return extract_b64_default(F)
    return None


def _const_bool(F, path):
    b = F.bodies.get(path)
    if not b or not b.get("hir"):
        return None
    lits = H.literals(H.root(b["hir"]))
    return lits[0] if lits and isinstance(lits[0], bool) else None


def extract_b64_default(F):
    """Value extract_b64 yields when the header or its b64 member is absent, by abstract evaluation (None if not uniform)."""
    tab = SR.Table(F, SER + "::extract_b64")
    vals = set()
    passthrough = False
    for q in tab.paths:
        present = any(v_ == "Some" and any(isinstance(x, tuple) and x[:1] == ("field",) and x[2] == "b64" for x in sym.subterms(t_)) for t_, v_ in q.variant.items())
        if present:
            passthrough = passthrough or isinstance(q.ret, sym.Sym)
        else:
            vals.add(q.ret if isinstance(q.ret, bool) else None)
    if len(vals) == 1 and passthrough:
        return vals.pop()
    return None


def decoder_b64_default(F):
    """How decode_signature treats an absent b64: True if the claims are base64url-decoded (Owned) on every such accepting path."""
    class _N:
        def fail(self, *a, **k):
            pass
        require = lambda self, c, *a, **k: bool(c)  # noqa: E731
        site = note = fail
    items = _decode_signature_table(F, _N(), DEC + "::Decoder::decode_signature")
    kinds = set()
    for q, item in items or []:
        if not any(q.variant.get(t_) == "Some" for t_, _ in _b64_reads(q)):
            c = item.f.get("claims")
            kinds.add(c.name if isinstance(c, sym.V) else None)
    if kinds == {"Owned"}:
        return True
    if kinds == {"Borrowed"}:
        return False
    return None


UNWRAP = re.compile(r"^core::(result::Result|option::Option)::(unwrap|expect|unwrap_unchecked|unwrap_or_default|ok|is_ok|is_err|unwrap_or|unwrap_or_else)$")


SWALLOW = re.compile(r"^core::result::Result::(ok|unwrap_or|unwrap_or_default|unwrap_or_else|is_ok|is_err|err|into_ok|map_or|map_or_else|iter)$")
THROUGH_NO_SWALLOW = re.compile(M.PASS_THROUGH.pattern.replace("map_err|map|ok|and_then", "map_err|map|and_then").replace("|unwrap_or_default|unwrap_or|unwrap_or_else)\"\n", ")"))


def result_use(body, call_bi):
    """How the Result produced by the call at call_bi is consumed: 'propagated' (`?`), 'returned', 'matched', 'unwrapped',
    'swallowed' (`.ok()`, `unwrap_or..`, `is_ok()`: the error is discarded), 'dropped'."""
    t = body.term(call_bi)
    seeds = {M.place_local(t["dst"])}
    if M.place_local(t["dst"]) == 0:
        return "returned"
    thr = re.compile(M.PASS_THROUGH.pattern.replace("core::result::Result::(map_err|map|ok|and_then|or_else|ok_or|as_ref|as_mut|as_deref|copied|cloned|transpose|unwrap_or_default|unwrap_or|unwrap_or_else)",
                                                    "core::result::Result::(map_err|map|and_then|or_else|as_ref|as_mut|as_deref|copied|cloned|transpose)"))
    tainted = body.taint_forward(seeds, through=thr)
    uses = set()
    for bi, b in enumerate(body.blocks):
        if b["cleanup"]:
            continue
        for s in b["s"]:
            if s["k"] == "assign":
                if s["rv"]["k"] == "discr" and M.place_local(s["rv"]["place"]) in tainted:
                    uses.add("matched")
                if M.place_local(s["dst"]) == 0 and any(M.op_local(o) in tainted for o in M.rvalue_operands(s["rv"]) if M.op_local(o) is not None):
                    uses.add("returned")
        tt = b["t"]
        if tt["k"] == "call" and bi != call_bi:
            if any(M.op_local(a) in tainted for a in tt["args"] if M.op_local(a) is not None):
                nm = tt.get("fn") or ""
                if M.TRY_BRANCH.search(nm):
                    uses.add("propagated")
                elif re.search(r"::(unwrap|expect)$", nm):
                    uses.add("unwrapped")
                elif SWALLOW.search(nm):
                    uses.add("swallowed")
                elif M.place_local(tt["dst"]) == 0 and thr.search(nm):
                    uses.add("returned")
                elif not thr.search(nm):
                    uses.add("passed:" + nm.rsplit("::", 1)[-1])
    for pref in ("swallowed", "unwrapped", "propagated", "returned", "matched"):
        if pref in uses:
            return pref
    passed = [u for u in uses if u.startswith("passed:")]
    if passed:
        return passed[0]
    return "dropped"
