"""Frozen tables transcribed from specifications (the oracle side of T7 rules)."""

# RFC 7515 §4.1 (JWS), RFC 7516 §4.1 (JWE), RFC 7518 §4.6/4.7/4.8 (JWA header parameters)
JOSE_REGISTERED_HEADER_PARAMS = [
    "alg", "jku", "jwk", "kid", "x5u", "x5c", "x5t", "x5t#S256", "typ", "cty", "crit",   # RFC 7515 §4.1.1–4.1.11
    "enc", "zip",                                                                         # RFC 7516 §4.1.2–4.1.3
    "epk", "apu", "apv", "iv", "tag", "p2s", "p2c",                                       # RFC 7518 §4.6.1, §4.7.1, §4.8.1
]

# crit extensions this library implements (RFC 7797 only)
IMPLEMENTED_CRIT_EXTENSIONS = ["b64"]

# RFC 7797 §5.2 / RFC 7515: characters allowed in an unencoded compact payload
#   CharSet::Default : %x20-2D / %x2F-7E   (printable ASCII except '.')
#   CharSet::UrlSafe : ALPHA / DIGIT / "-" / "_" / "~"  (and '.' excluded because it is the JWS delimiter)
CHARSET_DEFAULT = set(range(0x20, 0x2E)) | set(range(0x2F, 0x7F))
CHARSET_URLSAFE = set(range(0x30, 0x3A)) | set(range(0x41, 0x5B)) | set(range(0x61, 0x7B)) | {0x2D, 0x5F, 0x7E}

# W3C DID Core §3.1 ABNF
#   method-name   = 1*method-char ; method-char = %x61-7A / DIGIT
#   method-specific-id = *( *idchar ":" ) 1*idchar ; idchar = ALPHA / DIGIT / "." / "-" / "_" / pct-encoded
DID_METHOD_CHAR = set(range(0x61, 0x7B)) | set(range(0x30, 0x3A))
DID_IDCHAR = set(range(0x61, 0x7B)) | set(range(0x41, 0x5B)) | set(range(0x30, 0x3A)) | {ord("."), ord("-"), ord("_")}

# RFC 7638 §3.2 / RFC 8037 §2: required members of the thumbprint input, in lexicographic order
THUMBPRINT_MEMBERS = {
    "Ec": ["crv", "kty", "x", "y"],
    "Rsa": ["e", "kty", "n"],
    "Oct": ["k", "kty"],
    "Okp": ["crv", "kty", "x"],
}

# zlib header written by flate2's ZlibEncoder with Compression::default(): CMF=0x78, FLG=0x9C
ZLIB_DEFAULT_HEADER = bytes([0x78, 0x9C])
