#!/bin/bash
# usage: confirm_seed.sh <worktree> <seed-dir> <demo-file> <demo-crate> "<extra cargo flags for demo>" "<crates for regression>"
# Confirms in a scratch worktree: demo passes without the patch, fails with it; existing tests of the listed crates pass with it.
WT="$1"; SEED="$2"; DEMO="$3"; CRATE="$4"; FLAGS="$5"; REG="$6"
export CARGO_TARGET_DIR="$WT/target" CARGO_NET_OFFLINE=true
cd "$WT" || exit 2
git checkout -q -- . ; 
NAME=$(basename "$DEMO" .rs)
mkdir -p "$CRATE/tests"; cp "$SEED/$DEMO" "$CRATE/tests/$DEMO"
echo "--- demo on unmodified tree (expect PASS)"
cargo test --offline -j 8 -p "$CRATE" $FLAGS --test "$NAME" 2>&1 | grep -E "^test result|error(\[|:)" | head -5
R1=${PIPESTATUS[0]}
git apply "$SEED/patch.diff" || { echo "PATCH-DOES-NOT-APPLY"; rm -f "$CRATE/tests/$DEMO"; exit 2; }
echo "--- demo with patch (expect FAIL)"
cargo test --offline -j 8 -p "$CRATE" $FLAGS --test "$NAME" 2>&1 | grep -E "^test result|error(\[|:)" | head -5
R2=${PIPESTATUS[0]}
rm -f "$CRATE/tests/$DEMO"
echo "--- existing tests with patch (expect PASS)"
R3=0
for c in $REG; do
  cargo test --offline -j 8 -p "$c" --lib --tests 2>&1 | grep -E "^test result|error(\[|:)|FAILED" | sed "s/^/[$c] /" | head -8
  [ ${PIPESTATUS[0]} -ne 0 ] && R3=1
done
git checkout -q -- .
echo "SUMMARY seed=$SEED demo_clean_rc=$R1 demo_patched_rc=$R2 regression_rc=$R3"
if [ $R1 -eq 0 ] && [ $R2 -ne 0 ] && [ $R3 -eq 0 ]; then echo "CONFIRMED $SEED"; else echo "NOT-CONFIRMED $SEED"; fi
