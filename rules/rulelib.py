"""Reusable rule building blocks shared by the property modules."""
import importlib
import json
import os
import re

import hir as H
import mir as M
from report import Reporter, VERIF


def short(p):
    """Short display name of a def path."""
    p = re.sub(r"<([^<>]*?) as [^<>]*?>", lambda m: m.group(1), p)
    parts = p.split("::")
    return "::".join(parts[-2:]) if len(parts) >= 2 else p


def name_matches(names, pat):
    if isinstance(names, str):
        names = [names]
    for n in names:
        if n is None:
            continue
        if hasattr(pat, "search"):
            if pat.search(n):
                return True
        elif isinstance(pat, (list, tuple, set, frozenset)):
            if any(name_matches(n, p) for p in pat):
                return True
        elif n == pat:
            return True
    return False


def call_names(n):
    return [x for x in (n.get("fn"), n.get("resolved")) if x]


class ExitInfo:
    def __init__(self, tree, node, outcome):
        self.node = node
        self.outcome = outcome
        self.pre = tree.preceding(node)
        self.tried = H.tried_calls(self.pre)
        self.conds = tree.path_conditions(node)
        self.in_closure = tree.enclosing_closure(node)

    def tried_matching(self, pat):
        return [c for c in self.tried if name_matches(call_names(c), pat)]


def exit_infos(h, include_closures=False):
    """Exits of the fn body with what certainly happened before each. Exits located inside (non-coroutine) closures are
    skipped: they are the closure's exits, not the function's."""
    t = H.Tree(h)
    out = []
    for node, oc in H.exits(h):
        enc = t.enclosing_closure(node)
        if enc is not None and not enc.get("ckind", "").startswith("Coroutine") and not include_closures:
            continue
        out.append(ExitInfo(t, node, oc))
    return t, out


def is_success_exit(e):
    return not e.outcome.startswith("Err(") and e.outcome not in ("None",)


def _pat_regex(pat):
    if pat is None:
        return None
    if hasattr(pat, "pattern"):
        return pat.pattern
    if isinstance(pat, (list, tuple, set, frozenset)):
        return "|".join("(?:%s)" % _pat_regex(p) for p in pat)
    return re.escape(pat) + "$"


def require_tried_before_success(rule, F, fn, required, delegate=None, floor_each=True):
    """Every accepting path of `fn` has a call matching each required pattern whose result was examined and found Ok/Some/true.
    Decided by abstract evaluation (private helpers inlined, any control-flow spelling); falls back to the structural HIR
    inventory below when the function cannot be evaluated."""
    import symrules as SR
    import sym as SY
    if F.hir(fn) is not None:
        pats = [_pat_regex(p) for _, p in required] + ([_pat_regex(delegate)] if delegate is not None else [])
        try:
            tab = SR.Table(F, fn, opaque="|".join("(?:%s)" % p for p in pats), max_paths=3000, inline_depth=3)
        except Exception:
            tab = None
        if tab is not None and not tab.error and tab.ok() and len(tab.incomplete) <= len(tab.paths):
            oks = tab.ok()
            drx = re.compile(_pat_regex(delegate)) if delegate is not None else None
            for label, pat in required:
                rx = re.compile(_pat_regex(pat))
                bad = None
                for q in oks:
                    if SR.call_succeeded(q, rx):
                        continue
                    if drx is not None and isinstance(q.ret, SY.Sym) and any(drx.search(e.fn or "") and SR.derives(q.ret, e.result.t) for e in q.events if e.kind == "call" and e.result is not None):
                        continue
                    bad = q
                    break
                if bad is None:
                    rule.site("%s: `%s?` precedes success on %d accepting path(s)" % (short(fn), label, len(oks)))
                else:
                    rule.fail((fn, "missing-before-success", label),
                              "%s: a success exit is reachable without `%s` having succeeded — path: %s" % (short(fn), label, bad.describe()[:240] or "(unconditional)"))
            return oks
    return _require_tried_before_success_hir(rule, F, fn, required, delegate, floor_each)


def _require_tried_before_success_hir(rule, F, fn, required, delegate=None, floor_each=True):
    """Every non-Err exit of `fn` must be preceded by a `?`-propagated (tried) call matching each pattern in `required`
    (list of (label, pattern)).  A tail exit that is itself a call matching `delegate` passes (the callee is checked separately).
    Returns list of ExitInfo for success exits."""
    h = F.hir(fn)
    if not rule.anchor(h, fn):
        return []
    tree, infos = exit_infos(h)
    succ = [e for e in infos if is_success_exit(e)]
    if not succ:
        rule.fail((fn, "no-success-exit"), "no success exit found in %s" % fn)
    for e in succ:
        n = H.strip(e.node)
        if delegate is not None and isinstance(n, dict) and n.get("k") in ("call", "mcall") and name_matches(call_names(n), delegate):
            rule.site("%s: success exit delegates to %s" % (short(fn), short(H.fn_name(n))), n.get("sp"))
            continue
        for label, pat in required:
            hit = e.tried_matching(pat)
            if hit:
                rule.site("%s: `%s?` precedes success exit" % (short(fn), label), hit[0].get("sp"))
            else:
                rule.fail((fn, "missing-before-success", label),
                          "%s: a success exit (%s) is reachable without `%s` having succeeded" % (short(fn), e.outcome, label), e.node.get("sp"))
    return succ


def arg_origin_check(rule, F, fn, call_pat, arg_index, allowed, label, env=None, h=None, extra_adapters=None, forbid_calls=None):
    """T3: operand `arg_index` (receiver = 0 for method calls) of every call matching call_pat in fn derives only from `allowed`
    origins: list of origin-prefix tuples, e.g. ('param','options','nonce').  Returns number of call sites."""
    h = h or F.hir(fn)
    if not rule.anchor(h, fn):
        return 0
    env = env or H.Env(h)
    n = 0
    for c in H.calls(h, call_pat):
        args = H.call_args(c)
        if arg_index >= len(args):
            continue
        n += 1
        os_ = H.origins(args[arg_index], env, extra=extra_adapters)
        bad = [o for o in os_ if not any(o[:len(a)] == tuple(a) for a in allowed)]
        rule.site("%s: arg %d of %s ← %s" % (short(fn), arg_index, short(H.fn_name(c) or "?"), sorted(map(str, os_))[:4]), c.get("sp"))
        if bad:
            rule.fail((fn, label, "origin"), "%s: argument %d of %s derives from %s, expected only %s" % (
                short(fn), arg_index, short(H.fn_name(c) or "?"), sorted(map(str, bad))[:4], allowed), c.get("sp"))
    return n


def decision_table(match_node):
    """{pattern text: outcome} of a match"""
    t = {}
    for arm in match_node["arms"]:
        key = H.pat_str(arm["pat"])
        if arm.get("guard") is not None:
            key += " if .."
        t.setdefault(key, H.outcome(arm["body"]))
    return t


def const_str_array(F, const_path):
    """String literals of a `const X: &[&str] = &[..]` item, from its HIR body."""
    b = F.bodies.get(const_path)
    if b is None or not b.get("hir"):
        return None
    return [v for v in H.literals(H.root(b["hir"])) if isinstance(v, str)]


def for_loops(h):
    """`for pat in iter { body }` loops: [(iter_expr, pat, body_block, match_node)]"""
    out = []
    for n in H.walk(H.root(h)):
        if n.get("k") == "match" and n.get("src") == "for":
            it = n["scrut"]["args"][0] if n["scrut"].get("k") == "call" and n["scrut"].get("args") else n["scrut"]
            loop = None
            for x in H.walk(n["arms"][0]["body"]):
                if x.get("k") == "loop":
                    loop = x
                    break
            if loop is None:
                continue
            inner = None
            for x in H.walk(loop["body"]):
                if x.get("k") == "match" and x.get("src") == "for":
                    inner = x
                    break
            if inner is None:
                continue
            for arm in inner["arms"]:
                if H.pat_str(arm["pat"]).startswith("Some"):
                    out.append((it, arm["pat"], arm["body"], n))
    return out


def block_guards(block):
    """Top-level `if cond { diverge }` statements of a block, in order: [(cond, then_outcome, if_node)]"""
    out = []
    if block.get("k") != "block":
        return out
    stmts = list(block.get("stmts", []))
    if block.get("expr") is not None:
        stmts.append(block["expr"])
    for s in stmts:
        s2 = s["e"] if s.get("k") == "semi" else s
        if s2.get("k") == "if" and H.diverges(s2["then"]):
            out.append((s2["cond"], H.outcome(s2["then"]), s2))
    return out


def mir_success_dominates(rule, F, fn, call_pat, label, targets="ok", key_extra=()):
    """T2 on the MIR CFG: every path to the Ok-return blocks crosses a success edge of a call matching call_pat."""
    body = F.mir(fn)
    if not rule.anchor(body, fn):
        return False
    tg = body.ok_blocks() if targets == "ok" else targets
    if not tg:
        rule.fail((fn, "no-ok-block") + tuple(key_extra), "%s: no `Ok(..)` return found on the CFG" % short(fn))
        return False
    ok, ncalls, nedges = body.must_pass_success(call_pat, tg)
    rule.site("%s: Ok dominated by success of %s" % (short(fn), label), body.rec["span"], calls=ncalls, success_edges=nedges, holds=ok)
    if not ok:
        rule.fail((fn, "ok-not-dominated-by", label) + tuple(key_extra),
                  "%s: an Ok return is reachable on a path that does not pass the success edge of `%s` (calls found: %d)" % (short(fn), label, ncalls))
    return ok


IO_WRITE = re.compile(r"(^std::io::Write::write$|as std::io::Write>::write$)")


def short_write_sites(body):
    """Calls of `io::Write::write` (which may write fewer bytes than given) whose returned count is never inspected:
    [(block, terminator)].  `write_all` is the total variant."""
    out = []
    for bi, t in body.calls(IO_WRITE):
        tainted = body.taint_forward({M.place_local(t["dst"])}, extra_through=re.compile(r"::(unwrap|expect|unwrap_or|unwrap_or_default)$"))
        used = False
        for b in body.blocks:
            for s in b["s"]:
                if s["k"] == "assign" and s["rv"]["k"] == "binop":
                    if any(M.op_local(o) in tainted for o in (s["rv"]["a"], s["rv"]["b"]) if M.op_local(o) is not None):
                        used = True
        if not used:
            out.append((bi, t))
    return out


# ---- cross-property dependencies --------------------------------------------------------------------------------------------
_SUB = {}
_ACTIVE = []          # properties whose rules are being evaluated right now (outermost first)
_CYCLE_SKIPS = [0]


def subordinate(F, pid, tier):
    """Run another property's rules silently; return {rule id: [unlisted failure keys]} and the set of rule ids that ran."""
    if pid in _SUB:
        return _SUB[pid]
    mod = importlib.import_module(pid.lower())
    sub = Reporter(pid, tier)
    _ACTIVE.append(pid)
    skips0 = _CYCLE_SKIPS[0]
    try:
        mod.run(F, sub, tier)
    finally:
        _ACTIVE.pop()
    known = set()
    kf = os.path.join(VERIF, "known_findings.json")
    if os.path.exists(kf):
        for f in json.load(open(kf)).get("findings", []):
            if f["property"] == pid:
                known.add(f["key"])
    res = {r.rid: [k for k, _, _ in r.fails if k not in known] for r in sub.rules}
    if _CYCLE_SKIPS[0] == skips0:
        _SUB[pid] = res          # (a result computed with a dependency cut at a cycle is valid only inside that cycle: not cached)
    return res


def depends_on(rule, F, tier, deps, what):
    """`what` (a clause of this property) is established by rule instances of other properties: run them, require that they hold.
    Properties may depend on each other (C03 ⇐ C07-R2/R3 and C07 ⇐ C03-R3): a dependency on a property that is itself being evaluated
    further out is not followed again — that outer evaluation decides it, and reports it under its own id."""
    me = rule.rid.split("-")[0]
    pushed = False
    if not _ACTIVE:
        _ACTIVE.append(me)
        pushed = True
    try:
        for rid in deps:
            dp = rid.split("-")[0]
            rule.site("%s ⇐ %s" % (what, rid))
            if dp in _ACTIVE and dp != me:
                _CYCLE_SKIPS[0] += 1
                continue
            res = subordinate(F, dp, tier)
            if rid not in res:
                rule.fail(("depends", rid, "missing"), "%s relies on %s, which did not run" % (what, rid))
            elif res[rid]:
                rule.fail(("depends", rid), "%s relies on %s, which reported %s" % (what, rid, res[rid][0]))
    finally:
        if pushed:
            _ACTIVE.pop()


def with_helpers(F, fn, depth=2):
    """HIR roots of `fn` and of the non-exported workspace functions it calls (transitively, bounded): a presence test
    ("the function consults X") must not depend on whether the code sits in the function or in a private helper of it."""
    out, seen, todo = [], set(), [(fn, 0)]
    while todo:
        f, d = todo.pop()
        if f in seen:
            continue
        seen.add(f)
        h = F.hir(f)
        if h is None:
            continue
        out.append((f, H.root(h)))
        if d >= depth:
            continue
        for g in H.called_fns(H.root(h)):
            meta = F.fns.get(g)
            if meta is not None and not meta.get("exported") and g.split("::")[0] == fn.split("::")[0]:
                todo.append((g, d + 1))
    return out


def called_fns_deep(F, fn, depth=2):
    out = set()
    for _, r in with_helpers(F, fn, depth):
        out |= H.called_fns(r)
    return out


def literals_deep(F, fn, depth=2):
    out = []
    for _, r in with_helpers(F, fn, depth):
        out += H.literals(r)
    return out


def private_helper_of(F, fn, owners, depth=3):
    """`fn` is a non-exported function every (transitive, bounded) caller of which is one of `owners`: code that was
    extracted from the owners and can only run on their behalf.  Returns the set of owners it serves, or None."""
    base = lambda p_: re.sub(r"(::\{closure#\d+\})+$", "", p_)  # noqa: E731
    fn = base(fn)
    meta = F.fns.get(fn)
    if meta is None or meta.get("exported"):
        return None
    serves = set()
    seen = {fn}
    frontier = [fn]
    for _ in range(depth):
        nxt = []
        for g in frontier:
            cs = {base(p_) for (p_, _, _) in F.callers(g)} - {g}
            if not cs:
                return None          # dead or called through a path the index does not see: not provably owned
            for c in cs:
                if c in owners:
                    serves.add(c)
                    continue
                m = F.fns.get(c)
                if m is None or m.get("exported"):
                    return None
                if c not in seen:
                    seen.add(c)
                    nxt.append(c)
        frontier = nxt
        if not frontier:
            return serves or None
    return None


def _skips_exactly_none(F, ty, pred):
    """a hand-written skip predicate of an Option member, evaluated: true on None, false on every Some(_)"""
    import sym
    name = pred.rsplit("::", 1)[-1]
    mod = ty.rsplit("::", 1)[0]
    cands = [f for f in F.find(r"(^|::)%s$" % re.escape(name)) if f.startswith(mod.split("::")[0] + "::") and "{closure" not in f]
    near = [f for f in cands if f.startswith(mod + "::")] or cands
    if len(near) != 1 or F.hir(near[0]) is None:
        return False
    try:
        on_none = [q for q in sym.Evaluator(F, inline_depth=3).explore(near[0], args=[sym.V("None")])]
        on_some = [q for q in sym.Evaluator(F, inline_depth=3).explore(near[0], args=[sym.V("Some", (sym.Sym(("param", "x")),))])]
    except (sym.Abort, sym.TooManyPaths):
        return False

    def val(q):
        return q.ret[1] if isinstance(q.ret, tuple) and q.ret[:1] == ("lit",) else q.ret
    return bool(on_none) and bool(on_some) and all(q.complete and val(q) is True for q in on_none) and all(q.complete and val(q) is False for q in on_some)


def serde_skip_inverse(rule, F, ty, reviewed=None):
    """Every `skip_serializing_if = "P"` of `ty` omits exactly the value the deserialiser restores for a missing member:
    Option fields with P = Option::is_none, collection fields with P = <T>::is_empty and #[serde(default)].
    A predicate outside these shapes (one that also skips Some(false), 0, …) loses information in a round trip."""
    a = F.ast_item(ty)
    if not rule.anchor(a, ty + " (ast)"):
        return 0
    n = 0
    # a container-level #[serde(default)] fills every missing member from `<ty as Default>::default()` instead of the member type's own
    # default: what it puts there must be the value the writer omitted (None / empty), or the reader invents a value (e.g. `now`)
    cattrs = " ".join(a.get("attrs") or [])
    cdef = None
    if re.search(r"serde\s*\((?:[^()]|\([^()]*\))*\bdefault\b(?!\s*=)", cattrs):
        dfn = "<%s as core::default::Default>::default" % ty
        if F.hir(dfn) is not None and not F.derived_trait_of(dfn):
            import sym as _sym
            try:
                ps_ = [q for q in _sym.Evaluator(F).explore(dfn) if q.complete]
            except (_sym.Abort, _sym.TooManyPaths):
                ps_ = []
            cdef = [q.ret for q in ps_ if isinstance(q.ret, _sym.St)]
            if not cdef:
                rule.fail((ty, "container-default", "not-evaluable"), "%s is #[serde(default)] and its hand-written Default could not be evaluated" % short(ty))
    for f in a.get("fields", []):
        attrs = " ".join(f["attrs"])
        m = re.search(r'skip_serializing_if\s*=\s*"([^"]+)"', attrs)
        if m and cdef:
            import sym as _sym
            for st_ in cdef:
                v_ = st_.f.get(f["name"])
                t_ = _sym.term(v_) if v_ is not None else None
                empty_ = t_ == ("ctor", "None") or (isinstance(v_, list) and not v_) or (isinstance(t_, tuple) and t_[:1] == ("call",) and re.search(r"::(new|default)$", t_[1]) and not t_[2])
                rule.require(empty_, (ty, f["name"], "container-default"), "%s is #[serde(default)]: a missing `%s` (omitted by the writer when None / empty) is read back as %s, the value of %s::default()" % (
                    short(ty), f["name"], _sym.fmt(t_)[:80] if t_ is not None else None, short(ty)))
        if not m:
            if re.search(r"\bskip_serializing\b", attrs):
                rule.require("default" in attrs or f["ty"].replace(" ", "").startswith("Option<"), (ty, f["name"], "skip-without-default"), "%s.%s is never serialised but has no default" % (short(ty), f["name"]))
            continue
        n += 1
        pred = m.group(1).replace(" ", "")
        fty = f["ty"].replace(" ", "")
        rule.site("%s.%s: %s skip_serializing_if = %s" % (short(ty), f["name"], f["ty"], pred), f.get("span"))
        if reviewed and (ty, f["name"]) in reviewed:
            rule.exception("%s.%s" % (ty, f["name"]), "reviewed", reviewed[(ty, f["name"])])
            continue
        if fty.startswith("Option<"):
            ok = pred == "Option::is_none" or _skips_exactly_none(F, ty, pred)
            rule.require(ok, (ty, f["name"], "skip-predicate"), "%s.%s (an Option) is skipped by `%s`, not `Option::is_none`: a present value the predicate also skips (Some(false), Some(0), …) comes back as None" % (short(ty), f["name"], pred))
        else:
            ok = pred.endswith("::is_empty") and "default" in attrs
            rule.require(ok, (ty, f["name"], "skip-without-default") if "default" not in attrs else (ty, f["name"], "skip-predicate"),
                         "%s.%s is skipped by `%s`%s: only an empty collection with #[serde(default)] is restored unchanged" % (short(ty), f["name"], pred, "" if "default" in attrs else " without #[serde(default)]"))
    return n
