"""C19 — Ordered-set collections keep order and key-uniqueness over all op sequences."""
import re

import hir as H
import mir as M
import rulelib as L
import symrules as SR
import sym as SY
import c19model as CM

CRATES = ["identity_core"]
OS = "identity_core::common::ordered_set::OrderedSet"
OOS = "identity_core::common::one_or_set::OneOrSet"
OOSI = "identity_core::common::one_or_set::OneOrSetInner"
OOM = "identity_core::common::one_or_many::OneOrMany"

# which container-mutating std calls each OrderedSet method may apply to the inner Vec (frozen, one line of reason each)
ALLOWED_MUT = {
    OS + "::append": {"push"},                      # append at the end, guarded by !contains
    OS + "::prepend": {"insert"},                   # insert(0, ..), guarded by !contains
    OS + "::clear": {"clear"},
    OS + "::remove": {"remove"},                    # order-preserving removal (never swap_remove)
    OS + "::change": {"drain", "extend", "insert"},  # drop matching tail entries, re-append the rest, insert at first match
    OS + "::iter_mut_unchecked": {"iter_mut"},      # reviewed: named *_unchecked, outside the property's operation alphabet
    OS + "::head_mut": {"first_mut"},               # reviewed: hands out &mut to one element (key change possible), outside the alphabet
    OS + "::tail_mut": {"last_mut"},                # reviewed: as head_mut
}
MUT_API = re.compile(r"^(alloc::vec::Vec::|\[T\]::|alloc::vec::Vec::<.*>::|<alloc::vec::Vec as .*>::|core::slice::<impl \[T\]>::)?"
                     r"(push|insert|remove|swap_remove|clear|drain|extend|extend_from_slice|truncate|retain|retain_mut|pop|append|dedup|dedup_by|dedup_by_key|sort|sort_by|sort_by_key|"
                     r"sort_unstable|reverse|swap|rotate_left|rotate_right|iter_mut|first_mut|last_mut|get_mut|split_off|splice|resize|set_len|as_mut_slice|as_mut_ptr|fill|"
                     r"copy_from_slice|clone_from_slice|deref_mut|index_mut|as_mut)$")


def vec_mutations(body):
    """Names of mutating Vec/slice calls applied to (values derived from) `&mut self.0`."""
    seeds = set()
    for bi, b in enumerate(body.blocks):
        if b["cleanup"]:
            continue
        for s in b["s"]:
            if s["k"] == "assign" and s["rv"]["k"] in ("ref", "rawptr") and s["rv"].get("mut"):
                pl = s["rv"]["place"]
                if any(isinstance(e, dict) and e.get("f") == "0" and e.get("adt") == OS for e in M.place_proj(pl)):
                    seeds.add(M.place_local(s["dst"]))
    if not seeds:
        return [], False
    tainted = body.taint_forward(seeds, extra_through=re.compile(r"(deref_mut|DerefMut::deref_mut)$"))
    out = []
    for bi, t in body.calls():
        if t["args"] and M.op_local(t["args"][0]) in tainted:
            nm = (t.get("fn") or "")
            short = nm.rsplit("::", 1)[-1]
            if MUT_API.search(nm) or short in ("extend",):
                out.append((short, bi, t))
    return out, True


def run(F, R, tier):
    R.undecided += ["agreement with the list model for sets larger than the evaluation bound (4 elements quick, 5 thorough): each operation is decided on every set up to the bound in every key-equality world, and histories compose from single operations because the invariant (pairwise distinct keys) is re-established by each",
                    "KeyComparable implementations of element types"]
    # ------------------------------------------------------------------ R1 who writes the inner Vec, and how
    r1 = R.rule("C19-R1", "T1", "the inner Vec of OrderedSet is mutated only by append/prepend/change/remove/clear (+3 reviewed *_mut accessors), each using only its allowed Vec primitive")
    fs = F.adt_fields(OS)
    if r1.anchor(fs, OS):
        r1.require(fs[0]["vis"] != "pub", (OS, "field-visibility"), "the inner Vec of OrderedSet is public")
    seen = set()
    for p, b in F.fn_bodies(crates=None):
        body = F.mir(p, follow_async=False)
        if body is None:
            continue
        muts, touches = vec_mutations(body)
        if not touches:
            continue
        base = p.split("::{closure#")[0]
        names = {m[0] for m in muts}
        r1.site("%s takes &mut self.0 → %s" % (L.short(p), sorted(names)), body.rec["span"])
        seen.add(base)
        if F.derived_trait_of(base):
            continue
        if base in ALLOWED_MUT:
            continue
        serves = L.private_helper_of(F, base, set(ALLOWED_MUT))
        if serves:
            r1.exception(base, "checked", "private helper reachable only from %s; its effect is decided with them by C19-R2" % sorted(L.short(x) for x in serves))
            continue
        r1.fail((base, "mutates-inner-vec"), "%s takes a mutable reference to the inner Vec of OrderedSet but is not one of the reviewed mutators" % L.short(base))
    for k in ("append", "prepend", "remove", "clear"):
        r1.require(F.hir(OS + "::" + k) is not None, (OS + "::" + k, "ANCHOR"), "mutator OrderedSet::%s not found" % k)
    for sym in ("iter_mut_unchecked", "head_mut", "tail_mut"):
        r1.exception(OS + "::" + sym, "reviewed", "hands out &mut T (key change possible) — documented escape, outside the property's operation alphabet")
    # constructions of OrderedSet(..)
    for (p, bi, s) in F.constructions(OS):
        base = p.split("::{closure#")[0]
        r1.site("OrderedSet(..) constructed in %s" % L.short(p))
        ok = base in (OS + "::new", OS + "::with_capacity") or F.derived_trait_of(base) is not None or bool(L.private_helper_of(F, base, {OS + "::new", OS + "::with_capacity"}))
        r1.require(ok, (base, "constructs-OrderedSet"), "OrderedSet is built from a raw Vec in %s (only new/with_capacity start from an empty Vec)" % L.short(base))
    r1.floor(10)

    # ------------------------------------------------------------------ R2 the operations against the list model
    N = 5 if tier == "thorough" else 4
    r2 = R.rule("C19-R2", "T8", "append/prepend/update/replace/remove/clear, evaluated abstractly on sets of 0..%d generic elements, return the flag and leave the element sequence that a duplicate-free list model gives, in every key-equality world; uniqueness, order of the survivors and `refused ⇒ unchanged` hold on every path" % N)
    n_ops = CM.check_ops(F, r2, N=N)
    r2.note("%d (operation, set, world, path) cases decided; elements are opaque except for KeyComparable::key comparisons, which are left uninterpreted and enumerated" % n_ops)
    r2.require(n_ops >= {4: 125, 5: 187}.get(N, 78), ("C19-R2", "coverage"), "only %d cases were decided (fewer than on the reviewed tree): the model check has gone (partly) inert" % n_ops)
    r2.floor(6)

    # ------------------------------------------------------------------ R3 constructors
    r3 = R.rule("C19-R3", "T8+T12", "evaluated abstractly on 0..N inputs in every key-equality world: TryFrom<Vec<T>> gives Err(OrderedSetDuplicate) exactly when two inputs share a key and the inputs in order otherwise; FromIterator keeps the first occurrence of each key; serde try_from = Vec<T>")
    fn = "<" + OS + " as core::convert::TryFrom<alloc::vec::Vec>>::try_from"
    n3 = CM.check_ctor(F, r3, fn, "try", N=N)
    cands = F.find(r"^<identity_core::common::ordered_set::OrderedSet as core::iter::traits::collect::FromIterator(<.*>)?>::from_iter$")
    fn = cands[0] if cands else "<OrderedSet as FromIterator>::from_iter"
    n3 += CM.check_ctor(F, r3, fn, "collect", N=N)
    r3.require(n3 >= {4: 48, 5: 152}.get(N, 18), ("C19-R3", "coverage"), "only %d constructor cases were decided: the model check has gone (partly) inert" % n3)
    a = F.ast_item(OS)
    if r3.anchor(a, OS + " (ast)"):
        attrs = " ".join(a["attrs"])
        r3.site("OrderedSet attrs: %s" % [x for x in a["attrs"] if "serde" in x], a["span"])
        r3.require(re.search(r'try_from\s*=\s*"Vec<T>"', attrs) is not None, (OS, "serde-try_from"), "OrderedSet is not deserialised through TryFrom<Vec<T>> (duplicate keys in JSON would be accepted)")
    r3.floor(3)

    # ------------------------------------------------------------------ R4 OneOrSet / OneOrMany
    r4 = R.rule("C19-R4", "T1+T8", "OneOrSetInner is private and its Set variant is built only by the modelled functions; OneOrSet::{try_from(Vec), new_set, try_from(OrderedSet), map, try_map, append} and OneOrMany::{from(Vec), from_iter}, evaluated abstractly on 0..3 generic elements in every key-equality world, agree with the model (empty → Err, duplicates → Err, one → One, else Set/Many in order); deserialisation rejects empty sets")
    a = F.adt(OOSI)
    if r4.anchor(a, OOSI):
        r4.require(a["vis"] != "pub" and not a["reachable"], (OOSI, "private"), "OneOrSetInner is reachable from outside the crate: empty Set variants could be built")
    allowed_sites = {OOS + "::new_set": "len==1 → One else Set, after is_empty → Err", OOS + "::map": "mapped non-empty set, len==1 → One",
                     OOS + "::try_map": "as map", OOS + "::append": "temporary empty Set replaced by a 2-element set in the same arm"}
    for (p, bi, s) in F.constructions(OOSI, "Set"):
        base = p.split("::{closure#")[0]
        r4.note("OneOrSetInner::Set constructed in %s" % L.short(p))     # not a counted site: the number of construction sites is not part of the rule
        if F.derived_trait_of(base) or base in allowed_sites:
            continue
        serves = L.private_helper_of(F, base, set(allowed_sites))
        if serves:
            r4.exception(base, "checked", "private helper reachable only from %s, whose results are decided by the model check below" % sorted(L.short(x) for x in serves))
            continue
        r4.fail((base, "constructs-Set"), "OneOrSetInner::Set is constructed in %s, which is not a reviewed site" % L.short(base))
    # the constructors and operations, evaluated abstractly on 0..3 generic elements in every key-equality world, against the model:
    # empty → Err(OneOrSetEmpty); duplicate keys in a Vec → Err(OrderedSetDuplicate); exactly one element → One; otherwise Set in
    # input order; map/try_map re-normalise after the mapped keys collapse; append refuses a present key
    n4 = CM.check_oneorset(F, r4, N=3)
    r4.note("%d (function, input, world, path) cases decided" % n4)
    r4.require(n4 >= 56, ("C19-R4", "coverage"), "only %d OneOrSet/OneOrMany cases were decided: the model check has gone (partly) inert" % n4)
    # deserialize_non_empty_set wiring
    ai = F.ast_item(OOSI)
    if r4.anchor(ai, OOSI + " (ast)"):
        setv = next((v for v in ai["variants"] if v["name"] == "Set"), None)
        names = [v["name"] for v in ai["variants"]]
        r4.require(names == ["One", "Set"], (OOSI, "variant-order"), "untagged variant order must be One before Set: %s" % names)
        r4.require(any("untagged" in x for x in ai["attrs"]), (OOSI, "untagged"), "OneOrSetInner is not #[serde(untagged)]")
        ok = setv is not None and any("deserialize_non_empty_set" in x for f in setv["fields"] for x in f["attrs"]) or (setv is not None and any("deserialize_non_empty_set" in x for x in setv["attrs"]))
        r4.site("OneOrSetInner::Set deserialize_with deserialize_non_empty_set: %s" % ok, ai["span"])
        r4.require(ok, (OOSI, "deserialize_with"), "the Set variant is not deserialised with deserialize_non_empty_set")
    # the writer these readers invert is the derived one (One(x) → x, Set(s) / Many(v) → the whole sequence, a one-element set still a
    # sequence — which the untagged reader takes back as Set): a writer attribute on the enum, a variant or a field is accepted only
    # when the function it names writes exactly the whole value it was given
    for ty_ in (OOSI, "identity_core::common::one_or_many::OneOrMany"):
        at_ = F.ast_item(ty_)
        if at_ is None:
            continue
        alls_ = [(ty_, x) for x in at_["attrs"]] + [("%s::%s" % (ty_, v["name"]), x) for v in at_.get("variants", []) for x in list(v.get("attrs") or []) + [y for f in v["fields"] for y in f["attrs"]]]
        nw_ = 0
        for where_, x in alls_:
            if "serde" not in x:
                continue
            for m_ in re.finditer(r'\b(serialize_with|with|into|skip_serializing_if|skip_serializing|skip|rename|rename_all|tag|content|getter)\b\s*(=\s*"([^"]*)")?', x):
                kind_, fn_w = m_.group(1), m_.group(3)
                nw_ += 1
                ok_w = False
                if kind_ == "serialize_with" and fn_w:
                    cands = [f for f in F.bodies_all if f.endswith("::" + fn_w.split("::")[-1]) and f.startswith(ty_.rsplit("::", 1)[0])]
                    if len(cands) == 1 and F.hir(cands[0]) is not None:
                        try:
                            tw_ = SR.Table(F, cands[0], opaque=r"::serialize$")
                            p0 = SY.param_name(F, cands[0], 0)
                            ok_w = bool(tw_.paths) and all(len(q.calls(r"::serialize$")) == 1 and p0 is not None and SR.pure(q.calls(r"::serialize$")[0].args[0], SR.param(p0))
                                                           and SR.pure(q.ret, q.calls(r"::serialize$")[0].result.t) for q in tw_.paths)
                        except Exception:
                            ok_w = False
                r4.require(ok_w, (where_, "custom-writer", kind_), "%s carries the writer attribute `%s`%s: the untagged reader (One before Set, Set read as a non-empty sequence) is the inverse of the derived writer only — e.g. a one-element set written as a bare element is read back as One, not equal to what was written" % (
                    L.short(where_), m_.group(0), "" if not fn_w else " and %s does not write the whole value on every path" % fn_w))
        # a hand-written Serialize is accepted when, per variant, it writes exactly the variant's whole content (what the derive does)
        sfn_ = next(iter(F.find(r"^<%s as serde(_core)?::ser::Serialize>::serialize$" % re.escape(ty_))), None)
        hand_ = sfn_ is not None and not F.derived_trait_of(sfn_)
        if hand_:
            import sibling as SB
            for v_ in at_.get("variants", []):
                X_ = SY.Sym(("param", "content"))
                ps_ = SB.explore(F, sfn_, [SY.V(v_["name"], (X_,)), SY.Sym(("param", "serializer"))], opaque=r"::serialize$", rule=r4)
                okv_ = bool(ps_)
                for q in ps_:
                    ss_ = q.calls(r"::serialize$")
                    okv_ = okv_ and len(ss_) == 1 and SR.pure(ss_[0].args[0], ("param", "content")) and SR.pure(q.ret, ss_[0].result.t)
                r4.require(okv_, (sfn_, "custom-writer", v_["name"]), "the hand-written Serialize of %s does not write the whole content of the %s variant on every path (a one-element %s written as a bare element is read back as One)" % (
                    L.short(ty_), v_["name"], v_["name"]))
        r4.site("%s: %d writer attribute(s); written by %s" % (L.short(ty_), nw_, "a hand-written Serialize that forwards each variant's whole content" if hand_ else "the derived Serialize"))
    fn = "identity_core::common::one_or_set::deserialize_non_empty_set"
    if r4.anchor(F.hir(fn), fn):
        tab = SR.Table(F, fn, opaque=r"Deserialize::deserialize$|::deserialize$", rule=r4)
        okd = bool(tab.ok())
        for q in tab.ok():
            ne = [c for (a, c, _, _) in q.decisions if a[0] == "nonempty" and "deserialize" in SY.fmt(a[1])]
            okd = okd and ne == [True]
        r4.require(okd, (fn, "empty"), "deserialize_non_empty_set does not reject an empty set")
        # … and what it returns is the very set OrderedSet's own (duplicate-rejecting, C19-R3) deserialisation produced: not a set rebuilt
        # from a list with the de-duplicating constructor (FromIterator), which would accept `["a","b","a"]`
        for q in tab.ok():
            ds = [e for e in q.calls(r"ordered_set::OrderedSet as serde(_core)?::de::Deserialize>::deserialize$") if q.succeeded(e) is True]
            good = len(ds) == 1 and SR.pure(q.ret, ("payload", ds[0].result.t, "Ok", 0))
            if not good:
                # the other duplicate-rejecting constructor (C19-R3): OrderedSet::try_from(<deserialised Vec>) ✓
                tf = [e for e in q.calls(r"ordered_set::OrderedSet as core::convert::TryFrom<alloc::vec::Vec(<.*>)?>>::try_from$") if q.succeeded(e) is True]
                dv = [e for e in q.calls(r"::deserialize$") if q.succeeded(e) is True]
                good = len(tf) == 1 and len(dv) == 1 and SR.pure(tf[0].args[0], ("payload", dv[0].result.t, "Ok", 0)) and SR.pure(q.ret, ("payload", tf[0].result.t, "Ok", 0))
            r4.require(good, (fn, "own-deserialize"), "deserialize_non_empty_set does not return the set produced by OrderedSet::deserialize ✓ (the duplicate-rejecting reader): %s" % SY.fmt(SY.term(q.ret))[:160])
        r4.site("deserialize_non_empty_set: Ok only for a non-empty deserialised set: %s" % okd)
    r4.floor(12)
