"""C19 — Ordered-set collections keep order and key-uniqueness over all op sequences."""
import re

import hir as H
import mir as M
import rulelib as L
import symrules as SR
import sym as SY

CRATES = ["identity_core"]
OS = "identity_core::common::ordered_set::OrderedSet"
OOS = "identity_core::common::one_or_set::OneOrSet"
OOSI = "identity_core::common::one_or_set::OneOrSetInner"
OOM = "identity_core::common::one_or_many::OneOrMany"

# which container-mutating std calls each OrderedSet method may apply to the inner Vec (frozen, one line of reason each)
ALLOWED_MUT = {
    OS + "::append": {"push"},                      # append at the end, guarded by !contains
    OS + "::prepend": {"insert"},                   # insert(0, ..), guarded by !contains
    OS + "::clear": {"clear"},
    OS + "::remove": {"remove"},                    # order-preserving removal (never swap_remove)
    OS + "::change": {"drain", "extend", "insert"},  # drop matching tail entries, re-append the rest, insert at first match
    OS + "::iter_mut_unchecked": {"iter_mut"},      # reviewed: named *_unchecked, outside the property's operation alphabet
    OS + "::head_mut": {"first_mut"},               # reviewed: hands out &mut to one element (key change possible), outside the alphabet
    OS + "::tail_mut": {"last_mut"},                # reviewed: as head_mut
}
MUT_API = re.compile(r"^(alloc::vec::Vec::|\[T\]::|alloc::vec::Vec::<.*>::|<alloc::vec::Vec as .*>::|core::slice::<impl \[T\]>::)?"
                     r"(push|insert|remove|swap_remove|clear|drain|extend|extend_from_slice|truncate|retain|retain_mut|pop|append|dedup|dedup_by|dedup_by_key|sort|sort_by|sort_by_key|"
                     r"sort_unstable|reverse|swap|rotate_left|rotate_right|iter_mut|first_mut|last_mut|get_mut|split_off|splice|resize|set_len|as_mut_slice|as_mut_ptr|fill|"
                     r"copy_from_slice|clone_from_slice|deref_mut|index_mut|as_mut)$")


def vec_mutations(body):
    """Names of mutating Vec/slice calls applied to (values derived from) `&mut self.0`."""
    seeds = set()
    for bi, b in enumerate(body.blocks):
        if b["cleanup"]:
            continue
        for s in b["s"]:
            if s["k"] == "assign" and s["rv"]["k"] in ("ref", "rawptr") and s["rv"].get("mut"):
                pl = s["rv"]["place"]
                if any(isinstance(e, dict) and e.get("f") == "0" and e.get("adt") == OS for e in M.place_proj(pl)):
                    seeds.add(M.place_local(s["dst"]))
    if not seeds:
        return [], False
    tainted = body.taint_forward(seeds, extra_through=re.compile(r"(deref_mut|DerefMut::deref_mut)$"))
    out = []
    for bi, t in body.calls():
        if t["args"] and M.op_local(t["args"][0]) in tainted:
            nm = (t.get("fn") or "")
            short = nm.rsplit("::", 1)[-1]
            if MUT_API.search(nm) or short in ("extend",):
                out.append((short, bi, t))
    return out, True


def run(F, R, tier):
    R.undecided += ["order/content equality with an abstract list model over whole operation histories (the rules decide the per-operation shape: guard, position, and which Vec primitive is used)",
                    "KeyComparable implementations of element types"]
    # ------------------------------------------------------------------ R1 who writes the inner Vec, and how
    r1 = R.rule("C19-R1", "T1", "the inner Vec of OrderedSet is mutated only by append/prepend/change/remove/clear (+3 reviewed *_mut accessors), each using only its allowed Vec primitive")
    fs = F.adt_fields(OS)
    if r1.anchor(fs, OS):
        r1.require(fs[0]["vis"] != "pub", (OS, "field-visibility"), "the inner Vec of OrderedSet is public")
    seen = set()
    for p, b in F.fn_bodies(crates=None):
        body = F.mir(p, follow_async=False)
        if body is None:
            continue
        muts, touches = vec_mutations(body)
        if not touches:
            continue
        base = p.split("::{closure#")[0]
        names = {m[0] for m in muts}
        r1.site("%s takes &mut self.0 → %s" % (L.short(p), sorted(names)), body.rec["span"])
        seen.add(base)
        if F.derived_trait_of(base):
            continue
        allowed = ALLOWED_MUT.get(base)
        if allowed is None:
            r1.fail((base, "mutates-inner-vec"), "%s takes a mutable reference to the inner Vec of OrderedSet but is not one of the reviewed mutators" % L.short(base))
            continue
        extra = names - allowed
        r1.require(not extra, (base, "vec-primitive", ",".join(sorted(extra))), "%s mutates the inner Vec with %s; allowed for this method: %s (order/uniqueness argument depends on it)" % (L.short(base), sorted(extra), sorted(allowed)),
                   muts[0][2]["sp"] if muts else None)
    for k in ("append", "prepend", "change", "remove", "clear"):
        r1.require(OS + "::" + k in seen, (OS + "::" + k, "ANCHOR"), "mutator OrderedSet::%s not found or does not touch the inner Vec" % k)
    for sym in ("iter_mut_unchecked", "head_mut", "tail_mut"):
        r1.exception(OS + "::" + sym, "reviewed", "hands out &mut T (key change possible) — documented escape, outside the property's operation alphabet")
    # constructions of OrderedSet(..)
    for (p, bi, s) in F.constructions(OS):
        base = p.split("::{closure#")[0]
        r1.site("OrderedSet(..) constructed in %s" % L.short(p))
        ok = base in (OS + "::new", OS + "::with_capacity") or F.derived_trait_of(base) is not None
        r1.require(ok, (base, "constructs-OrderedSet"), "OrderedSet is built from a raw Vec in %s (only new/with_capacity start from an empty Vec)" % L.short(base))
    r1.floor(10)

    # ------------------------------------------------------------------ R2 guarded insertion and change()
    r2 = R.rule("C19-R2", "T2+T3", "push/insert(0) only on the !contains edge, refusal mutates nothing; change(): first match index, tail filtered by the same predicate, data inserted at that index; remove(): first key match")
    for fn, prim in ((OS + "::append", "push"), (OS + "::prepend", "insert")):
        body = F.mir(fn)
        h = F.hir(fn)
        if not (r2.anchor(body, fn) and r2.anchor(h, fn)):
            continue

        def classify(root, b):
            if root[0] == "call" and M.callee(root[1]).endswith("OrderedSet::contains"):
                return "contains"
            return None
        atoms = M.switch_atoms(body, classify)
        muts, _ = vec_mutations(body)
        targets = [bi for _, bi, _ in muts]
        vals = M.path_valuations(body, atoms, targets)
        for nm, bi, t in muts:
            vs = vals.get(bi, set())
            ok = bool(vs) and all(("contains", False) in v for v in vs)
            r2.site("%s: %s reached only with contains == false: %s" % (L.short(fn), nm, ok), t["sp"])
            r2.require(ok, (fn, "unguarded-" + nm), "%s: the Vec is mutated on a path where `self.contains(&item)` was not false" % L.short(fn), t["sp"])
        r2.require(len(muts) == 1 and muts[0][0] == prim, (fn, "primitive"), "%s must perform exactly one `%s`" % (L.short(fn), prim))
        # contains is asked about the item being inserted; return value: false on refusal, true after insertion
        env = H.Env(h)
        for c in H.calls(h, OS + "::contains"):
            oo = H.origins(H.call_args(c)[1], env)
            r2.require(oo == {("param", "item")}, (fn, "contains-arg"), "contains is not asked about the item being inserted")
        tree, infos = L.exit_infos(h)
        for e in infos:
            conds = [c[2] for c in e.conds if c[0] == "if" and H.strip(c[1]).get("k") == "mcall" and H.strip(c[1])["name"] == "contains"]
            lit = H.literals(e.node)
            r2.site("%s: returns %s when contains == %s" % (L.short(fn), lit, conds))
            r2.require((conds == [True] and lit == [False]) or (conds == [False] and lit == [True]), (fn, "result-flag"), "%s: result flag %s under contains == %s" % (L.short(fn), lit, conds))
        if prim == "insert":
            for c in [n for n in H.walk(H.root(h)) if n.get("k") == "mcall" and n["name"] == "insert"]:
                r2.require(H.literals(c["args"][0]) == [0], (fn, "insert-position"), "prepend does not insert at position 0")
                r2.require(H.origins(c["args"][1], env) == {("param", "item")}, (fn, "insert-item"), "prepend does not insert the item")
        else:
            for c in [n for n in H.walk(H.root(h)) if n.get("k") == "mcall" and n["name"] == "push"]:
                r2.require(H.origins(c["args"][0], env) == {("param", "item")}, (fn, "push-item"), "append does not push the item")
    # contains: any(|other| other.key() == item.key())
    h = F.hir(OS + "::contains")
    if r2.anchor(h, OS + "::contains"):
        env = H.Env(h)
        ok = False
        for c in H.walk(H.root(h)):
            if c.get("k") == "mcall" and c["name"] == "any":
                cl = H.strip(c["args"][0])
                for cmp in H.comparisons(cl.get("body"), ("Eq",)):
                    fns = [H.fn_name(H.strip(x)) or "" for x in (cmp["l"], cmp["r"])]
                    oo = H.origins(H.call_args(H.strip(cmp["l"]))[0], env) | H.origins(H.call_args(H.strip(cmp["r"]))[0], env) if all(f.endswith("KeyComparable::key") for f in fns) else set()
                    if any(o[0] == "closure_param" for o in oo) and ("param", "item") in oo:
                        ok = True
                ro = H.origins(c["recv"], env, extra=re.compile(r"iter$"))
                r2.require(ro == {("param", "self", "0")}, (OS + "::contains", "scans-all"), "contains does not scan the whole inner Vec")
        r2.site("contains = self.0.iter().any(|o| o.key() == item.key()): %s" % ok)
        r2.require(ok, (OS + "::contains", "key-eq"), "contains is not `any(|other| other.key() == item.key())`")
    # change()
    fn = OS + "::change"
    h = F.hir(fn)
    if r2.anchor(h, fn):
        env = H.Env(h)
        idx = [n for n in H.walk(H.root(h)) if n.get("k") == "let" and any(b[0] == "index" for b in H.pat_bindings(n["pat"]))]
        okpos = False
        if idx:
            init = H.strip(idx[0]["init"])
            if init.get("k") == "mcall" and init["name"] == "position":
                cl = H.strip(init["args"][0])
                calls_f = [c for c in H.walk(cl.get("body")) if c.get("k") in ("call", "mcall") and (c.get("callee") or {}).get("res", {}).get("local") == "f" or (H.fn_name(c) or "").endswith("Fn::call")]
                okpos = bool(calls_f) and H.origins(init["recv"], env, extra=re.compile(r"iter$")) == {("param", "self", "0")}
        r2.site("change: index = self.0.iter().position(|item| f(item, &data)): %s" % okpos)
        r2.require(okpos, (fn, "first-match"), "change(): the index is not the first position matching f")
        iflet = H.find_first(h, lambda n: n.get("k") == "if" and H.strip(n["cond"]).get("k") == "letexpr")
        if r2.require(iflet is not None, (fn, "if-let"), "change(): `if let Some(index) = index` not found"):
            seq = []
            for n in H.walk(iflet["then"]):
                if n.get("k") == "mcall" and n["name"] in ("drain", "extend", "insert", "push", "remove", "swap_remove", "retain", "truncate", "splice", "append", "clear"):
                    seq.append(n)
            names = [n["name"] for n in seq]
            r2.site("change: mutation sequence %s" % names, iflet["sp"])
            r2.require(sorted(names) == ["drain", "extend", "insert"] and names.index("insert") == 2, (fn, "sequence"), "change(): expected drain → extend → insert(index, data), found %s" % names)
            for n in seq:
                if n["name"] == "drain":
                    rng = H.strip(n["args"][0])
                    okr = rng.get("k") == "struct" and H.variant_name(rng["res"]) == "RangeFrom" and H.local_name(rng["fields"][0]["e"]) == "index"
                    r2.require(okr, (fn, "drain-range"), "change(): the drained range is not `index..`")
                    # the filter keeps entries NOT matching f
                    par = [m for m in H.walk(iflet["then"]) if m.get("k") == "mcall" and m["name"] == "filter"]
                    okf = False
                    for m in par:
                        cl = H.strip(m["args"][0])
                        inner, neg = H.negated(cl.get("body"))
                        okf = okf or neg
                    r2.require(okf, (fn, "filter-negated"), "change(): the drained tail is not filtered by `!f(item, &data)`")
                if n["name"] == "insert":
                    r2.require(H.local_name(n["args"][0]) == "index" and H.origins(n["args"][1], env) == {("param", "data")}, (fn, "insert-args"), "change(): data is not inserted at the first-match index")
                if n["name"] == "extend":
                    r2.require(H.local_name(n["args"][0]) == "keep", (fn, "extend-arg"), "change(): the kept tail is not re-appended")
        for n, oc in H.exits(h):
            n2 = H.strip(n)
            r2.require(n2.get("k") == "mcall" and n2["name"] == "is_some" and H.local_name(n2["recv"]) == "index", (fn, "returns"), "change() does not return index.is_some()")
    # replace / update predicates
    for fn, want in ((OS + "::replace", {"current", "update"}), (OS + "::update", {"update"})):
        h = F.hir(fn)
        if not r2.anchor(h, fn):
            continue
        env = H.Env(h)
        cs = H.calls(h, OS + "::change")
        if r2.require(len(cs) == 1, (fn, "delegates"), "%s does not delegate to change()" % L.short(fn)):
            a = H.call_args(cs[0])
            r2.require(H.origins(a[1], env) == {("param", "update")}, (fn, "data-arg"), "%s does not pass `update` as the new element" % L.short(fn))
            cl = H.strip(a[2])
            keys = set()
            for cmp in H.comparisons(cl.get("body"), ("Eq",)):
                for side in (cmp["l"], cmp["r"]):
                    sd = H.strip(side)
                    if (H.fn_name(sd) or "").endswith("KeyComparable::key"):
                        for o in H.origins(H.call_args(sd)[0], env):
                            if o[0] == "param":
                                keys.add(o[1])
                            elif o[0] == "closure_param":
                                keys.add("closure:%d" % o[2])
            ds = H.disjuncts(cl.get("body"))
            r2.site("%s predicate compares item.key() with %s keys (%d disjunct(s))" % (L.short(fn), sorted(k for k in keys if not k.startswith("closure")), len(ds)), cs[0]["sp"])
            got = {k for k in keys if not k.startswith("closure")}
            # in `update` the second closure parameter is the new element itself
            ok = (fn.endswith("replace") and got == {"current"} and "closure:1" in keys and len(ds) == 2) or (fn.endswith("update") and "closure:1" in keys and "closure:0" in keys and len(ds) == 1 and not got)
            r2.require(ok, (fn, "predicate"), "%s: unexpected key predicate (keys %s, %d disjuncts)" % (L.short(fn), sorted(keys), len(ds)))
    # remove(): first entry whose key equals item.key(), removed with Vec::remove
    fn = OS + "::remove"
    h = F.hir(fn)
    if r2.anchor(h, fn):
        env = H.Env(h)
        rm = [n for n in H.walk(H.root(h)) if n.get("k") == "mcall" and n["name"] in ("remove", "swap_remove")]
        r2.require(len(rm) == 1 and (H.fn_name(rm[0]) or "").endswith("Vec::remove"), (fn, "primitive"), "remove() does not use the order-preserving Vec::remove")
        finds = [n for n in H.walk(H.root(h)) if n.get("k") == "mcall" and n["name"] in ("find", "position")]
        okk = False
        for f_ in finds:
            cl = H.strip(f_["args"][0])
            for cmp in H.comparisons(cl.get("body"), ("Eq",)):
                sides = [H.strip(cmp["l"]), H.strip(cmp["r"])]
                if all((H.fn_name(s) or "").endswith("KeyComparable::key") for s in sides):
                    oo = H.origins(H.call_args(sides[0])[0], env) | H.origins(H.call_args(sides[1])[0], env)
                    if ("param", "item") in oo and any(o[0] == "closure_param" for o in oo):
                        okk = True
        r2.site("remove: first entry with entry.key() == item.key(), Vec::remove(idx): %s" % okk)
        r2.require(okk, (fn, "key-match"), "remove() does not locate the entry by key equality with the argument")
    r2.floor(12)

    # ------------------------------------------------------------------ R3 constructors
    r3 = R.rule("C19-R3", "T2+T12", "TryFrom<Vec<T>> errors on the first refused append; FromIterator ignores refused appends (keeps first occurrences); serde try_from = Vec<T>")
    fn = "<" + OS + " as core::convert::TryFrom<alloc::vec::Vec>>::try_from"
    if r3.anchor(F.hir(fn), fn):
        # by abstract evaluation with append as an opaque call on a generic element of the input: a refused append is an error,
        # every element goes through append, and the set returned is the one that was filled
        tab = SR.Table(F, fn, opaque=r"OrderedSet::append$", rule=r3)
        OTHER = SR.param("other")
        rej = acc = False
        for q in tab.paths:
            aps = [e for e in q.calls(r"OrderedSet::append$") if isinstance(e.args[1], SY.Sym) and e.args[1].t[:1] == ("elem",) and e.args[1].t[1] == OTHER]
            if q.val.get(("nonempty", OTHER)) is True:
                if not r3.require(len(aps) == 1, (fn, "duplicate-rejected"), "TryFrom<Vec<T>> does not pass every element of the input through append"):
                    continue
                ok_ = q.succeeded(aps[0])
                if SR.is_success(q.ret):
                    acc = True
                    r3.require(ok_ is True, (fn, "duplicate-rejected"), "TryFrom<Vec<T>> does not reject a Vec with duplicate keys on the first refused append")
                    out = q.ret.fields[0] if isinstance(q.ret, SY.V) and q.ret.fields else None
                    r3.require(out is not None and SY.term(out) == SY.term(aps[0].args[0]), (fn, "returns"), "TryFrom<Vec<T>> does not return the set it filled")
                else:
                    rej = rej or (ok_ is False and SR.err_name(q.ret) == "OrderedSetDuplicate")
        r3.require(rej and acc or not tab.paths, (fn, "duplicate-rejected"), "TryFrom<Vec<T>> does not reject a Vec with duplicate keys on the first refused append")
        r3.site("TryFrom<Vec>: every element → append; refused append → Err(OrderedSetDuplicate); returns the filled set")
    cands = F.find(r"^<identity_core::common::ordered_set::OrderedSet as core::iter::traits::collect::FromIterator(<.*>)?>::from_iter$")
    fn = cands[0] if cands else "<OrderedSet as FromIterator>::from_iter"
    if r3.anchor(F.hir(fn), fn):
        tab = SR.Table(F, fn, opaque=r"OrderedSet::append$|size_hint$", rule=r3)
        okf = False
        for q in tab.paths:
            aps = q.calls(r"OrderedSet::append$")
            if aps:
                okf = True
                r3.require(SR.is_success(q.ret) and not isinstance(q.ret, SY.V) or SR.is_success(q.ret), (fn, "dedup-first"), "FromIterator fails on a refused append instead of keeping the first occurrence")
                r3.require(q.succeeded(aps[0]) is None, (fn, "dedup-first"), "FromIterator branches on the result of append (it must simply keep the first occurrence of each key)")
        r3.require(okf or not tab.paths, (fn, "dedup-first"), "FromIterator does not insert through append (which keeps the first occurrence of each key)")
        r3.site("FromIterator: every item → append, result ignored")
    a = F.ast_item(OS)
    if r3.anchor(a, OS + " (ast)"):
        attrs = " ".join(a["attrs"])
        r3.site("OrderedSet attrs: %s" % [x for x in a["attrs"] if "serde" in x], a["span"])
        r3.require(re.search(r'try_from\s*=\s*"Vec<T>"', attrs) is not None, (OS, "serde-try_from"), "OrderedSet is not deserialised through TryFrom<Vec<T>> (duplicate keys in JSON would be accepted)")
    r3.floor(3)

    # ------------------------------------------------------------------ R4 OneOrSet / OneOrMany
    r4 = R.rule("C19-R4", "T1+T4", "OneOrSetInner::Set is only built from a set known to have ≠ 1 (and ≥ 1) elements; TryFrom<Vec> rejects duplicates via OrderedSet::try_from; deserialisation rejects empty sets; OneOrMany normalisation")
    a = F.adt(OOSI)
    if r4.anchor(a, OOSI):
        r4.require(a["vis"] != "pub" and not a["reachable"], (OOSI, "private"), "OneOrSetInner is reachable from outside the crate: empty Set variants could be built")
    allowed_sites = {OOS + "::new_set": "len==1 → One else Set, after is_empty → Err", OOS + "::map": "mapped non-empty set, len==1 → One",
                     OOS + "::try_map": "as map", OOS + "::append": "temporary empty Set replaced by a 2-element set in the same arm"}
    for (p, bi, s) in F.constructions(OOSI, "Set"):
        base = p.split("::{closure#")[0]
        r4.site("OneOrSetInner::Set constructed in %s" % L.short(p))
        if F.derived_trait_of(base):
            continue
        r4.require(base in allowed_sites, (base, "constructs-Set"), "OneOrSetInner::Set is constructed in %s, which is not a reviewed site" % L.short(base))
    # new_set table
    fn = OOS + "::new_set"
    h = F.hir(fn)
    if r4.anchor(h, fn):
        env = H.Env(h)
        tree, infos = L.exit_infos(h)
        gs = L.block_guards(H.root(h))
        empty_err = any(H.strip(c).get("k") == "mcall" and H.strip(c)["name"] == "is_empty" and oc == "Err(OneOrSetEmpty)" for c, oc, _ in gs)
        r4.require(empty_err, (fn, "empty"), "new_set does not reject an empty set with OneOrSetEmpty")
        for e in infos:
            if e.outcome != "Ok":
                continue
            conds = []
            for c in e.conds:
                if c[0] == "if":
                    cc = H.strip(c[1])
                    if cc.get("k") == "binary" and cc["op"] == "Eq" and H.literals(cc) == [1]:
                        conds.append(c[2])
            _, inner = H.ctor_class(e.node)
            built = "One" if any(f.endswith("new_one") for f in H.called_fns(inner)) else ("Set" if any(H.variant_name(x.get("ctor", {})) == "Set" for x in H.walk(inner) if x.get("k") == "call") else "?")
            r4.site("new_set: len()==1 is %s → %s" % (conds, built), e.node.get("sp"))
            r4.require((conds == [True] and built == "One") or (conds == [False] and built == "Set"), (fn, "normalisation"), "new_set builds %s when len()==1 is %s" % (built, conds))
    for fn in (OOS + "::map", OOS + "::try_map"):
        h = F.hir(fn)
        if r4.anchor(h, fn):
            ok = False
            for n in H.walk(H.root(h)):
                if n.get("k") == "if":
                    cc = H.strip(n["cond"])
                    if cc.get("k") == "binary" and cc["op"] == "Eq" and H.literals(cc) == [1]:
                        t1 = H.ctor_class(n["then"])[0]
                        t2 = H.ctor_class(n["else"])[0] if n.get("else") else None
                        ok = (t1, t2) == ("One", "Set")
            r4.site("%s: len()==1 → One else Set: %s" % (L.short(fn), ok))
            r4.require(ok, (fn, "normalisation"), "%s does not re-normalise a mapped set of one element to One" % L.short(fn))
    # TryFrom<Vec<T>> for OneOrSet goes through OrderedSet::try_from (duplicates rejected) then new_set
    fn = "<" + OOS + " as core::convert::TryFrom<alloc::vec::Vec>>::try_from"
    h = F.hir(fn)
    if r4.anchor(h, fn):
        env = H.Env(h)
        L.require_tried_before_success(r4, F, fn, [("OrderedSet::try_from(other)", re.compile(r"OrderedSet as core::convert::TryFrom<alloc::vec::Vec>>::try_from$|TryFrom::try_from$"))], delegate=None)
        for n, oc in H.exits(h):
            n2 = H.strip(n)
            r4.require(n2.get("k") == "call" and (H.fn_name(n2) or "") == OOS + "::new_set", (fn, "delegates-new_set"), "TryFrom<Vec<T>> for OneOrSet does not finish through new_set")
            if n2.get("k") == "call":
                oo = H.origins(n2["args"][0], env)
                r4.require(bool(oo) and all(o[0] == "call" and "try_from" in o[1] for o in oo), (fn, "set-source"), "the set given to new_set is not the duplicate-checked OrderedSet::try_from(other)?: %s" % sorted(map(str, oo)))
        for c in H.calls(h, re.compile(r"try_from$")):
            r4.require("identity_core::common::ordered_set::OrderedSet" in (c.get("targs") or []) or "OrderedSet" in (H.fn_name(c) or ""), (fn, "try_from-type"), "the Vec is not converted with OrderedSet::try_from")
    # deserialize_non_empty_set wiring
    ai = F.ast_item(OOSI)
    if r4.anchor(ai, OOSI + " (ast)"):
        setv = next((v for v in ai["variants"] if v["name"] == "Set"), None)
        names = [v["name"] for v in ai["variants"]]
        r4.require(names == ["One", "Set"], (OOSI, "variant-order"), "untagged variant order must be One before Set: %s" % names)
        r4.require(any("untagged" in x for x in ai["attrs"]), (OOSI, "untagged"), "OneOrSetInner is not #[serde(untagged)]")
        ok = setv is not None and any("deserialize_non_empty_set" in x for f in setv["fields"] for x in f["attrs"]) or (setv is not None and any("deserialize_non_empty_set" in x for x in setv["attrs"]))
        r4.site("OneOrSetInner::Set deserialize_with deserialize_non_empty_set: %s" % ok, ai["span"])
        r4.require(ok, (OOSI, "deserialize_with"), "the Set variant is not deserialised with deserialize_non_empty_set")
    fn = "identity_core::common::one_or_set::deserialize_non_empty_set"
    h = F.hir(fn)
    if r4.anchor(h, fn):
        gs = L.block_guards(H.root(h))
        ok = any(H.strip(c).get("k") == "mcall" and H.strip(c)["name"] == "is_empty" and oc.startswith("Err(") for c, oc, _ in gs)
        r4.require(ok, (fn, "empty"), "deserialize_non_empty_set does not reject an empty set")
        r4.site("deserialize_non_empty_set: is_empty → Err")
    # OneOrMany: From<Vec> normalisation
    fn = "<" + OOM + " as core::convert::From<alloc::vec::Vec>>::from"
    h = F.hir(fn)
    if r4.anchor(h, fn):
        ok = False
        for n in H.walk(H.root(h)):
            if n.get("k") == "if":
                cc = H.strip(n["cond"])
                if cc.get("k") == "binary" and cc["op"] == "Eq" and H.literals(cc) == [1]:
                    ok = (H.ctor_class(n["then"])[0], H.ctor_class(n["else"])[0] if n.get("else") else None) == ("One", "Many")
        r4.site("OneOrMany::from(Vec): len()==1 → One else Many: %s" % ok)
        r4.require(ok, (fn, "normalisation"), "From<Vec<T>> for OneOrMany does not normalise a singleton to One")
    r4.floor(14)
