# Table of claimed properties (read by manifest_gen.py).  claim(pid, technique, text, residue, design_ref) / na(pid, reason)
claim("C12", "path-sensitive abstract evaluation of the typed HIR over uninterpreted atoms (decision-table derivation, helpers inlined) + MIR mask constant-folding + path-valuation dominance + who-may-write",
      "Decides for all indices/values: set/clear/test masks are a single bit and its exact complement for each of the 8 offsets (constant folding of the "
      "MIR mask expressions), byte/bit geometry, every *_unchecked call is control-dependent on index < len, the revocation one-way test "
      "(purpose==Revocation && !value && current) can never reach StatusList2021::set or Ok on any CFG path, who may call set / write encoded_list, "
      "encode/decode base+gzip pairing, and the status decision tables. These are necessary conditions of the bit-vector behaviour, decided on every path; "
      "the behaviour on concrete compressed data is not executed.",
      "gzip/base64 round trip on concrete lists; minimum size of decoded lists.", "DESIGN.md §7 C12")

claim("C11", "path-sensitive abstract evaluation of the typed HIR over uninterpreted atoms (decision-table derivation, helpers inlined) + HIR structural-dominance guard inventory + decision-table extraction + field-coverage + spec-table agreement",
      "Decides for all header contents: validate_jws_headers is the conjunction of the disjointness, crit and b64 validators applied to (protected, unprotected) and "
      "every encoder constructor and the decoder can only succeed after it succeeded; validate_crit's five rejections are present with the right polarity and "
      "outcome and its tables reject every RFC 7515/7516/7518 registered name and permit only implemented extensions; validate_b64's table (incl. the composition that "
      "makes its catch-all row unreachable); is_disjoint/has cover every header field (from the struct definition and serde names); add_recipient's b64 equality "
      "dominates success; verify() requires a protected header with alg; JSON containers deny unknown fields. The statement is a decision table; the rules extract it from the code.",
      "serde's handling of duplicate member names inside one JSON header object.", "DESIGN.md §7 C11")

claim("C01", "path-sensitive abstract evaluation of the typed HIR over uninterpreted atoms (decision-table derivation, helpers inlined) + HIR argument-provenance (origin) analysis + MIR success-edge dominance + construction-site enumeration + decision tables",
      "Decides on every path of the decoder and verifiers: the signing input is create_message(bytes of the received protected segment, received payload) with "
      "header,'.',payload appended in that order and nothing re-serialised; JwsValidationItem/DecodedJws are constructed at exactly one site each and never mutated; "
      "alg and b64 are read only from the protected header; Ok(DecodedJws) is dominated by the success edges of Jwk::check_alg(protected alg) and JwsVerifier::verify(input built "
      "from the item's own signing input/signature, caller's key); check_alg and expand_payload decision tables; claims = decode_b64(payload) iff b64 absent/true else the payload "
      "itself; the three concrete verifiers return Ok only from the success edge of the crypto verify over (input.signing_input, input.decoded_signature, public_key) and the alg "
      "dispatch tables; no caller drops the verification result. Necessary structural conditions of the binding, not an execution of signatures.",
      "that the crypto libraries reject every mutated message/signature; base64 decoder strictness.", "DESIGN.md §7 C01")

claim("C02", "path-sensitive abstract evaluation of the typed HIR over uninterpreted atoms (decision-table derivation, helpers inlined) + HIR structural dominance (tried-call / guard inventory) + argument provenance + MIR success-edge dominance + decision tables + comparison-role normalisation",
      "Decides on every path: validate = verify_signature ✓ then validate_decoded_credential on the verified token; verify_signature_with_verifier's Ok is dominated by decode, parse_jwk, "
      "verify_decoded_signature (→ JwsValidationItem::verify, C01) and extract_issuer successes and by issuer == method_id.did(); parse_jwk's full nonce equality dominates, the method id is the "
      "configured one or DIDUrl::parse(protected kid), the issuer document is selected by DID equality and the key resolved in options.method_scope; the five validation units call the five checks "
      "with the configured bounds and all flow into the error collector, fail-fast table, Ok iff no error, returned token is the validated one; the unit predicates' comparison roles "
      "(expiry ≥ bound or absent, issuance ≤ bound), subject-holder and status tables, bitmap membership test and Credential::check_structure guards.",
      "truth of the conjunction on concrete inputs is implied only together with C01/C06/C13 and not separately executed; DID parser acceptance (C10).", "DESIGN.md §7 C02")
claim("C07", "path-sensitive abstract evaluation of the typed HIR over uninterpreted atoms (decision-table derivation, helpers inlined) + HIR field-flow coverage against struct definitions + abstract Option/bool evaluation of the consistency guards + serde attribute wiring",
      "Decides for all credentials/presentations/claims sets: both `new` constructors destructure exhaustively (no `..`) and carry every field of Credential/Presentation (taken from the ADT) "
      "into exactly the registered claim or the same-named vc/vp member, duplicated members None; both try_into_* rebuild every field from the matching claim and discard only the duplicated members; "
      "check_consistency ✓ dominates reconstruction, compares exactly the discarded members, and — by abstract evaluation of its guards under presence assumptions — rejects a present vc/vp member whose "
      "optional registered claim is absent while accepting claims without duplicates; every i64→Timestamp conversion goes through from_unix with the error propagated (nbf preferred, iat fallback, "
      "both absent an error); every skip_serializing_if field is Option or defaulted.",
      "JSON-level equality of arbitrary properties/custom maps (serde flatten collisions); serde round trip of the individual field types.", "DESIGN.md §7 C07")

claim("C03", "path-sensitive abstract evaluation of the typed HIR over uninterpreted atoms (decision-table derivation, helpers inlined) + HIR structural dominance + argument provenance + comparison-role normalisation + MIR success-edge dominance",
      "Decides on every path of JwtPresentationValidator::validate and CoreDocument::verify_jws: Ok is dominated by verify_jws ✓ on the holder parameter with the configured verifier options "
      "and the validator's own verifier; claims are parsed from the verified payload; CoreDID::from_str(claims.iss) ✓ and whole-DID equality with holder.id() dominate; expiry (absent or ≥ bound) and "
      "issuance (absent or ≤ bound; present whenever iat OR nbf is) checks are unconditional `?` statements with the right comparison roles; every returned value derives from the verified claims / "
      "protected header; verify_jws: full nonce equality dominates, query = configured method id or protected kid, resolved on self in options.method_scope, verify(verifier, that key) returned; "
      "DIDUrlQuery::matches requires DID equality when present and both fragments equal.",
      "truth of the conjunction on concrete tokens (with C01, C10, C13); first-match semantics of resolve_method.", "DESIGN.md §7 C03")

claim("C19", "path-sensitive abstract evaluation of the typed HIR over uninterpreted atoms, here with concrete collection shapes: a bounded abstract model check of every operation and constructor against a duplicate-free list model in all key-equality worlds + MIR who-may-write enumeration of the inner Vec + serde wiring",
      "Decides, for sets of 0..4 generic elements (0..5 in the thorough tier) and every way the KeyComparable::key comparisons can come out: append/prepend/update/replace/remove/clear return the "
      "flag/value and leave the element sequence that a duplicate-free list model gives; on every path keys stay unique, surviving elements keep their order and a refused operation changes nothing; "
      "TryFrom<Vec> gives Err(OrderedSetDuplicate) exactly when two inputs share a key, FromIterator keeps first occurrences; OneOrSet::{try_from(Vec), new_set, try_from(OrderedSet), map, try_map, append} "
      "and OneOrMany::{from(Vec), from_iter} agree with their model (empty → Err, duplicates → Err, one → One, otherwise Set/Many in order; no path panics). Elements are opaque terms: nothing is executed, "
      "the evaluator enumerates the decision table. Also: the inner Vec is private and mutated only by the modelled operations (or private helpers reachable only from them) and three reviewed *_mut "
      "escapes; OneOrSetInner is private and its Set variant built only by modelled functions; serde try_from = Vec<T>; empty sets rejected on deserialisation. Histories compose from single "
      "operations because each re-establishes the invariant (pairwise distinct keys) it assumes.",
      "agreement with the list model for sets larger than the evaluation bound; KeyComparable impls of element types.", "DESIGN.md §7 C19, §12.5")

claim("C08", "path-sensitive abstract evaluation of the typed HIR over uninterpreted atoms (decision-table derivation, helpers inlined) + HIR argument-provenance identity between signed and emitted operands + format-template decoding + char-class table extraction vs spec + guard/setter inventory of create_jws",
      "Decides for all payloads/headers/options on the producing side: every signing_input field is the result of the single create_message formula; in each encoder the protected segment "
      "and payload placed in the token are the very operands that were signed (compact templates `{h}.{p}.{sig}` / `{h}..{sig}` decoded from the format arguments); encoder and decoder agree on the "
      "b64 default; CharSet::Default/UrlSafe equal the specified character sets and '.' is rejected for unencoded attached compact payloads, and the compact encoder applies that validator; "
      "create_jws assembles the header from the options (alg from the method's JWK, kid override/default, typ default, b64=false ⇒ crit=[b64], nonce/url/cty/custom/jwk copied), looks the key id up "
      "from the same method's digest, signs the encoder's signing input and returns into_jws(signature); verify_jws side shared with C03-R6.",
      "cryptographic separation between methods' keys; JSON escaping in flattened/general form; the decoding half is C01/C11.", "DESIGN.md §7 C08")

claim("C13", "path-sensitive abstract evaluation of the typed HIR over uninterpreted atoms (decision-table derivation, helpers inlined) + MIR construction-site enumeration (constructor gate) + HIR guard dominance + argument provenance + derived-impl / serde attribute shape + MIR expression folding of the Duration constructors",
      "Decides for all inputs: Timestamp(..) is constructed only in from_unix — where Ok is dominated by (0..10_000).contains(year) of the value converted from the `seconds` argument — and in now_utc "
      "(reviewed: system clock); parse returns only from_unix(parsed.unix_timestamp()) (UTC normalisation, whole seconds, range gate; no panicking to_offset); every TryFrom/FromStr entry delegates to parse; "
      "checked_add/sub route the time crate's checked result through from_unix; the Duration constructors pass their u32 argument widened to i64 to the same-named time constructor (no u32 scaling); "
      "Eq/Ord/Hash are the derived field-wise impls on the single private OffsetDateTime field; serde try_from/into wiring.",
      "correctness of the `time` crate's RFC 3339 parser/formatter and unix conversion; leap seconds.", "DESIGN.md §7 C13")

claim("C10", "path-sensitive abstract evaluation of the typed HIR over uninterpreted atoms (decision-table derivation, helpers inlined) + MIR construction-site gate (must-pass-success of check_validity) + HIR guard inventory + field-pair coverage of eq/cmp/hash/Display + character-class extraction vs W3C DID / RFC 3986 tables",
      "Decides for all strings/segments: CoreDID(..) is constructed only on paths that passed check_validity (method name, method id, scheme, no path/query/fragment) and every string/serde entry "
      "delegates to it; setters write only after their validator succeeded, each with its own character class and delimiter normalisation, and only the setters write RelativeDIDUrl's private fields; "
      "DIDUrl is built only at four reviewed sites, from_base_did_url validates all three segments and strips them before building the DID, join requires a leading '/', '?' or '#' and returns through "
      "the gate; RelativeDIDUrl eq/cmp compare the same field on both sides through the same projection in the order path, query, fragment with lexicographic nesting, hash = Display = the three "
      "fields; DIDUrl composes did then url; the five character classes equal the specification sets exactly and every percent escape requires '%' + exactly two hex digits.",
      "what the external did_url_parser accepts/normalises (incl. its panic on a trailing percent escape, reported under C05); verbatim reproduction of the input.", "DESIGN.md §7 C10")

claim("C06", "path-sensitive abstract evaluation of the typed HIR over uninterpreted atoms (decision-table derivation, helpers inlined) + constant-agreement of the legacy-format magic with the writer's zlib header (computed from the spec bytes) + writer/reader pairing + short-write/io-result discipline + HIR provenance of the read-modify-write + loop-shape of the batch closures",
      "Decides for all bitmaps/batches: the prefix separating the current from the legacy encoding is a prefix of the only input-independent characters the writer emits (zlib header 78 9C → \"eJ\") and "
      "does not match legacy strings; writer and reader agree on Base64Url, zlib (complete writes, io results propagated), roaring serialize_into/deserialize_from and the data-url prefix; "
      "update_revocation_bitmap decodes from the queried service, applies the closure once and swaps in to_endpoint() of that bitmap after its error was propagated; the revoke/unrevoke closures apply "
      "their operation to every element of `indices` unconditionally; revoke↔insert, unrevoke↔remove, is_revoked↔contains; status entry: type equality, string index parsed as u32, every index query "
      "pair equal to it (the validator side is C02-R5).",
      "roaring set semantics and serialisation; zlib/base64 on concrete data.", "DESIGN.md §7 C06")

claim("C04", "path-sensitive abstract evaluation of the typed HIR over uninterpreted atoms (decision-table derivation, helpers inlined) + MIR constructor gate + who-may-write enumeration of the seven guarded collections + sibling agreement of the three id gates + HIR mutation-before-error inventory + variant↔collection bijection tables + serde wiring",
      "Decides for all mutation histories the per-operation invariants the uniqueness argument rests on: CoreDocument{data} is built only after check_id_constraints ✓ (map_unchecked reviewed), "
      "CoreDocumentData is crate-private and deserialisation goes through it; only eleven reviewed functions obtain mutable access to any of the seven guarded collections; the three gates "
      "(check_id_constraints, insert_service, insert_method) consult the same universe — raw ids of all relationship entries incl. unresolved references, general-purpose methods, services; every "
      "append happens after its gate and no error exit is reachable after a mutation; attach appends only a Refer of a method resolved in scope VerificationMethod; every MethodScope/MethodRelationship "
      "table maps each variant to its own collection; remove_method_and_scope removes the id from all five relationship sets and the general set without early exit; serde defaults/untagged order.",
      "equality with an abstract model over histories; DIDUrlQuery first-match semantics; concrete JSON round trips.", "DESIGN.md §7 C04")

claim("C16", "path-sensitive abstract evaluation of the typed HIR over uninterpreted atoms (decision-table derivation, helpers inlined) + MIR result-discipline (T9) over every fallible call of the SD-JWT paths + HIR structural dominance + comparison-role normalisation + guard inventory with option-gating + format-template decoding",
      "Decides on every path: no Result of verify / decode / parse_jwk / disclosure decoding / from_unix on the SD-JWT paths is unwrapped, swallowed or dropped (never a crash); verify_signature's Ok is "
      "dominated by decode, parse_jwk (same nonce/kid/scope rules as C02-R3), verify_signature_raw with the validator's verifier and the resolved key, SdObjectDecoder::decode over the *verified* claims "
      "and the supplied disclosures, try_into_credential and issuer == method_id.did(); validate_credential finishes through validate_decoded_credential (C02-R4); the KB-JWT path has, before its single "
      "success exit, typ == kb+jwt, key resolution in the holder document within the configured scope, signature ✓, claims parsed from the verified payload, sd_hash == digest over "
      "`{jwt}~{disclosures joined by ~}~` with the hasher named in the SD-JWT, option-gated nonce and aud equalities, iat through from_unix and the earliest/latest/now window with the right relations.",
      "sd-jwt-payload's digest matching and hasher selection; cryptographic outcome.", "DESIGN.md §7 C16")

claim("C17", "path-sensitive abstract evaluation of the typed HIR over uninterpreted atoms (decision-table derivation, helpers inlined) + MIR construction-site gate + ref-cast obligation over every IotaDocument constructor + HIR predicate/decision extraction + derived-impl shape",
      "Decides for all strings/tags/networks: IotaDID(..) is constructed only in try_from_core after check_validity ✓ with the value passed through normalize, and parse/TryFrom/FromStr all route "
      "through it (lower-casing first); check_validity chains method == \"iota\", a 32-byte hex tag and a 1..=6 lowercase-alphanumeric network with short-circuit and_then; normalize drops exactly the "
      "default network; components split at the first ':'; new() formats did:iota:<network>:<hex(bytes)>; Eq/Ord/Hash are derived on the single private normalised field. The ref-cast "
      "from_inner_ref_unchecked obliges every IotaDocument constructor to store a normalised IOTA DID: three constructors do not (known findings D11a, D11b, D14, probe in findings/).",
      "prefix_hex behaviour; to_lowercase on non-ASCII input.", "DESIGN.md §7 C17")

claim("C18", "path-sensitive abstract evaluation of the typed HIR over uninterpreted atoms (decision-table derivation, helpers inlined) + HIR field coverage against the struct definitions (Option fields = tested = dropped) + format-template decoding vs RFC 7638/8037 + who-may-write enumeration of kty/params + guard dominance in from_builder",
      "Decides for all JWKs: for Ec/Rsa/Okp the Option-typed members are exactly the ones is_public tests and to_public sets to None, every other member is cloned from self (so the projection is "
      "idempotent and contains no private member), Oct has no projection and never reports public; Jwk::to_public starts from the projected params and copies only use/key_ops/alg/kid; the thumbprint "
      "templates contain exactly the required members in lexicographic order, each printing the same-named field; every writer of Jwk::kty/params is enumerated: new, from_params, set_kty, set_params "
      "(checked table), TryFrom<JwkExt>, Zeroize keep the coupling — derived Deserialize, set_params_unchecked and params_mut do not (known findings D7a–c, probe in findings/); VerificationMethod is "
      "built only in from_builder after `!jwk.is_public()` → PrivateKeyMaterialExposed (and in the pass-through map/try_map); key generation returns the public projection.",
      "SHA-256/base64url steps of the thumbprint.", "DESIGN.md §7 C18")

claim("C14", "path-sensitive abstract evaluation of the typed HIR over uninterpreted atoms (decision-table derivation, helpers inlined) + writer/reader frame-constant agreement (HIR append sequence vs get ranges) + MIR cast/bounds-check inventory + field coverage of the rewrite against the struct definition + decision extraction of the pack/unpack closures",
      "Decides for all documents/byte strings: the writer appends marker, version, encoding, u16::to_le_bytes(checked u16::try_from(data.len())), data and the reader takes [0..=2], 3, 4, [5..=6] "
      "(from_le_bytes) and 7..7+len through `get` only (no indexing, no truncating cast); marker/version/encoding/length rejections all precede JSON decoding of exactly the length-delimited slice; "
      "CoreDocumentData::try_map rewrites every DID-bearing field (computed from the struct definition) with its own closure from the same-named source field and passes the rest through; method and "
      "service element maps cover id/controller; the pack closure is self → placeholder else unchanged for all four roles, the unpack closures are placeholder → target else unchanged, with the IOTA-DID "
      "requirement on id and controller only; the rewritten data is re-validated through CoreDocument::try_from.",
      "JSON round trip of arbitrary documents; documents mentioning the reserved placeholder.", "DESIGN.md §7 C14")

claim("C15", "MIR guard-span analysis (single exclusive acquisition, both operations through the guard, insert only on the absent edge) + path-sensitive abstract evaluation of the store operations on a concrete two-entry map against a map model + HIR structural dominance of the validation steps in generate/insert + result discipline",
      "Decides: insert_key_id acquires one exclusive guard once and tests and inserts through it (the structural necessary condition of the concurrent-insert clause); on a map {k0→v0, k1→v1} with a symbolic "
      "argument key, in the worlds key = k0 | k1 | absent: insert_key_id refuses a present key (KeyIdAlreadyExists, map unchanged) and otherwise adds exactly (key, value); get_key_id / delete_key_id / delete "
      "report KeyIdNotFound / KeyNotFound for an absent id and otherwise return / remove exactly the entry stored under it; exists answers membership; sign can only succeed by expanding the JWK stored under "
      "the given id and signing the given data with it; nothing else in the map changes. generate: key/alg compatibility ✓ dominates key creation, alg = requested alg, kid = RFC 7638 thumbprint, set before "
      "the public projection is returned; insert: key type ✓, is_private() ✓, alg present ∧ parsed ∧ compatible ✓ dominate the store write. The stores keep their maps behind a private async RwLock.",
      "freshness of random key ids; signature/verification pairing (cryptography); actual thread schedules.", "DESIGN.md §7 C15, §12.5")

claim("C20", "path-sensitive abstract evaluation of the typed HIR over uninterpreted atoms with a concrete handler map and concrete DID lists: dispatch table, registration postcondition, resolve_multiple against a map model under both completion orders, command decision tables + type-level checks (no interior mutability, sealed Command trait)",
      "Decides on a handler table {m0→c0, m1→c1}: resolve applies exactly the command stored under did.method() to did.as_str() and returns its result; no entry → Err(UnsupportedMethodError) and no handler "
      "applied; attach_handler (both command kinds) leaves map[method] = Command::new(handler), replacing an earlier entry and touching no other; attach_did_jwk_handler registers |d| expand_did_jwk(d) under "
      "DIDJwk::METHOD. resolve_multiple on 0..3 input DIDs × every equality pattern among them × every success/failure pattern of self.resolve × both completion orders of the futures (FIFO/LIFO): one "
      "resolve per distinct DID; all succeed → a map with exactly one entry per distinct DID whose value is the document resolved for that same DID; one fails → Err. Command::new(handler) then apply(input): "
      "parse failure → DIDParsingError without calling the handler; otherwise the handler is called once with the parsed DID, Ok returned, Err → HandlerError; identical for both kinds. expand_did_jwk from the "
      "recorded builder calls; TryFrom<DIDJwk> = new_from_jwk(did, did.jwk(), Some(\"0\")). Resolver has no interior mutability; resolve takes &self.",
      "real interleavings of the polled futures (the futures are evaluated eagerly; two extreme completion orders are modelled); handler determinism.", "DESIGN.md §7 C20, §12.5")

claim("C09", "path-sensitive abstract evaluation of the typed HIR over uninterpreted atoms: the complete fault table of generate_method / purge_method (every storage and document call an oracle that may succeed or fail, futures::join! evaluated) with an effect ledger per path + argument provenance of the undo calls + ignored-result inventory + sealed trait",
      "Decides for every failure pattern of the storage calls: generate_method ends with all of {key generated, method inserted, key id recorded} and Ok, or with none of them (key deleted again ✓, method "
      "removed again, no key id) and the original error, or with Err(UndoOperationFailed) exactly when the key deletion itself failed; purge_method ends with method, key and key id all gone and Ok, or all "
      "restored (method re-inserted under the (method, scope) pair remove_method_and_scope returned, key id re-inserted with the same (digest, key id)) and the original error, or UndoOperationFailed; the "
      "keys deleted/recorded are the generated/recorded ones; try_undo_key_generation deletes exactly the given key and reports a failed deletion; everything remove_method_and_scope takes out is returned; "
      "`let _ =` results on undo paths are the reviewed ones; JwkDocumentExt is sealed to the two document types. The two `?` exits after key generation that have no undo are reviewed as infallible, by name.",
      "the fault × occurrence enumeration as an experiment against real stores; atomicity of concrete stores; two known findings (relationship references dropped by a failing purge).", "DESIGN.md §7 C09, §12.5")

claim("C05", "MIR panic inventory (Assert terminators, diverging calls, frozen panic-API and dependency-panic tables) with per-site discharge: constant folding, upper-bound interval analysis, HIR guard dominance tied to the site's operands, constructor gates, cross-property rule dependencies, reviewed table with site counts; unsafe-code inventory",
      "Decides, for every non-test body of the library crates (closures and async bodies included), that each construct that can panic — bounds/overflow/division Assert, "
      "panic!/unreachable!/assert!, unwrap/expect, indexing and slicing, Vec/String positional edits, GenericArray collection, time offset arithmetic, the known-panicking "
      "did_url_parser entry — is unreachable or cannot fail: by constants, by operand upper bounds, by a dominating guard on the same operands, by the validating constructor of the "
      "type (private fields, serde try_from, construction only after validation succeeded), by rules of C10/C12/C13/C17 that are re-run and must pass, or by a frozen one-line review "
      "with the number of sites it covers in that function. A new panic-capable site anywhere — also one added to an already reviewed function — a removed or weakened guard, a "
      "bypassed constructor gate, a new unsafe block or a dropped #![forbid(unsafe_code)] is reported with function and construct. Four confirmed panics are known findings "
      "(did_url_parser at three call sites, IotaDID::from_alias_id); three more were repaired (fix: commits). This decides reachability of panic sites in this repository's code, "
      "not the behaviour of dependencies.",
      "panics inside dependencies whose entry function is not in the dependency table; stack exhaustion on deeply nested JSON; allocation failure/decompression bombs; "
      "32-bit-only overflow of StatusList2021::len; the 46 reviewed judgements themselves (listed in the evidence).", "DESIGN.md §7 C05")

for _p, _r in {
    "C01": "rules not yet implemented in this revision (planned, DESIGN §7)", "C02": "rules not yet implemented in this revision",
    "C03": "rules not yet implemented in this revision", "C04": "rules not yet implemented in this revision",
    "C05": "rules not yet implemented in this revision", "C06": "rules not yet implemented in this revision",
    "C07": "rules not yet implemented in this revision", "C08": "rules not yet implemented in this revision",
    "C09": "rules not yet implemented in this revision", "C10": "rules not yet implemented in this revision",
    "C11": "rules not yet implemented in this revision", "C13": "rules not yet implemented in this revision",
    "C14": "rules not yet implemented in this revision", "C15": "rules not yet implemented in this revision",
    "C16": "rules not yet implemented in this revision", "C17": "rules not yet implemented in this revision",
    "C18": "rules not yet implemented in this revision", "C19": "rules not yet implemented in this revision",
    "C20": "rules not yet implemented in this revision",
}.items():
    if _p not in CLAIMS:
        na(_p, _r)
