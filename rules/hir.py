"""Queries over the dumped HIR expression trees."""
import re

CHILD_KEYS = ("args", "es", "stmts", "arms", "fields", "params")
SINGLE_KEYS = ("recv", "callee", "e", "l", "r", "cond", "then", "else", "scrut", "body", "init", "els", "expr", "base", "idx",
               "guard", "value")


def children(n):
    """Direct child expression nodes (arms and struct fields are unwrapped)."""
    if not isinstance(n, dict):
        return
    for k in SINGLE_KEYS:
        v = n.get(k)
        if isinstance(v, dict):
            yield v
    for k in CHILD_KEYS:
        v = n.get(k)
        if isinstance(v, list):
            for x in v:
                if isinstance(x, dict):
                    if "k" in x and "sp" in x:
                        yield x
                    else:
                        # arm {pat, guard, body} / struct field {name, e} / pattern
                        for kk in ("guard", "body", "e"):
                            y = x.get(kk)
                            if isinstance(y, dict):
                                yield y
                        # guards inside patterns
                        if "pat" in x:
                            for g in pat_guards(x["pat"]):
                                yield g
    if n.get("k") in ("let", "letexpr") and isinstance(n.get("pat"), dict):
        for g in pat_guards(n["pat"]):
            yield g


def pat_guards(p):
    if not isinstance(p, dict):
        return
    if p.get("k") == "guard":
        yield p["guard"]
    for k in ("sub", "mid"):
        if isinstance(p.get(k), dict):
            yield from pat_guards(p[k])
    for k in ("subs", "alts", "before", "after"):
        for x in p.get(k) or []:
            yield from pat_guards(x)
    for f in p.get("fields") or []:
        yield from pat_guards(f.get("pat"))


def walk(n):
    """Pre-order over all expression nodes, descending into closures."""
    stack = [n]
    while stack:
        x = stack.pop()
        if not isinstance(x, dict):
            continue
        yield x
        cs = list(children(x))
        stack.extend(reversed(cs))


def root(h):
    """Expression root of a body's HIR record."""
    return h["value"] if h and "value" in h else h


def fn_name(n):
    return n.get("resolved") or n.get("fn")


def is_call(n, pat=None):
    if n.get("k") not in ("call", "mcall") and not (n.get("k") == "binary" and n.get("fn")):
        return False
    if pat is None:
        return True
    names = [x for x in (n.get("fn"), n.get("resolved")) if x]
    if hasattr(pat, "search"):
        return any(pat.search(x) for x in names)
    if isinstance(pat, (list, tuple, set, frozenset)):
        return any(is_call(n, p) for p in pat)
    return pat in names


def calls(h, pat=None):
    return [n for n in walk(root(h)) if is_call(n, pat)]


def call_args(n):
    """All argument expressions including the receiver (first)."""
    if n["k"] == "mcall":
        return [n["recv"]] + n["args"]
    if n["k"] == "binary":
        return [n["l"], n["r"]]
    return n["args"]


def pat_bindings(p, out=None, path=()):
    """[(name, id, access-path)] of all bindings in a pattern; access path = tuple of field names / indices / variants."""
    if out is None:
        out = []
    if not isinstance(p, dict):
        return out
    k = p.get("k")
    if k == "bind":
        out.append((p["name"], p["id"], path))
        if p.get("sub"):
            pat_bindings(p["sub"], out, path)
    elif k == "struct":
        for f in p["fields"]:
            pat_bindings(f["pat"], out, path + (f["name"],))
    elif k in ("tuplestruct", "tuple"):
        v = ()
        if k == "tuplestruct":
            v = (variant_name(p["res"]),)
        for i, s in enumerate(p["subs"]):
            pat_bindings(s, out, path + v + (str(i),))
    elif k in ("ref", "guard"):
        pat_bindings(p["sub"], out, path)
    elif k == "or":
        for a in p["alts"]:
            pat_bindings(a, out, path)
    elif k == "slice":
        for s in p["before"] + ([p["mid"]] if p.get("mid") else []) + p["after"]:
            pat_bindings(s, out, path)
    return out


def variant_name(res):
    if not isinstance(res, dict):
        return "?"
    d = res.get("def") or res.get("ctor_of") or res.get("selfctor") or ""
    if res.get("dk") == "Ctor":
        d = res.get("ctor_of") or d
    return d.rsplit("::", 1)[-1]


def pat_str(p):
    """Canonical text of a pattern keyed by variant names (bindings and wildcards are `_`)."""
    if not isinstance(p, dict):
        return "_"
    k = p.get("k")
    if k in ("wild", "never", "err"):
        return "_"
    if k == "bind":
        return pat_str(p["sub"]) if p.get("sub") else "_"
    if k == "path":
        return variant_name(p["res"])
    if k == "lit":
        v = p["v"]
        for key in ("str", "int", "bool", "char"):
            if key in v:
                return repr(v[key]) if key == "str" else str(v[key])
        return "lit"
    if k == "tuplestruct":
        return "%s(%s)" % (variant_name(p["res"]), ", ".join(pat_str(s) for s in p["subs"]))
    if k == "struct":
        inner = ", ".join("%s: %s" % (f["name"], pat_str(f["pat"])) for f in p["fields"])
        return "%s{%s%s}" % (variant_name(p["res"]), inner, ", .." if p.get("rest") else "")
    if k == "tuple":
        return "(%s)" % ", ".join(pat_str(s) for s in p["subs"])
    if k == "ref":
        return pat_str(p["sub"])
    if k == "guard":
        return pat_str(p["sub"]) + " if .."
    if k == "or":
        return " | ".join(pat_str(a) for a in p["alts"])
    if k == "range":
        def e(x):
            if not x:
                return ""
            return pat_str(x)
        return "%s..%s%s" % (e(p.get("lo")), "=" if p.get("inclusive") else "", e(p.get("hi")))
    if k == "slice":
        return "[..]"
    return "?"


def strip(n):
    """Peel reference/deref/paren-like wrappers and trivial blocks."""
    while isinstance(n, dict):
        k = n.get("k")
        if k == "addrof":
            n = n["e"]
        elif k == "unary" and n.get("op") == "Deref":
            n = n["e"]
        elif k == "block" and not n.get("stmts") and n.get("expr"):
            n = n["expr"]
        elif k == "cast":
            n = n["e"]
        else:
            break
    return n


def try_inner(n):
    """`expr?` → expr (the HIR desugaring is `match Try::branch(expr) {..}`)."""
    n = strip(n)
    if isinstance(n, dict) and n.get("k") == "match" and n.get("src") == "try":
        sc = n["scrut"]
        if sc.get("k") == "call" and sc.get("args"):
            return sc["args"][0]
    return None


def await_inner(n):
    n = strip(n)
    if isinstance(n, dict) and n.get("k") == "match" and n.get("src") == "await":
        sc = n["scrut"]
        # match into_future(expr) { mut __awaitee => loop {..} }
        if sc.get("k") == "call" and sc.get("args"):
            return sc["args"][0]
    return None


def ctor_class(n):
    """Classify an expression as Ok(..)/Err(Variant..)/Some/None/other. Returns (tag, detail-node)."""
    n = strip(n)
    if not isinstance(n, dict):
        return ("?", None)
    if n.get("k") == "call" and n.get("ctor"):
        name = variant_name(n["ctor"])
        return (name, n["args"][0] if n.get("args") else None)
    if n.get("k") == "path":
        r = n.get("res", {})
        if r.get("dk") == "Ctor" or r.get("dk") == "Variant":
            return (variant_name(r), None)
    if n.get("k") == "ret" and n.get("e") is not None:
        return ctor_class(n["e"])
    if n.get("k") == "block" and n.get("expr") is None and n.get("stmts"):
        last = n["stmts"][-1]
        if last.get("k") == "semi":
            last = last["e"]
        if last.get("k") == "ret":
            return ctor_class(last)
    if n.get("k") == "block" and n.get("expr") is not None:
        return ctor_class(n["expr"])
    return ("expr", n)


def err_variant(n):
    """For an expression that builds an error value: name of the outermost enum variant / struct constructed."""
    n = strip(n)
    if not isinstance(n, dict):
        return None
    k = n.get("k")
    if k == "call" and n.get("ctor"):
        return variant_name(n["ctor"])
    if k == "struct":
        return variant_name(n["res"])
    if k == "path":
        r = n.get("res", {})
        if r.get("dk") in ("Ctor", "Variant", "Const", "AssocConst"):
            return variant_name(r)
    if k in ("call", "mcall"):
        # wrappers: Error::from(x) / x.into() / Box::new(x)
        nm = fn_name(n) or ""
        if re.search(r"(::into|::from|Box::new|::new)$", nm) and call_args(n):
            inner = err_variant(call_args(n)[-1])
            if inner:
                return inner
        return "call:" + nm.rsplit("::", 1)[-1]
    return None


def outcome(n):
    """Outcome class of an arm/branch body: 'Ok', 'Err(<Variant>)', 'Some', 'None', or 'expr'."""
    tag, inner = ctor_class(n)
    if tag == "Err":
        return "Err(%s)" % (err_variant(inner) or "?")
    return tag


class Env:
    """Local-variable environment of one body: binding id -> defining expressions."""

    def __init__(self, h):
        self.h = h
        self.defs = {}      # id -> [(expr, access_path)]
        self.params = {}    # id -> (name, index, access_path)
        self.names = {}
        for i, p in enumerate(h.get("params", [])):
            for name, bid, path in pat_bindings(p):
                self.params[bid] = (name, i, path)
                self.names[bid] = name
        for n in walk(root(h)):
            k = n.get("k")
            if k == "let" or k == "letexpr":
                if n.get("init") is not None:
                    for name, bid, path in pat_bindings(n["pat"]):
                        self.defs.setdefault(bid, []).append((n["init"], path))
                        self.names[bid] = name
            elif k == "assign":
                l = strip(n["l"])
                if l.get("k") == "path" and "local" in l.get("res", {}):
                    self.defs.setdefault(l["res"]["id"], []).append((n["r"], ()))
            elif k == "match":
                for a in n["arms"]:
                    for name, bid, path in pat_bindings(a["pat"]):
                        self.defs.setdefault(bid, []).append((n["scrut"], path))
                        self.names[bid] = name
            elif k == "closure":
                for i, p in enumerate(n.get("params", [])):
                    for name, bid, path in pat_bindings(p):
                        self.names[bid] = name
                        self.defs.setdefault(bid, []).append(({"k": "closure_param", "sp": n["sp"], "closure": n["def"], "index": i}, path))


ADAPTERS = re.compile(
    r"^(core::option::Option::(as_ref|as_deref|as_mut|map|copied|cloned|unwrap_or_default|unwrap_or|ok_or|ok_or_else|and_then|filter|unwrap_or_else|transpose|take|or|or_else)"
    r"|core::result::Result::(as_ref|map|map_err|ok|and_then|unwrap_or_default|transpose)"
    r"|core::str::<impl str>::(as_bytes|as_ref|trim)|str::(as_bytes|as_ref|trim|as_str)|alloc::string::String::(as_str|as_bytes)"
    r"|core::clone::Clone::clone|alloc::borrow::ToOwned::to_owned|alloc::string::ToString::to_string"
    r"|core::convert::(Into::into|From::from|AsRef::as_ref)|core::ops::deref::Deref(Mut)?::deref(_mut)?"
    r"|alloc::vec::Vec::(as_slice|as_ref|iter)|\[T\]::(iter|as_ref)|core::borrow::Borrow::borrow|alloc::borrow::Cow::(as_ref|into_owned)"
    r"|core::ops::try_trait::Try::branch|core::future::into_future::IntoFuture::into_future"
    r")$"
)


def origins(n, env, adapters=ADAPTERS, extra=None, depth=0, seen=None, sel=(), accessors=None, trace=None):
    """Set of root origins of the value of expression `n` (optionally of its sub-component `sel`):
       ('param', name, path...) | ('call', fn) | ('lit', value) | ('def', path) | ('other', kind)
    Field accesses / destructuring paths are kept as suffixes on param/local roots: ('param', 'options', 'nonce')."""
    if seen is None:
        seen = frozenset()
    out = set()
    n = strip(n)
    if not isinstance(n, dict) or depth > 60:
        return {("other", "depth")}
    k = n.get("k")

    def rec(x, sel_=sel, seen_=None):
        return origins(x, env, adapters, extra, depth + 1, seen if seen_ is None else seen_, sel_, accessors, trace)

    t = try_inner(n)
    if t is not None:
        return rec(t)
    a = await_inner(n)
    if a is not None:
        return rec(a)
    if k == "path":
        r = n.get("res", {})
        if "local" in r:
            bid = r["id"]
            if trace is not None:
                trace.add(r["local"])
            if bid in env.params:
                name, _, path = env.params[bid]
                return {("param", name) + tuple(path) + tuple(sel)}
            if (bid, sel) in seen:
                return set()
            seen2 = seen | {(bid, sel)}
            ds = env.defs.get(bid)
            if not ds:
                return {("local", r["local"]) + tuple(sel)}
            for (e, path) in ds:
                out |= rec(e, tuple(path) + tuple(sel), seen2)
            return out
        if "def" in r:
            return {("def", r["def"])}
        return {("other", "path")}
    if k == "field":
        return rec(n["base"], (n["name"],) + tuple(sel))
    if k == "lit":
        v = n["v"]
        for key in ("str", "int", "bool", "char", "bytes", "float"):
            if key in v:
                val = v[key]
                return {("lit", tuple(val) if isinstance(val, list) else val)}
        return {("lit", None)}
    if k in ("call", "mcall"):
        nm = fn_name(n) or ""
        base = n.get("fn") or ""
        if n.get("ctor"):
            vn = variant_name(n["ctor"])
            if len(sel) >= 2 and sel[0] == vn and sel[1].isdigit() and int(sel[1]) < len(n["args"]):
                return rec(n["args"][int(sel[1])], tuple(sel[2:]))
            if len(sel) >= 1 and sel[0].isdigit() and int(sel[0]) < len(n["args"]):
                return rec(n["args"][int(sel[0])], tuple(sel[1:]))
            # tuple-struct / variant constructor: transparent wrapper for origin purposes
            for a_ in n["args"]:
                out |= rec(a_, ())
            return out or {("ctor", vn)}
        if accessors is not None and (accessors.search(base) or accessors.search(nm)) and call_args(n):
            # getter: treated like a field access on the receiver
            return rec(call_args(n)[0], (nm.rsplit("::", 1)[-1],) + tuple(sel))
        if (adapters is not None and (adapters.search(base) or adapters.search(nm))) or (extra is not None and (extra.search(base) or extra.search(nm))):
            args = call_args(n)
            if args:
                sel2 = tuple(x for x in sel if x not in ("Some", "Ok", "0")) if sel and sel[0] in ("Some", "Ok") else sel
                mname = base.rsplit("::", 1)[-1]
                recv_o = rec(args[0], sel2)
                if mname in ("map", "and_then") and len(args) >= 2:
                    f = strip(args[1])
                    if f.get("k") == "closure":
                        body_o = rec(f["body"], ())
                        for o in body_o:
                            if o[0] == "closure_param" and o[1] == f["def"]:
                                for ro in recv_o:
                                    out.add(ro + tuple(o[3:]) if ro[0] in ("param", "local", "call", "closure_param") else ro)
                            else:
                                out.add(o)
                        return out
                    if f.get("k") == "path" and f.get("res", {}).get("dk") == "Ctor":
                        return recv_o
                    if f.get("k") == "path" and "def" in f.get("res", {}):
                        fd = f["res"]["def"]
                        if accessors is not None and accessors.search(fd):
                            return {ro + (fd.rsplit("::", 1)[-1],) if ro[0] in ("param", "local") else ro for ro in recv_o}
                        if (adapters is not None and adapters.search(fd)) or (extra is not None and extra.search(fd)):
                            return recv_o
                        return {("call", fd)}
                out |= recv_o
                if mname in ("ok_or", "ok_or_else", "map_err", "expect", "filter", "find", "take", "skip"):
                    return out
                for extra_arg in args[1:]:
                    ea = strip(extra_arg)
                    if ea.get("k") == "closure" and mname in ("unwrap_or_else", "or_else"):
                        out |= rec(ea["body"], ())
                    elif ea.get("k") == "path" and "local" in ea.get("res", {}):
                        out |= rec(extra_arg, ())
                    elif ea.get("k") not in ("closure", "path", "lit"):
                        out |= rec(extra_arg, ())
                return out
        return {("call", nm) + tuple(sel)}
    if k == "closure_param":
        return {("closure_param", n["closure"], n["index"]) + tuple(sel)}
    if k == "if":
        out |= rec(n["then"])
        if n.get("else") is not None:
            out |= rec(n["else"])
        return out
    if k == "match":
        for arm in n["arms"]:
            if not diverges_simple(arm["body"]):
                out |= rec(arm["body"])
        return out
    if k == "block":
        if n.get("expr") is not None:
            return rec(n["expr"])
        return {("other", "unit")}
    if k == "struct":
        if sel:
            for f in n["fields"]:
                if f["name"] == sel[0]:
                    return rec(f["e"], tuple(sel[1:]))
            if isinstance(n.get("base"), dict):
                return rec(n["base"])
        return {("struct", variant_name(n["res"]))}
    if k == "tup":
        if sel and sel[0].isdigit() and int(sel[0]) < len(n["es"]):
            return rec(n["es"][int(sel[0])], tuple(sel[1:]))
        for e in n["es"]:
            out |= rec(e, ())
        return out
    if k == "array":
        for e in n["es"]:
            out |= rec(e, ())
        return out
    if k == "repeat":
        return rec(n["e"], ())
    if k == "index":
        return rec(n["base"])
    if k == "binary":
        return {("binary", n["op"])}
    if k == "unary":
        return rec(n["e"])
    if k == "closure":
        return {("closure", n["def"])}
    if k in ("ret", "break", "continue"):
        return set()
    return {("other", k)}


def diverges_simple(n):
    n = strip(n)
    return isinstance(n, dict) and (n.get("k") in ("ret", "break", "continue") or (n.get("k") == "block" and diverges(n)))


def comparisons(h, ops=("Eq", "Ne", "Lt", "Le", "Gt", "Ge")):
    return [n for n in walk(root(h)) if n.get("k") == "binary" and n.get("op") in ops]


NEG = {"Eq": "Ne", "Ne": "Eq", "Lt": "Ge", "Ge": "Lt", "Gt": "Le", "Le": "Gt"}
SWAP = {"Eq": "Eq", "Ne": "Ne", "Lt": "Gt", "Gt": "Lt", "Le": "Ge", "Ge": "Le"}


def struct_lits(h, ty=None):
    return [n for n in walk(root(h)) if n.get("k") == "struct" and (ty is None or n.get("ty") == ty)]


def find_first(h, pred):
    for n in walk(root(h)):
        if pred(n):
            return n
    return None


# =====================================================================================================
# structural dominance on the HIR tree
# =====================================================================================================
def diverges(n):
    """Does evaluating n never complete normally (all paths return/break/continue/panic)?"""
    n = strip(n) if isinstance(n, dict) and n.get("k") in ("addrof", "cast") else n
    if not isinstance(n, dict):
        return False
    k = n.get("k")
    if k in ("ret", "break", "continue"):
        return True
    if k == "semi":
        return diverges(n["e"])
    if k == "block":
        for s in n.get("stmts", []):
            if diverges(s):
                return True
        return diverges(n["expr"]) if n.get("expr") is not None else False
    if k == "if":
        return n.get("else") is not None and diverges(n["then"]) and diverges(n["else"])
    if k == "match":
        if n.get("src") in ("try", "await"):
            return False
        return bool(n["arms"]) and all(diverges(a["body"]) for a in n["arms"])
    if k in ("call", "mcall"):
        nm = fn_name(n) or ""
        if re.search(r"(core::panicking::|std::rt::begin_panic|core::option::unwrap_failed|core::result::unwrap_failed|::unreachable_display|process::exit)", nm):
            return True
        return False
    if k == "let":
        return n.get("init") is not None and diverges(n["init"])
    return False


class Tree:
    """Parent links + structural dominance queries for one body."""

    def __init__(self, h):
        self.h = h
        self.root = root(h)
        self.parent = {}   # id(node) -> (parent node, role, index)
        self._link(self.root)

    def _link(self, n):
        stack = [n]
        while stack:
            x = stack.pop()
            for role, idx, c in self._kids(x):
                self.parent[id(c)] = (x, role, idx)
                stack.append(c)

    @staticmethod
    def _kids(n):
        out = []
        if not isinstance(n, dict):
            return out
        for k in SINGLE_KEYS:
            v = n.get(k)
            if isinstance(v, dict) and "k" in v:
                out.append((k, 0, v))
        for k in ("args", "es", "stmts"):
            v = n.get(k)
            if isinstance(v, list):
                for i, x in enumerate(v):
                    if isinstance(x, dict) and "k" in x:
                        out.append((k, i, x))
        if isinstance(n.get("arms"), list):
            for i, a in enumerate(n["arms"]):
                if isinstance(a.get("guard"), dict):
                    out.append(("arm_guard", i, a["guard"]))
                out.append(("arm_body", i, a["body"]))
        if n.get("k") == "struct":
            for i, f in enumerate(n.get("fields", [])):
                out.append(("field_init", i, f["e"]))
        return out

    def ancestors(self, n):
        out = []
        cur = n
        while id(cur) in self.parent:
            p, role, idx = self.parent[id(cur)]
            out.append((p, role, idx, cur))
            cur = p
        return out

    def preceding(self, n):
        """Nodes certainly evaluated (to normal completion) before `n` starts, in evaluation order (innermost last).
        Conservative: earlier siblings in enclosing blocks, scrutinees/conditions of enclosing match/if, earlier call args.
        Stops at closure boundaries (a closure body may run later or never)."""
        pre = []
        for p, role, idx, child in self.ancestors(n):
            k = p.get("k")
            if k == "closure" and not p.get("ckind", "").startswith("Coroutine"):
                break
            if k == "block" and role == "stmts":
                pre = p["stmts"][:idx] + pre
            elif k == "block" and role == "expr":
                pre = p["stmts"] + pre
            elif k == "if" and role in ("then", "else"):
                pre = [p["cond"]] + pre
            elif k == "match" and role in ("arm_body", "arm_guard"):
                pre = [p["scrut"]] + pre
            elif k in ("call",) and role == "args":
                pre = p["args"][:idx] + pre
            elif k == "mcall" and role == "args":
                pre = [p["recv"]] + p["args"][:idx] + pre
            elif k == "loop":
                pass
        return pre

    def path_conditions(self, n):
        """[(kind, node, detail)] conditions that hold when n is evaluated, from enclosing if/match:
        ('if', cond, True/False) | ('arm', match_node, arm_index)"""
        out = []
        for p, role, idx, child in self.ancestors(n):
            k = p.get("k")
            if k == "closure" and not p.get("ckind", "").startswith("Coroutine"):
                out.append(("closure", p, None))
            if k == "if" and role == "then":
                out.append(("if", p["cond"], True))
            elif k == "if" and role == "else":
                out.append(("if", p["cond"], False))
            elif k == "match" and role == "arm_body":
                out.append(("arm", p, idx))
            elif k == "loop":
                out.append(("loop", p, None))
        # diverging `if cond { return .. }` statements earlier in enclosing blocks: cond is false afterwards
        for s in self.preceding(n):
            s2 = s["e"] if s.get("k") == "semi" else s
            if s2.get("k") == "if" and s2.get("else") is None and diverges(s2["then"]):
                out.append(("if", s2["cond"], False))
            elif s2.get("k") == "if" and s2.get("else") is not None and diverges(s2["then"]) and not diverges(s2["else"]):
                out.append(("if", s2["cond"], False))
            elif s2.get("k") == "if" and s2.get("else") is not None and diverges(s2["else"]) and not diverges(s2["then"]):
                out.append(("if", s2["cond"], True))
            elif s2.get("k") == "let" and s2.get("els") is not None:
                out.append(("letelse", s2, True))
        return out

    def in_loop(self, n):
        return any(p.get("k") == "loop" for p, _, _, _ in self.ancestors(n))

    def enclosing_closure(self, n):
        for p, _, _, _ in self.ancestors(n):
            if p.get("k") == "closure":
                return p
        return None


def unconditional(n):
    """Sub-expressions of n that are certainly evaluated when n completes normally
    (does not descend into closures, if-branches, non-try match arms, loops, `&&`/`||` right operands)."""
    out = []
    stack = [n]
    while stack:
        x = stack.pop()
        if not isinstance(x, dict):
            continue
        out.append(x)
        k = x.get("k")
        if k == "closure" or k == "loop":
            continue
        if k == "if":
            stack.append(x["cond"])
            # when one branch diverges, completing normally means the other branch was evaluated
            if x.get("else") is not None and diverges(x["else"]) and not diverges(x["then"]):
                stack.append(x["then"])
            elif x.get("else") is not None and diverges(x["then"]) and not diverges(x["else"]):
                stack.append(x["else"])
            continue
        if k == "match":
            stack.append(x["scrut"])
            if x.get("src") not in ("try", "await", "for"):
                # when every other arm diverges, completing normally means the remaining arm's body was evaluated
                live = [a for a in x["arms"] if not diverges(a["body"])]
                if len(live) == 1 and len(x["arms"]) >= 2:
                    stack.append(live[0]["body"])
            continue
        if k == "binary" and x.get("op") in ("And", "Or"):
            stack.append(x["l"])
            continue
        for c in children(x):
            stack.append(c)
    return out


def tried_calls(stmts):
    """Calls whose `?` success is guaranteed once all of `stmts` completed: [(call node)]"""
    out = []
    for s in stmts:
        for x in unconditional(s):
            if x.get("k") == "match" and x.get("src") == "try":
                inner = x["scrut"]["args"][0] if x["scrut"].get("args") else None
                # peel adapters (map_err, ok_or, await) to find the producing call
                cur = inner
                for _ in range(12):
                    cur = strip(cur)
                    aw = await_inner(cur)
                    if aw is not None:
                        cur = aw
                        continue
                    if isinstance(cur, dict) and cur.get("k") in ("call", "mcall"):
                        nm = fn_name(cur) or ""
                        if ADAPTERS.search(cur.get("fn") or "") or re.search(r"(Result|Option)::(map_err|ok_or|ok_or_else|map|and_then)$", nm):
                            out.append(cur)
                            args = call_args(cur)
                            cur = args[0] if args else None
                            continue
                        out.append(cur)
                    break
    return out


def conjuncts(c):
    """Split `a && b && c` into [a, b, c]; `!x` is kept as a node."""
    c = strip(c)
    if isinstance(c, dict) and c.get("k") == "binary" and c.get("op") == "And":
        return conjuncts(c["l"]) + conjuncts(c["r"])
    return [c]


def disjuncts(c):
    c = strip(c)
    if isinstance(c, dict) and c.get("k") == "binary" and c.get("op") == "Or":
        return disjuncts(c["l"]) + disjuncts(c["r"])
    return [c]


def negated(c):
    """(inner, True) when c is `!inner`"""
    c = strip(c)
    if isinstance(c, dict) and c.get("k") == "unary" and c.get("op") == "Not":
        return c["e"], True
    return c, False


def called_fns(n, include_closures=True):
    """Set of callee names under n."""
    out = set()
    for x in walk(n):
        if x.get("k") in ("call", "mcall", "binary") and fn_name(x):
            out.add(fn_name(x))
            if x.get("fn"):
                out.add(x["fn"])
        if x.get("k") == "path" and x.get("res", {}).get("dk") in ("Fn", "AssocFn"):
            out.add(x["res"]["def"])
    return out


def literals(n):
    out = []
    for x in walk(n):
        if x.get("k") == "lit":
            v = x["v"]
            for key in ("str", "int", "bool", "char"):
                if key in v:
                    out.append(v[key])
    return out


def exits(h):
    """All value-producing exits of a fn body: explicit `return e` nodes plus the tail expression(s).
    Returns [(node, outcome_str)] where node is the returned expression."""
    r = root(h)
    out = []
    # `let x = { .. }; x` (e.g. the `__ret` binding of #[async_trait]): the block's tails are the exits
    let_init = {}
    for x in walk(r):
        if x.get("k") == "let" and x.get("init") is not None and x["pat"].get("k") == "bind":
            let_init.setdefault(x["pat"]["id"], []).append(x["init"])

    def tails(n):
        n0 = n
        if isinstance(n, dict) and n.get("k") == "path" and "local" in n.get("res", {}):
            inits = let_init.get(n["res"]["id"], [])
            if len(inits) == 1 and strip(inits[0]).get("k") in ("block", "if", "match"):
                tails(inits[0])
                return
        n = strip(n) if isinstance(n, dict) and n.get("k") in ("addrof",) else n
        if not isinstance(n, dict):
            return
        k = n.get("k")
        if k == "block":
            if n.get("expr") is not None:
                tails(n["expr"])
            return
        if k == "if":
            tails(n["then"])
            if n.get("else") is not None:
                tails(n["else"])
            return
        if k == "match" and n.get("src") not in ("try", "await"):
            for a in n["arms"]:
                tails(a["body"])
            return
        if k == "closure" and n.get("ckind", "").startswith("Coroutine"):
            tails(n["body"])
            return
        if k == "call" and (n.get("fn") or "").endswith("Box::pin") and n.get("args") and strip(n["args"][0]).get("k") == "closure" and strip(n["args"][0]).get("ckind", "").startswith("Coroutine"):
            tails(strip(n["args"][0])["body"])
            return
        if k in ("ret", "break", "continue"):
            return
        out.append(n0)

    tails(r)
    for x in walk(r):
        if x.get("k") == "ret" and x.get("e") is not None:
            # skip the desugared `?` returns
            if x.get("exp") and strip(x["e"]).get("k") == "call" and "from_residual" in (strip(x["e"]).get("fn") or ""):
                continue
            # the never-taken `if let Some(__ret) = None { return __ret }` of #[async_trait]
            if x.get("exp") and local_name(x["e"]) == "__ret":
                continue
            out.append(x["e"])
    return [(n, outcome(n)) for n in out]


def param_roots(expr, env):
    """Over-approximate set of parameter names that the expression may depend on: every variable mentioned anywhere under it
    (closure bodies included), followed transitively through the initialisers of local bindings."""
    roots = set()
    seen = set()
    work = [expr]
    while work:
        e = work.pop()
        for x in walk(e):
            if x.get("k") == "path" and "local" in x.get("res", {}):
                bid = x["res"]["id"]
                if bid in seen:
                    continue
                seen.add(bid)
                if bid in env.params:
                    roots.add(env.params[bid][0])
                else:
                    for (d, _p) in env.defs.get(bid, []):
                        if isinstance(d, dict) and d.get("k") != "closure_param":
                            work.append(d)
    return roots


def local_name(n):
    """Name of the local variable an expression denotes (through &, *, casts), else None."""
    n = strip(n)
    if isinstance(n, dict) and n.get("k") == "path" and "local" in n.get("res", {}):
        return n["res"]["local"]
    return None


def ok_conditions(h):
    """For a fn returning Result<(), E> as a pure predicate: [(cond_node, ok_when)] such that the fn returns Ok iff cond == ok_when.
    Recognised shapes: `cond.then_some(()).ok_or(E)`, `if cond {Ok} else {Err}`, `if cond {return Err}; ..; Ok`."""
    out = []
    t = Tree(h)
    for n, oc in exits(h):
        n2 = strip(n)
        if n2.get("k") == "mcall" and n2["name"] in ("ok_or", "ok_or_else"):
            r = strip(n2["recv"])
            if r.get("k") == "mcall" and r["name"] in ("then_some", "then"):
                out.append((r["recv"], True, n2))
                continue
        if oc == "Ok":
            for c in t.path_conditions(n):
                if c[0] == "if":
                    out.append((c[1], c[2], n))
    return out


def relation(cmp_node, env, role_a, role_b, accessors=None, extra=None):
    """If cmp_node is a comparison between an operand satisfying role_a and one satisfying role_b (predicates over origin sets),
    return the operator as seen from `A op B`; else None."""
    c = strip(cmp_node)
    if not isinstance(c, dict) or c.get("k") != "binary" or c.get("op") not in NEG:
        return None
    lo = origins(c["l"], env, accessors=accessors, extra=extra)
    ro = origins(c["r"], env, accessors=accessors, extra=extra)
    if role_a(lo) and role_b(ro):
        return c["op"]
    if role_a(ro) and role_b(lo):
        return SWAP[c["op"]]
    return None


# =====================================================================================================
# tiny abstract evaluation of Option/bool expressions under presence assumptions
# =====================================================================================================
NONE = ("none",)
UNKNOWN = ("unknown",)
ERR = ("err",)          # evaluation leaves the function through an error (`ok_or(..)?`, `return Err`)


def _some(v=UNKNOWN):
    return ("some", v)


def abs_eval(n, env, assume, binds=None, accessors=None):
    """Abstractly evaluate expression n.  `assume`: list of (predicate(origin_set)->bool, value) giving NONE / ("some", v)
    for expressions whose origins satisfy the predicate.  Returns True/False, NONE, ("some", v), ERR or UNKNOWN."""
    binds = binds or {}
    n0 = n
    n = strip(n)
    if not isinstance(n, dict):
        return UNKNOWN
    k = n.get("k")
    t = try_inner(n)
    if t is not None:
        v = abs_eval(t, env, assume, binds, accessors)
        if v == ("reserr",) or v == ERR:
            return ERR
        if isinstance(v, tuple) and v and v[0] == "resok":
            return v[1]
        return UNKNOWN
    if k == "lit":
        lits = literals(n)
        return lits[0] if lits and isinstance(lits[0], bool) else UNKNOWN
    if k in ("path", "field"):
        if k == "path" and "local" in n.get("res", {}) and n["res"]["id"] in binds:
            return binds[n["res"]["id"]]
        if k == "path" and variant_name(n.get("res", {})) == "None" and n.get("res", {}).get("dk") in ("Ctor", "Variant"):
            return NONE
        oo = origins(n, env, accessors=accessors)
        for pred, val in assume:
            if pred(oo):
                return val
        # local bound to an evaluable initialiser
        if k == "path" and "local" in n.get("res", {}):
            ds = env.defs.get(n["res"]["id"], [])
            if len(ds) == 1 and not ds[0][1] and isinstance(ds[0][0], dict) and ds[0][0].get("k") != "closure_param":
                return abs_eval(ds[0][0], env, assume, binds, accessors)
        return UNKNOWN
    if k == "unary" and n.get("op") == "Not":
        v = abs_eval(n["e"], env, assume, binds, accessors)
        return (not v) if isinstance(v, bool) else (ERR if v == ERR else UNKNOWN)
    if k == "binary":
        op = n["op"]
        a = abs_eval(n["l"], env, assume, binds, accessors)
        if op == "And":
            if a is False:
                return False
            b = abs_eval(n["r"], env, assume, binds, accessors)
            if a is True:
                return b
            return False if b is False else UNKNOWN
        if op == "Or":
            if a is True:
                return True
            b = abs_eval(n["r"], env, assume, binds, accessors)
            if a is False:
                return b
            return True if b is True else UNKNOWN
        b = abs_eval(n["r"], env, assume, binds, accessors)
        if op in ("Eq", "Ne"):
            def is_none(x):
                return x == NONE
            def is_some(x):
                return isinstance(x, tuple) and x and x[0] == "some"
            if (is_none(a) and is_some(b)) or (is_some(a) and is_none(b)):
                return op == "Ne"
            if is_none(a) and is_none(b):
                return op == "Eq"
        return UNKNOWN
    if k == "call" and n.get("ctor"):
        vn = variant_name(n["ctor"])
        if vn == "Some":
            return _some(abs_eval(n["args"][0], env, assume, binds, accessors) if n["args"] else UNKNOWN)
        if vn == "Ok":
            return ("resok", abs_eval(n["args"][0], env, assume, binds, accessors) if n["args"] else UNKNOWN)
        if vn == "Err":
            return ("reserr",)
        return UNKNOWN
    if k == "mcall":
        name = n["name"]
        base = n.get("fn") or ""
        if not re.match(r"^core::(option::Option|result::Result)::", base) and not (base.startswith("bool::") or "impl bool" in base):
            # accessor treated as field
            if accessors is not None and accessors.search(base):
                oo = origins(n, env, accessors=accessors)
                for pred, val in assume:
                    if pred(oo):
                        return val
            return UNKNOWN
        r = abs_eval(n["recv"], env, assume, binds, accessors)
        args = n["args"]

        def closure_val(arg, param_val):
            c = strip(arg)
            if c.get("k") == "closure":
                b2 = dict(binds)
                for p in c.get("params", []):
                    for nm, bid, path in pat_bindings(p):
                        b2[bid] = param_val if not path else UNKNOWN
                return abs_eval(c["body"], env, assume, b2, accessors)
            return UNKNOWN
        is_some = isinstance(r, tuple) and r and r[0] == "some"
        if base.startswith("core::option::Option::"):
            if name in ("as_ref", "as_deref", "as_mut", "cloned", "copied", "take"):
                return r
            if name == "is_some":
                return True if is_some else (False if r == NONE else UNKNOWN)
            if name == "is_none":
                return False if is_some else (True if r == NONE else UNKNOWN)
            if name in ("map", "and_then"):
                if r == NONE:
                    return NONE
                if is_some:
                    v = closure_val(args[0], r[1])
                    if name == "and_then":
                        return v
                    return ERR if v == ERR else _some(v)
                return UNKNOWN
            if name == "filter":
                if r == NONE:
                    return NONE
                if is_some:
                    v = closure_val(args[0], r[1])
                    return r if v is True else (NONE if v is False else UNKNOWN)
                return UNKNOWN
            if name in ("unwrap_or", "map_or"):
                d = abs_eval(args[0], env, assume, binds, accessors)
                if r == NONE:
                    return d
                if is_some:
                    return closure_val(args[1], r[1]) if name == "map_or" else r[1]
                return UNKNOWN
            if name == "unwrap_or_default":
                return False if r == NONE else (r[1] if is_some else UNKNOWN)
            if name in ("ok_or", "ok_or_else"):
                if r == NONE:
                    return ("reserr",)
                if is_some:
                    return ("resok", r[1])
                return UNKNOWN
            if name in ("unwrap", "expect"):
                return r[1] if is_some else UNKNOWN
            return UNKNOWN
        if base.startswith("core::result::Result::"):
            if name in ("map_err", "as_ref"):
                return r
            if name == "is_ok":
                return True if (isinstance(r, tuple) and r[0] == "resok") else (False if r == ("reserr",) else UNKNOWN)
            if name == "is_err":
                return False if (isinstance(r, tuple) and r[0] == "resok") else (True if r == ("reserr",) else UNKNOWN)
            if name == "ok":
                return _some(r[1]) if (isinstance(r, tuple) and r[0] == "resok") else (NONE if r == ("reserr",) else UNKNOWN)
            return UNKNOWN
        if name in ("then_some", "then"):
            if r is True:
                return _some()
            if r is False:
                return NONE
            return UNKNOWN
        return UNKNOWN
    if k == "letexpr":
        v = abs_eval(n["init"], env, assume, binds, accessors)
        ps = pat_str(n["pat"])
        if ps.startswith("Some("):
            return True if (isinstance(v, tuple) and v and v[0] == "some") else (False if v == NONE else UNKNOWN)
        if ps == "None":
            return True if v == NONE else (False if (isinstance(v, tuple) and v and v[0] == "some") else UNKNOWN)
        return UNKNOWN
    if k == "block" and not n.get("stmts") and n.get("expr") is not None:
        return abs_eval(n["expr"], env, assume, binds, accessors)
    return UNKNOWN


def abs_exec_block(block, env, assume, binds=None, accessors=None):
    """Abstractly execute a block's statement sequence: returns 'err' if an error exit is certainly taken
    (a diverging `if` whose condition evaluates to True and whose branch returns Err, or a `?` on an Err), 'pass' if all
    guards certainly do not fire, else 'unknown'."""
    binds = dict(binds or {})
    unknown = False
    stmts = list(block.get("stmts", []))
    if block.get("expr") is not None:
        stmts.append(block["expr"])
    for s in stmts:
        s2 = s["e"] if s.get("k") == "semi" else s
        k = s2.get("k")
        if k == "let":
            if s2.get("init") is not None:
                v = abs_eval(s2["init"], env, assume, binds, accessors)
                if v == ERR:
                    return "err"
                bs = pat_bindings(s2["pat"])
                if len(bs) == 1 and not bs[0][2]:
                    binds[bs[0][1]] = v
            continue
        if k == "if":
            c = abs_eval(s2["cond"], env, assume, binds, accessors)
            if c == ERR:
                return "err"
            if c is True:
                if diverges(s2["then"]):
                    oc = outcome(s2["then"])
                    return "err" if oc.startswith("Err(") else "exit"
                # bind `if let Some(x) = e`
                b2 = dict(binds)
                cc = strip(s2["cond"])
                if cc.get("k") == "letexpr":
                    v = abs_eval(cc["init"], env, assume, binds, accessors)
                    for nm, bid, path in pat_bindings(cc["pat"]):
                        b2[bid] = v[1] if (isinstance(v, tuple) and v[0] == "some" and path == ("Some", "0")) else UNKNOWN
                r = abs_exec_block(s2["then"], env, assume, b2, accessors)
                if r in ("err", "exit"):
                    return r
                if r == "unknown":
                    unknown = True
            elif c is False:
                if s2.get("else") is not None:
                    r = abs_exec_block(s2["else"], env, assume, binds, accessors) if s2["else"].get("k") == "block" else "unknown"
                    if r in ("err", "exit"):
                        return r
                    if r == "unknown":
                        unknown = True
            else:
                unknown = True
            continue
        if k in ("ret",):
            return "err" if outcome(s2).startswith("Err(") else "exit"
        v = abs_eval(s2, env, assume, binds, accessors)
        if v == ERR:
            return "err"
    return "unknown" if unknown else "pass"


_BINOPS = {"Eq": "==", "Ne": "!=", "Lt": "<", "Le": "<=", "Gt": ">", "Ge": ">=", "And": "&&", "Or": "||", "Add": "+", "Sub": "-",
           "Mul": "*", "Div": "/", "Rem": "%", "BitAnd": "&", "BitOr": "|", "BitXor": "^", "Shl": "<<", "Shr": ">>"}


def show(n, depth=0):
    """Compact canonical rendering of an expression (references, derefs and casts peeled; paths by last segment;
    `a > b` printed as `b < a`, `a >= b` as `b <= a`). For matching guard conditions structurally, not for display."""
    n = strip(n)
    if not isinstance(n, dict) or depth > 12:
        return "?"
    k = n.get("k")
    if k == "path":
        r = n.get("res", {})
        if "local" in r:
            return r["local"]
        d = r.get("def") or r.get("path") or ""
        return d.split("::")[-1] if d else "?path"
    if k == "lit":
        v = n.get("v")
        if isinstance(v, dict):
            for kk in ("str", "int", "bool", "char", "float", "bytes"):
                if kk in v:
                    return repr(v[kk]) if kk in ("str", "char", "bytes") else str(v[kk])
        return str(v)
    if k == "field":
        return "%s.%s" % (show(n["base"], depth + 1), n.get("name"))
    if k == "mcall":
        return "%s.%s(%s)" % (show(n["recv"], depth + 1), n.get("name"), ", ".join(show(a, depth + 1) for a in n.get("args", [])))
    if k == "call":
        f = n.get("fn") or n.get("resolved") or (variant_name(n["ctor"]) if n.get("ctor") else None) or show(n.get("callee"), depth + 1)
        f = re.sub(r"<.*?>", "", f).split("::")[-1] if f else "?"
        return "%s(%s)" % (f, ", ".join(show(a, depth + 1) for a in n.get("args", [])))
    if k == "binary":
        op = n.get("op")
        l, r = show(n["l"], depth + 1), show(n["r"], depth + 1)
        if op == "Gt":
            op, l, r = "Lt", r, l
        elif op == "Ge":
            op, l, r = "Le", r, l
        return "(%s %s %s)" % (l, _BINOPS.get(op, op), r)
    if k == "unary":
        return "%s(%s)" % ({"Not": "!", "Neg": "-"}.get(n.get("op"), n.get("op")), show(n["e"], depth + 1))
    if k == "index":
        return "%s[%s]" % (show(n["base"], depth + 1), show(n["idx"], depth + 1))
    if k == "tup":
        return "(%s)" % ", ".join(show(a, depth + 1) for a in n.get("es", []))
    if k == "match" and n.get("src") == "try":
        return show(try_inner(n), depth + 1) + "?"
    if k == "letexpr":
        return "let %s = %s" % (pat_str(n.get("pat")), show(n.get("init"), depth + 1))
    if k == "closure":
        return "|..| " + show(n.get("body"), depth + 1)
    if k == "struct":
        return "%s{%s}" % ((n.get("res", {}).get("def") or n.get("ty") or "struct").split("::")[-1],
                           ", ".join("%s: %s" % (f.get("name"), show(f.get("e"), depth + 1)) for f in n.get("fields", [])))
    if k == "range":
        return "%s..%s" % (show(n.get("lo"), depth + 1) if n.get("lo") else "", show(n.get("hi"), depth + 1) if n.get("hi") else "")
    return "<%s>" % k


def chain_root(n):
    """Innermost receiver of a method-call chain: `a.b().c()` → node of `a`."""
    n = strip(n)
    while isinstance(n, dict) and n.get("k") == "mcall":
        n = strip(n["recv"])
    return n
