"""Queries over the dumped HIR expression trees."""
import re

CHILD_KEYS = ("args", "es", "stmts", "arms", "fields", "params")
SINGLE_KEYS = ("recv", "callee", "e", "l", "r", "cond", "then", "else", "scrut", "body", "init", "els", "expr", "base", "idx",
               "guard", "value")


def children(n):
    """Direct child expression nodes (arms and struct fields are unwrapped)."""
    if not isinstance(n, dict):
        return
    for k in SINGLE_KEYS:
        v = n.get(k)
        if isinstance(v, dict):
            yield v
    for k in CHILD_KEYS:
        v = n.get(k)
        if isinstance(v, list):
            for x in v:
                if isinstance(x, dict):
                    if "k" in x and "sp" in x:
                        yield x
                    else:
                        # arm {pat, guard, body} / struct field {name, e} / pattern
                        for kk in ("guard", "body", "e"):
                            y = x.get(kk)
                            if isinstance(y, dict):
                                yield y
                        # guards inside patterns
                        if "pat" in x:
                            for g in pat_guards(x["pat"]):
                                yield g
    if n.get("k") in ("let", "letexpr") and isinstance(n.get("pat"), dict):
        for g in pat_guards(n["pat"]):
            yield g


def pat_guards(p):
    if not isinstance(p, dict):
        return
    if p.get("k") == "guard":
        yield p["guard"]
    for k in ("sub", "mid"):
        if isinstance(p.get(k), dict):
            yield from pat_guards(p[k])
    for k in ("subs", "alts", "before", "after"):
        for x in p.get(k) or []:
            yield from pat_guards(x)
    for f in p.get("fields") or []:
        yield from pat_guards(f.get("pat"))


def walk(n):
    """Pre-order over all expression nodes, descending into closures."""
    stack = [n]
    while stack:
        x = stack.pop()
        if not isinstance(x, dict):
            continue
        yield x
        cs = list(children(x))
        stack.extend(reversed(cs))


def root(h):
    """Expression root of a body's HIR record."""
    return h["value"] if h and "value" in h else h


def fn_name(n):
    return n.get("resolved") or n.get("fn")


def is_call(n, pat=None):
    if n.get("k") not in ("call", "mcall") and not (n.get("k") == "binary" and n.get("fn")):
        return False
    if pat is None:
        return True
    names = [x for x in (n.get("fn"), n.get("resolved")) if x]
    if hasattr(pat, "search"):
        return any(pat.search(x) for x in names)
    if isinstance(pat, (list, tuple, set, frozenset)):
        return any(is_call(n, p) for p in pat)
    return pat in names


def calls(h, pat=None):
    return [n for n in walk(root(h)) if is_call(n, pat)]


def call_args(n):
    """All argument expressions including the receiver (first)."""
    if n["k"] == "mcall":
        return [n["recv"]] + n["args"]
    if n["k"] == "binary":
        return [n["l"], n["r"]]
    return n["args"]


def pat_bindings(p, out=None, path=()):
    """[(name, id, access-path)] of all bindings in a pattern; access path = tuple of field names / indices / variants."""
    if out is None:
        out = []
    if not isinstance(p, dict):
        return out
    k = p.get("k")
    if k == "bind":
        out.append((p["name"], p["id"], path))
        if p.get("sub"):
            pat_bindings(p["sub"], out, path)
    elif k == "struct":
        for f in p["fields"]:
            pat_bindings(f["pat"], out, path + (f["name"],))
    elif k in ("tuplestruct", "tuple"):
        v = ()
        if k == "tuplestruct":
            v = (variant_name(p["res"]),)
        for i, s in enumerate(p["subs"]):
            pat_bindings(s, out, path + v + (str(i),))
    elif k in ("ref", "guard"):
        pat_bindings(p["sub"], out, path)
    elif k == "or":
        for a in p["alts"]:
            pat_bindings(a, out, path)
    elif k == "slice":
        for s in p["before"] + ([p["mid"]] if p.get("mid") else []) + p["after"]:
            pat_bindings(s, out, path)
    return out


def variant_name(res):
    if not isinstance(res, dict):
        return "?"
    d = res.get("def") or res.get("ctor_of") or res.get("selfctor") or ""
    if res.get("dk") == "Ctor":
        d = res.get("ctor_of") or d
    return d.rsplit("::", 1)[-1]


def pat_str(p):
    """Canonical text of a pattern keyed by variant names (bindings and wildcards are `_`)."""
    if not isinstance(p, dict):
        return "_"
    k = p.get("k")
    if k in ("wild", "never", "err"):
        return "_"
    if k == "bind":
        return pat_str(p["sub"]) if p.get("sub") else "_"
    if k == "path":
        return variant_name(p["res"])
    if k == "lit":
        v = p["v"]
        for key in ("str", "int", "bool", "char"):
            if key in v:
                return repr(v[key]) if key == "str" else str(v[key])
        return "lit"
    if k == "tuplestruct":
        return "%s(%s)" % (variant_name(p["res"]), ", ".join(pat_str(s) for s in p["subs"]))
    if k == "struct":
        inner = ", ".join("%s: %s" % (f["name"], pat_str(f["pat"])) for f in p["fields"])
        return "%s{%s%s}" % (variant_name(p["res"]), inner, ", .." if p.get("rest") else "")
    if k == "tuple":
        return "(%s)" % ", ".join(pat_str(s) for s in p["subs"])
    if k == "ref":
        return pat_str(p["sub"])
    if k == "guard":
        return pat_str(p["sub"]) + " if .."
    if k == "or":
        return " | ".join(pat_str(a) for a in p["alts"])
    if k == "range":
        def e(x):
            if not x:
                return ""
            return pat_str(x)
        return "%s..%s%s" % (e(p.get("lo")), "=" if p.get("inclusive") else "", e(p.get("hi")))
    if k == "slice":
        return "[..]"
    return "?"


def strip(n):
    """Peel reference/deref/paren-like wrappers and trivial blocks."""
    while isinstance(n, dict):
        k = n.get("k")
        if k == "addrof":
            n = n["e"]
        elif k == "unary" and n.get("op") == "Deref":
            n = n["e"]
        elif k == "block" and not n.get("stmts") and n.get("expr"):
            n = n["expr"]
        elif k == "cast":
            n = n["e"]
        else:
            break
    return n


def try_inner(n):
    """`expr?` → expr (the HIR desugaring is `match Try::branch(expr) {..}`)."""
    n = strip(n)
    if isinstance(n, dict) and n.get("k") == "match" and n.get("src") == "try":
        sc = n["scrut"]
        if sc.get("k") == "call" and sc.get("args"):
            return sc["args"][0]
    return None


def await_inner(n):
    n = strip(n)
    if isinstance(n, dict) and n.get("k") == "match" and n.get("src") == "await":
        sc = n["scrut"]
        # match into_future(expr) { mut __awaitee => loop {..} }
        if sc.get("k") == "call" and sc.get("args"):
            return sc["args"][0]
    return None


def ctor_class(n):
    """Classify an expression as Ok(..)/Err(Variant..)/Some/None/other. Returns (tag, detail-node)."""
    n = strip(n)
    if not isinstance(n, dict):
        return ("?", None)
    if n.get("k") == "call" and n.get("ctor"):
        name = variant_name(n["ctor"])
        return (name, n["args"][0] if n.get("args") else None)
    if n.get("k") == "path":
        r = n.get("res", {})
        if r.get("dk") == "Ctor" or r.get("dk") == "Variant":
            return (variant_name(r), None)
    if n.get("k") == "ret" and n.get("e") is not None:
        return ctor_class(n["e"])
    if n.get("k") == "block" and n.get("expr") is None and n.get("stmts"):
        last = n["stmts"][-1]
        if last.get("k") == "semi":
            last = last["e"]
        if last.get("k") == "ret":
            return ctor_class(last)
    if n.get("k") == "block" and n.get("expr") is not None:
        return ctor_class(n["expr"])
    return ("expr", n)


def err_variant(n):
    """For an expression that builds an error value: name of the outermost enum variant / struct constructed."""
    n = strip(n)
    if not isinstance(n, dict):
        return None
    k = n.get("k")
    if k == "call" and n.get("ctor"):
        return variant_name(n["ctor"])
    if k == "struct":
        return variant_name(n["res"])
    if k == "path":
        r = n.get("res", {})
        if r.get("dk") in ("Ctor", "Variant", "Const", "AssocConst"):
            return variant_name(r)
    if k in ("call", "mcall"):
        # wrappers: Error::from(x) / x.into() / Box::new(x)
        nm = fn_name(n) or ""
        if re.search(r"(::into|::from|Box::new|::new)$", nm) and call_args(n):
            inner = err_variant(call_args(n)[-1])
            if inner:
                return inner
        return "call:" + nm.rsplit("::", 1)[-1]
    return None


def outcome(n):
    """Outcome class of an arm/branch body: 'Ok', 'Err(<Variant>)', 'Some', 'None', or 'expr'."""
    tag, inner = ctor_class(n)
    if tag == "Err":
        return "Err(%s)" % (err_variant(inner) or "?")
    return tag


class Env:
    """Local-variable environment of one body: binding id -> defining expressions."""

    def __init__(self, h):
        self.h = h
        self.defs = {}      # id -> [(expr, access_path)]
        self.params = {}    # id -> (name, index, access_path)
        self.names = {}
        for i, p in enumerate(h.get("params", [])):
            for name, bid, path in pat_bindings(p):
                self.params[bid] = (name, i, path)
                self.names[bid] = name
        for n in walk(root(h)):
            k = n.get("k")
            if k == "let" or k == "letexpr":
                if n.get("init") is not None:
                    for name, bid, path in pat_bindings(n["pat"]):
                        self.defs.setdefault(bid, []).append((n["init"], path))
                        self.names[bid] = name
            elif k == "assign":
                l = strip(n["l"])
                if l.get("k") == "path" and "local" in l.get("res", {}):
                    self.defs.setdefault(l["res"]["id"], []).append((n["r"], ()))
            elif k == "match":
                for a in n["arms"]:
                    for name, bid, path in pat_bindings(a["pat"]):
                        self.defs.setdefault(bid, []).append((n["scrut"], path))
                        self.names[bid] = name
            elif k == "closure":
                for i, p in enumerate(n.get("params", [])):
                    for name, bid, path in pat_bindings(p):
                        self.names[bid] = name
                        self.defs.setdefault(bid, []).append(({"k": "closure_param", "sp": n["sp"], "closure": n["def"], "index": i}, path))


ADAPTERS = re.compile(
    r"^(core::option::Option::(as_ref|as_deref|as_mut|map|copied|cloned|unwrap_or_default|unwrap_or|ok_or|ok_or_else|and_then|filter|unwrap_or_else|transpose|take)"
    r"|core::result::Result::(as_ref|map|map_err|ok|and_then|unwrap_or_default|transpose)"
    r"|core::str::<impl str>::(as_bytes|as_ref|trim)|alloc::string::String::(as_str|as_bytes)"
    r"|core::clone::Clone::clone|alloc::borrow::ToOwned::to_owned|alloc::string::ToString::to_string"
    r"|core::convert::(Into::into|From::from|AsRef::as_ref)|core::ops::deref::Deref(Mut)?::deref(_mut)?"
    r"|alloc::vec::Vec::<.*>::as_slice|core::borrow::Borrow::borrow|alloc::borrow::Cow::<.*>::(as_ref|into_owned)"
    r"|core::ops::try_trait::Try::branch|core::future::into_future::IntoFuture::into_future"
    r")$"
)


def origins(n, env, adapters=ADAPTERS, extra=None, depth=0, seen=None):
    """Set of root origins of the value of expression `n`:
       ('param', name, path...) | ('call', fn) | ('lit', value) | ('def', path) | ('field', adt, name, <base origins>) | ('other', kind)
    Field accesses are kept as path suffixes on param/local roots: ('param', 'options', 'nonce')."""
    if seen is None:
        seen = set()
    out = set()
    n = strip(n)
    if not isinstance(n, dict) or depth > 40:
        return {("other", "depth")}
    k = n.get("k")
    t = try_inner(n)
    if t is not None:
        return origins(t, env, adapters, extra, depth + 1, seen)
    a = await_inner(n)
    if a is not None:
        return origins(a, env, adapters, extra, depth + 1, seen)
    if k == "path":
        r = n.get("res", {})
        if "local" in r:
            bid = r["id"]
            if bid in env.params:
                name, _, path = env.params[bid]
                return {("param", name) + tuple(path)}
            if bid in seen:
                return set()
            seen = seen | {bid}
            ds = env.defs.get(bid)
            if not ds:
                return {("local", r["local"])}
            for (e, path) in ds:
                for o in origins(e, env, adapters, extra, depth + 1, seen):
                    out.add(o + tuple(path) if o[0] in ("param", "local", "callres") and path else o)
            return out
        if "def" in r:
            return {("def", r["def"])}
        return {("other", "path")}
    if k == "field":
        for o in origins(n["base"], env, adapters, extra, depth + 1, seen):
            out.add(o + (n["name"],) if o[0] in ("param", "local", "callres") else ("fieldof",) + o + (n["name"],))
        return out
    if k == "lit":
        v = n["v"]
        for key in ("str", "int", "bool", "char", "bytes", "float"):
            if key in v:
                val = v[key]
                return {("lit", tuple(val) if isinstance(val, list) else val)}
        return {("lit", None)}
    if k in ("call", "mcall"):
        nm = fn_name(n) or ""
        base = n.get("fn") or ""
        if n.get("ctor"):
            # tuple-struct / variant constructor: transparent wrapper for origin purposes
            for a_ in n["args"]:
                out |= origins(a_, env, adapters, extra, depth + 1, seen)
            return out or {("ctor", variant_name(n["ctor"]))}
        if (adapters is not None and (adapters.search(base) or adapters.search(nm))) or (extra is not None and (extra.search(base) or extra.search(nm))):
            args = call_args(n)
            if args:
                # adapters: value derives from the receiver; closures passed as arguments are ignored here
                out |= origins(args[0], env, adapters, extra, depth + 1, seen)
                for extra_arg in args[1:]:
                    ea = strip(extra_arg)
                    if ea.get("k") not in ("closure", "path", "lit"):
                        out |= origins(extra_arg, env, adapters, extra, depth + 1, seen)
                return out
        return {("call", nm)}
    if k == "closure_param":
        return {("closure_param", n["closure"], n["index"])}
    if k in ("if",):
        out |= origins(n["then"], env, adapters, extra, depth + 1, seen)
        if n.get("else") is not None:
            out |= origins(n["else"], env, adapters, extra, depth + 1, seen)
        return out
    if k == "match":
        for arm in n["arms"]:
            out |= origins(arm["body"], env, adapters, extra, depth + 1, seen)
        return out
    if k == "block":
        if n.get("expr") is not None:
            return origins(n["expr"], env, adapters, extra, depth + 1, seen)
        return {("other", "unit")}
    if k == "struct":
        return {("struct", variant_name(n["res"]))}
    if k in ("tup", "array"):
        for e in n["es"]:
            out |= origins(e, env, adapters, extra, depth + 1, seen)
        return out
    if k == "index":
        return origins(n["base"], env, adapters, extra, depth + 1, seen)
    if k == "binary":
        return {("binary", n["op"])}
    if k == "unary":
        return origins(n["e"], env, adapters, extra, depth + 1, seen)
    if k == "closure":
        return {("closure", n["def"])}
    return {("other", k)}


def comparisons(h, ops=("Eq", "Ne", "Lt", "Le", "Gt", "Ge")):
    return [n for n in walk(root(h)) if n.get("k") == "binary" and n.get("op") in ops]


NEG = {"Eq": "Ne", "Ne": "Eq", "Lt": "Ge", "Ge": "Lt", "Gt": "Le", "Le": "Gt"}
SWAP = {"Eq": "Eq", "Ne": "Ne", "Lt": "Gt", "Gt": "Lt", "Le": "Ge", "Ge": "Le"}


def struct_lits(h, ty=None):
    return [n for n in walk(root(h)) if n.get("k") == "struct" and (ty is None or n.get("ty") == ty)]


def find_first(h, pred):
    for n in walk(root(h)):
        if pred(n):
            return n
    return None
