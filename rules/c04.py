"""C04 — DID document id-uniqueness and round trip hold across every mutation history."""
import re

import hir as H
import mir as M
import rulelib as L
import symrules as SR
import sym as SY

CRATES = ["identity_document", "identity_verification", "identity_core"]
CD = "identity_document::document::core_document::CoreDocument"
CDD = "identity_document::document::core_document::CoreDocumentData"
OS = "identity_core::common::ordered_set::OrderedSet"
MREF = "identity_verification::verification_method::method_ref::MethodRef"

REL_FIELDS = ["authentication", "assertion_method", "key_agreement", "capability_delegation", "capability_invocation"]
GUARDED = REL_FIELDS + ["verification_method", "service"]
VARIANT_FIELD = {"Authentication": "authentication", "AssertionMethod": "assertion_method", "KeyAgreement": "key_agreement",
                 "CapabilityDelegation": "capability_delegation", "CapabilityInvocation": "capability_invocation", "VerificationMethod": "verification_method"}
ACCESSOR_FIELD = dict((f, f) for f in GUARDED)
SET_MUT = ("append", "prepend", "replace", "update", "remove", "clear")

# functions allowed to obtain a mutable reference to one of the seven guarded collections
MUTATORS = {
    CD + "::insert_method": "checked mutator (gate: C04-R2/R3)",
    CD + "::remove_method_and_scope": "checked mutator (removal cannot create a duplicate)",
    CD + "::insert_service": "checked mutator (gate: C04-R2/R3)",
    CD + "::remove_service": "checked mutator (removal)",
    CD + "::attach_method_relationship": "checked mutator (inserts a Refer of a resolved general-purpose method)",
    CD + "::detach_method_relationship": "checked mutator (removal)",
    CD + "::service_mut_unchecked": "named-unchecked escape (documented)",
    CD + "::resolve_method_mut": "reviewed: hands out &mut VerificationMethod (id change through set_id possible) — API hazard outside the checked-mutation alphabet",
    CD + "::resolve_method_mut_inner": "reviewed: helper of resolve_method_mut",
    CD + "::map_unchecked": "named-unchecked (used for the placeholder rewrite, C14)",
    CD + "::try_map": "re-validated: result goes through CoreDocument::try_from",
    CDD + "::try_map": "builds a new CoreDocumentData; validated by the caller",
}


def data_field_of(node, env):
    """Name of the CoreDocumentData field an expression denotes (self.data.<f> or accessor self.<f>())"""
    oo = H.origins(node, env, accessors=re.compile(r"CoreDocument::(%s)$" % "|".join(GUARDED)), adapters=None)
    fs = set()
    for o in oo:
        if o[:3] == ("param", "self", "data") and len(o) > 3:
            fs.add(o[3])
        elif o[:2] == ("param", "self") and len(o) > 2 and o[2] in GUARDED:
            fs.add(o[2])
    return fs


def _check_id_model(F, rule, ck, nmax):
    """check_id_constraints evaluated on every small document: up to `nmax` entries drawn from {general-purpose method, embedded / referenced
    entry of each of the five relationships, service} × two ids (no id twice in one collection — OrderedSet's invariant, C19).  Each
    evaluation is concrete (one path); its verdict must be the specification's: Err exactly when an embedded method's id occurs in another
    relationship entry or in verification_method, or a service id equals the id of any method entry."""
    import itertools
    OS = "identity_core::common::ordered_set::OrderedSet"
    VM = "identity_verification::verification_method::method::VerificationMethod"
    SV = "identity_document::service::service::Service"
    rels = list(REL_FIELDS)
    kinds = [("verification_method", "vm")] + [(r_, k_) for r_ in rels for k_ in ("Embed", "Refer")] + [("service", "svc")]
    entries = [(c_, k_, i_) for (c_, k_) in kinds for i_ in ("did:x:1#A", "did:x:1#B")]

    def value(k_, i_):
        if k_ == "vm":
            return SY.St(VM, {"id": i_})
        if k_ == "Embed":
            return SY.V("Embed", (SY.St(VM, {"id": i_}),))
        if k_ == "Refer":
            return SY.V("Refer", (i_,))
        return SY.St(SV, {"id": i_})

    def spec(es):
        rel = [(k_, i_) for (c_, k_, i_) in es if c_ in rels]
        vms = {i_ for (c_, k_, i_) in es if c_ == "verification_method"}
        for (k_, i_) in rel:
            if k_ == "Embed" and (sum(1 for (_, j_) in rel if j_ == i_) > 1 or i_ in vms):
                return False
        ids = {i_ for (_, i_) in rel} | vms
        return not any(i_ in ids for (c_, k_, i_) in es if c_ == "service")
    ev = SY.Evaluator(F, inline_depth=6, concrete_vec=True, loop_bound=2 * nmax + 4)
    n = bad = 0
    for m in range(nmax + 1):
        for es in itertools.combinations(entries, m):
            if len({(c_, i_) for (c_, k_, i_) in es}) < len(es):
                continue        # the same id twice in one collection
            cols = {c_: [] for c_ in list(GUARDED)}
            for (c_, k_, i_) in es:
                cols[c_].append(value(k_, i_))
            d = SY.St(CDD, {c_: SY.St(OS, {"0": v_}) for c_, v_ in cols.items()})
            try:
                ps = [q for q in ev.explore(ck, args=[d], max_paths=50)]
            except (SY.Abort, SY.TooManyPaths) as e:
                rule.fail((ck, "model", "not-evaluable"), "check_id_constraints could not be evaluated on a concrete document: %s" % e)
                return
            shape = ", ".join("%s:%s(%s)" % (c_, k_, i_[-1]) for (c_, k_, i_) in es) or "(empty)"
            if len(ps) != 1 or not ps[0].complete:
                rule.fail((ck, "model", "not-evaluable"), "check_id_constraints on the document {%s}: %d path(s), %s" % (shape, len(ps), "incomplete" if ps else "none"))
                return
            n += 1
            ok = SR.is_success(ps[0].ret) and not SR.is_failure(ps[0].ret)
            if ok != spec(es):
                bad += 1
                if bad <= 3:
                    rule.fail((ck, "model", "accepts" if ok else "rejects"), "check_id_constraints %s the document {%s}; the id constraints (no embedded method id shared with another method entry, no service id equal to a method id) say %s" % (
                        "accepts" if ok else "rejects", shape, "accept" if spec(es) else "reject"))
    rule.site("check_id_constraints ≡ the id-constraint specification on all %d documents of ≤ %d entries over two ids: %s" % (n, nmax, bad == 0))
    rule.require(n >= 2000, (ck, "model", "coverage"), "only %d documents were evaluated" % n)


def run(F, R, tier):
    R.undecided += ["equality of the document with an abstract set-of-entries model after arbitrary histories", "DIDUrlQuery first-match semantics when two ids differ only in path/query",
                    "JSON equality of serialise→deserialise on concrete documents (serde)"]

    # ------------------------------------------------------------------ R1 constructor gate and who-may-write
    r1 = R.rule("C04-R1", "T1+T13", "CoreDocument{data} is built only under check_id_constraints ✓ (or in map_unchecked); the seven guarded collections are mutably reachable only from the reviewed mutators; serde try_from wiring")
    for (p, bi, s) in F.constructions(CD):
        base = p.split("::{closure#")[0]
        r1.site("CoreDocument{..} constructed in %s" % L.short(p))
        if F.derived_trait_of(base):
            continue
        if base == CD + "::map_unchecked":
            r1.exception(base, "reviewed", "named *_unchecked; only used for the DID placeholder rewrite, which maps ids injectively (C14)")
            continue
        body = F.mir(base, follow_async=False)
        ok = False
        if body is not None and p == base:
            ok, nc, ne = body.must_pass_success(CDD + "::check_id_constraints", [bi])
        r1.require(ok, (base, "unvalidated-construction"), "CoreDocument is constructed in %s on a path that has not passed check_id_constraints" % L.short(base))
    a = F.ast_item(CD)
    if r1.anchor(a, CD + " (ast)"):
        attrs = " ".join(a["attrs"])
        r1.site("CoreDocument serde attrs: %s" % [x for x in a["attrs"] if "serde" in x])
        r1.require(re.search(r'try_from\s*=\s*"CoreDocumentData', attrs) is not None, (CD, "serde-try_from"), "CoreDocument is not deserialised through TryFrom<CoreDocumentData> (id constraints)")
    fs = F.adt_fields(CD)
    if r1.anchor(fs, CD):
        r1.require(all(f["vis"] != "pub" for f in fs), (CD, "data-visibility"), "CoreDocument.data is public")
    ad = F.adt(CDD)
    if r1.anchor(ad, CDD):
        r1.require(not ad["reachable"], (CDD, "reachable"), "CoreDocumentData is reachable from outside the crate: documents can be built without the id gate")
    seen = set()
    for field in GUARDED:
        for (p, bi, kind, d) in F.field_writes(CDD, field):
            base = p.split("::{closure#")[0]
            if F.derived_trait_of(base) or (base, field) in seen:
                continue
            seen.add((base, field))
            r1.site("%s takes mutable access to data.%s" % (L.short(base), field))
            # (a private helper all of whose transitive callers are reviewed mutators acts on their behalf: what it does with the access is part
            # of what C04-R2/R3/R8 decide for those mutators, with helpers inlined)
            r1.require(base in MUTATORS or bool(L.private_helper_of(F, base, set(MUTATORS))), (base, "mutates", field), "%s obtains mutable access to CoreDocumentData.%s but is not a reviewed mutator" % (L.short(base), field))
    for sym, why in MUTATORS.items():
        if "unchecked" in why or "reviewed" in why:
            r1.exception(sym, "reviewed", why)
    r1.floor(40)

    # ------------------------------------------------------------------ R2 the three gates consult the same universe
    r2 = R.rule("C04-R2", "T5", "check_id_constraints, insert_service and insert_method all compare against the raw ids of every relationship entry (embedded and referenced), of verification_method and (for methods) of service")
    vr = F.hir(CD + "::verification_relationships")
    if r2.anchor(vr, "verification_relationships"):
        env = H.Env(vr)
        fields = set()
        for n in H.walk(H.root(vr)):
            if n.get("k") == "field":
                fields |= data_field_of(n, env)
        r2.site("verification_relationships chains %s" % sorted(fields & set(REL_FIELDS)))
        r2.require(fields & set(REL_FIELDS) == set(REL_FIELDS), (CD + "::verification_relationships", "all-five"), "verification_relationships() does not chain all five relationship sets: %s" % sorted(fields))
    GATE_OPQ = r"Queryable.*::query$|OrderedSet::append$|CoreDocument::resolve_method$"

    def elem_sources(q):
        """collections (field names of CoreDocumentData) from which a generic element was drawn on path q"""
        out = set()
        for (a, c, _, _) in q.decisions:
            for t_ in a[1:]:
                if not isinstance(t_, tuple):
                    continue
                for x in SY.subterms(t_):
                    if isinstance(x, tuple) and x[:1] == ("elem",):
                        for y in SY.subterms(x[1]):
                            if isinstance(y, tuple) and y[:1] == ("field",) and y[2] in GUARDED:
                                out.add(y[2])
        return out

    def collision_witnesses(tab, err, id_root):
        """{(collection, entry kind)} for which some path rejecting with `err` established entry-id == the new id"""
        w = set()
        for q in tab.err():
            if SR.err_name(q.ret) != err:
                continue
            for (a, c, _, _) in q.decisions:
                if a[0] != "eq" or c is not True:
                    continue
                for x, y in ((a[1], a[2]), (a[2], a[1])):
                    if not SR.derives(y, id_root):
                        continue
                    for z in SY.subterms(x):
                        if isinstance(z, tuple) and z[:1] == ("elem",):
                            coll = [u[2] for u in SY.subterms(z[1]) if isinstance(u, tuple) and u[:1] == ("field",) and u[2] in GUARDED]
                            kind = "Embed" if ("payload", z, "Embed", 0) in list(SY.subterms(x)) else ("Refer" if ("payload", z, "Refer", 0) in list(SY.subterms(x)) else "entry")
                            for c_ in coll:
                                w.add((c_, kind))
        return w

    ID_CONV = re.compile(r"(::id|as_ref|borrow|deref|clone|to_owned)$")

    def whole_id(t_, is_base):
        """t_ is the whole identifier of a base value: the base, its `id` member / accessor, through payload projections and
        borrows only — not a fragment, a DID or any other part of it"""
        while isinstance(t_, tuple):
            if is_base(t_):
                return True
            if t_[:1] == ("payload",) or (t_[:1] == ("field",) and t_[2] in ("id", "0")):
                t_ = t_[1]
            elif t_[:1] == ("call",) and ID_CONV.search(re.sub(r"<[^<>]*>", "", t_[1])) and len(t_[2]) == 1:
                t_ = t_[2][0]
            else:
                return False
        return False

    def partial_comparisons(tab, id_root):
        """eq decisions between (something of) the new entry and (something of) an existing entry that do not compare the two
        whole identifiers: the gate then refuses (or admits) on a part of the id — a fragment, a DID"""
        bad = set()
        for q in tab.paths:
            for (a, c, _, _) in q.decisions:
                if a[0] != "eq":
                    continue
                for x, y in ((a[1], a[2]), (a[2], a[1])):
                    if SR.derives(y, id_root) and any(isinstance(z, tuple) and z[:1] == ("elem",) for z in SY.subterms(x)) and not SR.derives(x, id_root):
                        if not (whole_id(y, lambda b_: b_ == id_root) and whole_id(x, lambda b_: b_[:1] == ("elem",))):
                            bad.add("%s == %s" % (SY.fmt(x), SY.fmt(y)))
        return sorted(bad)

    ck = CDD + "::check_id_constraints"
    if r2.anchor(F.hir(ck), "check_id_constraints"):
        tab = SR.Table(F, ck, rule=r2, max_paths=8000)
        cov = set()
        for q in tab.paths:
            cov |= elem_sources(q)
        r2.site("check_id_constraints scans %s" % sorted(cov))
        r2.require(set(GUARDED) <= cov or not tab.paths, (ck, "universe"), "check_id_constraints does not scan all seven collections: missing %s" % sorted(set(GUARDED) - cov))
        errs = {q.describe()[-80:] for q in tab.err()}
        r2.require(len(tab.err()) >= 4 or not tab.paths, (ck, "rejections"), "check_id_constraints has %d rejecting paths, expected at least 4 (duplicate embedded, alias of an embedded method, dangling reference, service id)" % len(tab.err()))
        _check_id_model(F, r2, ck, 3 if tier == "quick" else 4)
    # insert_service
    fn = CD + "::insert_service"
    if r2.anchor(F.hir(fn), fn):
        tab = SR.Table(F, fn, opaque=GATE_OPQ, rule=r2, max_paths=8000)
        w = collision_witnesses(tab, "InvalidServiceInsertion", SR.param("service"))
        r2.site("insert_service rejects an id equal to the raw id of: %s" % sorted(w))
        pc = partial_comparisons(tab, SR.param("service"))
        r2.require(not pc, (fn, "compare-whole"), "insert_service compares a part of an identifier, not the whole of it: %s" % "; ".join(pc[:3]))
        missing_rel = [c_ for c_ in REL_FIELDS if not {(c_, "Embed"), (c_, "Refer")} <= w]
        r2.require(not missing_rel or not tab.paths, (fn, "universe", "relationships"), "insert_service does not compare against the raw ids of all relationship entries (embedded and referenced): missing %s" % missing_rel)
        r2.require(any(c_ == "verification_method" for c_, _ in w) or not tab.paths, (fn, "universe", "verification_method"), "insert_service does not compare against the general-purpose methods")
        for q in tab.ok():
            r2.require(not any(a[0] == "eq" and c is True and SR.derives(a[1], SR.param("service")) != SR.derives(a[2], SR.param("service")) and any(isinstance(z, tuple) and z[:1] == ("elem",) for z in SY.subterms(a[1] if SR.derives(a[2], SR.param("service")) else a[2]))
                               for (a, c, _, _) in q.decisions), (fn, "compare"), "insert_service accepts although an existing entry has the same id — path: %s" % q.describe()[-200:])
    # insert_method
    fn = CD + "::insert_method"
    if r2.anchor(F.hir(fn), fn):
        tab = SR.Table(F, fn, opaque=GATE_OPQ, rule=r2, max_paths=8000)
        w = collision_witnesses(tab, "MethodInsertionError", SR.param("method"))
        pc = partial_comparisons(tab, SR.param("method"))
        r2.require(not pc, (fn, "compare-whole"), "insert_method compares a part of an identifier, not the whole of it (an entry that only shares a fragment or a DID with the new method makes it refuse): %s" % "; ".join(pc[:3]))
        kinds = set()
        if all({(c_, "Embed"), (c_, "Refer")} <= w for c_ in REL_FIELDS):
            kinds.add("raw-relationships")
        for q in tab.err():
            if SR.err_name(q.ret) != "MethodInsertionError":
                continue
            for e in q.calls(r"CoreDocument::resolve_method$"):
                if q.succeeded(e) is True and SR.derives(e.args[1], SR.param("method")):
                    kinds.add("resolve_method")
            for e in q.calls(r"Queryable.*::query$"):
                if q.succeeded(e) is True and SR.derives(e.args[1], SR.param("method")) and "service" in SY.fmt(SY.term(e.args[0])):
                    kinds.add("service")
        r2.site("insert_method gate rejects on: %s (relationship witnesses %s)" % (sorted(kinds), sorted(w)))
        want = {"resolve_method", "service", "raw-relationships"}
        if tab.paths and kinds != want:
            r2.fail((fn, "universe", ",".join(sorted(want - kinds))), "insert_method's id gate does not consult %s: an id already used by such an entry can be inserted again" % sorted(want - kinds))
        r2.require(bool(tab.err()) or not tab.paths, (fn, "gate"), "insert_method never rejects with MethodInsertionError")
        # the insertion (append) happens only on paths where all three were negative
        for q in tab.paths:
            if q.calls(r"OrderedSet::append$"):
                neg = any(q.succeeded(e) is False for e in q.calls(r"CoreDocument::resolve_method$")) and any(q.succeeded(e) is False for e in q.calls(r"Queryable.*::query$"))
                r2.require(neg, (fn, "gate-before-insert"), "insert_method appends without resolve_method and the service query having come back empty — path: %s" % q.describe()[:200])
    r2.floor(5)

    # ------------------------------------------------------------------ R3 guarded insertion, R4 refusal leaves the document unchanged
    r3 = R.rule("C04-R3", "T2", "every insertion into a guarded set happens after its gate passed, and no error exit is reachable after a mutation (a refused operation leaves the document unchanged)")
    # decided on the decision tables, with the set primitives as oracles that may succeed or refuse: (a) no path ends in an error after a
    # primitive changed a set (its result is not decided `false`), (b) a path inserts at most once, (c) insert_method reaches each of the
    # six method sets, (d) an insertion is attempted only on paths whose gate found no entry with the new id (C04-R2 decides the gate)
    MUT_OPQ = GATE_OPQ + r"|OrderedSet::(prepend|remove|replace|update|clear|retain)$"
    MUT_RX = r"OrderedSet::(append|prepend|remove|replace|update|clear|retain)$"
    for fn in (CD + "::insert_method", CD + "::insert_service", CD + "::attach_method_relationship", CD + "::detach_method_relationship"):
        if not r3.anchor(F.hir(fn), fn):
            continue
        tabm = SR.Table(F, fn, opaque=MUT_OPQ, rule=r3, max_paths=8000)
        targets, nm = set(), 0
        for q in tabm.paths:
            ms = q.calls(MUT_RX)
            nm += len(ms)
            failed = SR.is_failure(q.ret) or not SR.is_success(q.ret)
            for e in ms:
                targets |= {u[2] for u in SY.subterms(SY.term(e.args[0])) if isinstance(u, tuple) and u[:1] == ("field",) and u[2] in GUARDED}
                refused = q.succeeded(e) is False or any(c is False for (_t, c) in SR.truth_of(q, lambda t_, e=e: isinstance(e.result, SY.Sym) and t_ == e.result.t))
                if failed and not refused:
                    r3.fail((fn, "error-after-mutation"), "%s: an error exit is reachable after %s changed %s — path: %s" % (L.short(fn), e.fn.rsplit("::", 1)[-1], SY.fmt(SY.term(e.args[0])), q.describe()[-160:]))
            r3.require(len([e for e in ms if re.search(r"::(append|prepend)$", e.fn)]) <= 1, (fn, "append-count"), "%s inserts more than once on one path" % L.short(fn))
            if fn.endswith("::insert_service"):
                for e in [e for e in ms if re.search(r"::(append|prepend)$", e.fn)]:
                    hit = [a for (a, c, _, _) in q.decisions[:e.nd if e.nd is not None else len(q.decisions)] if a[0] == "eq" and c is True and SR.derives(a[1], SR.param("service")) != SR.derives(a[2], SR.param("service"))]
                    r3.require(not hit, (fn, "guarded-append"), "insert_service attempts the insertion on a path that found an entry with the same id: %s" % q.describe()[-160:])
        r3.site("%s: %d set mutation(s) over %d path(s) into %s; no error exit after a change" % (L.short(fn), nm, len(tabm.paths), sorted(targets)))
        if fn.endswith("::insert_method") and tabm.paths:
            want6 = {"verification_method"} | set(REL_FIELDS)
            r3.require(targets == want6, (fn, "append-count"), "insert_method must be able to insert into each of the six method sets: reaches %s" % sorted(targets))
            r3.site("insert_method: one insertion per path, six sets reachable: %s" % (targets == want6))
        if fn.endswith("::insert_service") and tabm.paths:
            r3.site("insert_service: insertion attempted only on paths without an id collision")
    # (attach_method_relationship: what is appended, where and after which lookup is decided on its decision table — C04-R8)
    r3.floor(6)

    # ------------------------------------------------------------------ R5 scope tables
    r5 = R.rule("C04-R5", "T4+T5", "every match over MethodScope/MethodRelationship is exhaustive without wildcard and maps each variant to its own collection (Authentication ↔ authentication, …)")
    fns = [CD + "::insert_method", CD + "::attach_method_relationship", CD + "::detach_method_relationship", CD + "::methods", CD + "::resolve_method", CD + "::resolve_method_mut", CD + "::remove_method_and_scope"]
    for fn in fns:
        h = F.hir(fn)
        if not r5.anchor(h, fn):
            continue
        env = H.Env(h)
        checked = 0
        # the table may live in a private helper of the function (`relationship_set_mut(relationship)`): the helper's body is read with its
        # own environment
        bodies_ = [(h, env)]
        for hf_, root_ in L.with_helpers(F, fn):
            hh_ = F.hir(hf_)
            if hf_ != fn and hh_ is not None and L.private_helper_of(F, hf_, {fn} | set(fns)):
                bodies_.append((hh_, H.Env(hh_)))
        for m, env in [(n, e_) for (hb_, e_) in bodies_ for n in H.walk(H.root(hb_)) if n.get("k") == "match" and n.get("src") == "normal"]:
            vs = []
            for arm in m["arms"]:
                ps = H.pat_str(arm["pat"])
                v = [x for x in VARIANT_FIELD if re.search(r"\b%s\b" % x, ps)]
                # the innermost relationship variant wins over the wrapper VerificationRelationship(...)
                v = [x for x in v if x != "VerificationMethod" or ps.strip() in ("VerificationMethod", "Some(VerificationMethod)")]
                if len(v) != 1:
                    continue
                fields = set()
                for x in H.walk(arm["body"]):
                    if x.get("k") in ("field", "mcall"):
                        fields |= data_field_of(x, env) if x.get("k") == "field" else (data_field_of(x, env) if (H.fn_name(x) or "").startswith(CD + "::") else set())
                fields &= set(GUARDED)
                vs.append((v[0], fields))
            if len(vs) < 5:
                continue
            checked += 1
            names = [H.pat_str(a_["pat"]) for a_ in m["arms"]]
            for v, fields in vs:
                r5.site("%s: %s → %s" % (L.short(fn), v, sorted(fields)), m["sp"])
                strict = fn.rsplit("::", 1)[-1] in ("insert_method", "attach_method_relationship", "detach_method_relationship", "remove_method_and_scope")
                okf = fields == {VARIANT_FIELD[v]} if strict else (VARIANT_FIELD[v] in fields and fields <= {VARIANT_FIELD[v], "verification_method"})
                r5.require(okf, (fn, "variant-field", v), "%s: the %s arm operates on %s, expected %s" % (L.short(fn), v, sorted(fields), VARIANT_FIELD[v]))
            r5.require(set(v for v, _ in vs) >= set(VARIANT_FIELD) - {"VerificationMethod"}, (fn, "coverage"), "%s: a relationship variant has no arm" % L.short(fn))
        if fn != CD + "::remove_method_and_scope":
            r5.require(checked >= 1, (fn, "table"), "%s: no scope/relationship table found" % L.short(fn))
    # remove_method_and_scope: removes from all five relationship sets unconditionally, then from verification_method
    fn = CD + "::remove_method_and_scope"
    h = F.hir(fn)
    if h:
        env = H.Env(h)
        tree = H.Tree(h)
        rem = [n for n in H.walk(H.root(h)) if n.get("k") == "mcall" and n["name"] == "remove" and (H.fn_name(n) or "").startswith(OS + "::")]
        per = {}
        for n in rem:
            fs = data_field_of(n["recv"], env)
            conds = [c for c in tree.path_conditions(n) if c[0] in ("if", "loop", "arm")]
            scope = None
            par = tree.parent.get(id(n))
            # the scope paired with the removed entry
            if par and par[0].get("k") == "mcall" and par[0]["name"] == "map":
                names = [H.variant_name(x.get("res", {})) for x in H.walk(par[0]["args"][0]) if x.get("k") == "path"]
                scope = [x for x in names if x in VARIANT_FIELD]
            for f in fs:
                per[f] = (bool(conds), scope)
        r5.site("remove_method_and_scope removes from %s" % {k: ("conditional" if v[0] else "unconditional", v[1]) for k, v in per.items()}, h["value"]["sp"])
        for f in REL_FIELDS:
            r5.require(f in per and not per[f][0], (fn, "removes-all", f), "remove_method_and_scope does not unconditionally remove the id from data.%s: a reference to a removed method would survive" % f)
            if f in per and per[f][1] is not None:
                want = [k for k, v in VARIANT_FIELD.items() if v == f]
                r5.require(per[f][1] and per[f][1][-1] == want[0], (fn, "scope-pair", f), "the entry removed from data.%s is paired with scope %s" % (f, per[f][1]))
        r5.require("verification_method" in per, (fn, "removes-vm"), "remove_method_and_scope does not remove from verification_method")
        # no early exit between the removals other than returning an embedded hit
        brk = [n for n in H.walk(H.root(h)) if n.get("k") == "break" and not n.get("exp")]
        r5.require(not brk, (fn, "early-break"), "remove_method_and_scope leaves its search loop early: later relationship sets keep their references")
    r5.floor(20)   # inertness is guarded per function by the `table` requirement; the site count varies with how the arms are split into helpers

    # ------------------------------------------------------------------ R8 what attach / remove act on, on their decision tables
    r8 = R.rule("C04-R8", "T2+T3", "attach_method_relationship appends Refer(id of the method found among the general-purpose methods by this very query) and refuses "
                "otherwise; remove_method sweeps the id out of all five relationship sets on every path, whether or not a method with that id exists")
    fn = CD + "::attach_method_relationship"
    if r8.anchor(F.hir(fn), fn):
        tab = SR.Table(F, fn, opaque=r"CoreDocument::resolve_method$|OrderedSet::append$", rule=r8)
        Q = SR.param(SY.param_name(F, fn, 1, "method_query"))
        SCOPED = ("ctor", "Some", ("ctor", "VerificationMethod"))
        n_app = 0
        for q in tab.paths:
            rms = q.calls(r"CoreDocument::resolve_method$")
            scoped = [e for e in rms if len(e.args) == 3 and SY.term(e.args[2]) == SCOPED and SR.pure(e.args[1], Q, conv=re.compile(r"(clone|into|from|as_ref|borrow)$"))]
            unscoped = [e for e in rms if len(e.args) == 3 and SY.term(e.args[2]) == ("ctor", "None")]
            apps = q.calls(r"OrderedSet::append$")
            ok = SR.is_success(q.ret) and not SR.is_failure(q.ret)
            if apps:
                n_app += 1
                good = len(apps) == 1 and len(scoped) >= 1 and q.variant.get(scoped[0].result.t) == "Some"
                if good:
                    want = ("ctor", "Refer", ("field", ("payload", scoped[0].result.t, "Some", 0), "id"))
                    a1 = SY.term(apps[0].args[1])
                    good = a1 == want or (a1[:2] == ("ctor", "Refer") and SR.pure(a1[2], want[2], conv=re.compile(r"(clone|to_owned|as_ref|borrow|VerificationMethod::id)$")))
                r8.require(good, (fn, "attached-method"), "attach_method_relationship appends something other than Refer(id of the general-purpose method this query resolves to — "
                           "resolve_method(query, Some(VerificationMethod)) ✓): with two methods sharing a fragment a fragment-only query can alias an embedded method — path: %s" % q.describe()[:160])
                r8.require(ok, (fn, "attached-method", "outcome"), "attach_method_relationship appends and then fails")
                rel_v = next((v_ for t_, v_ in q.variant.items() if t_ == SR.param(SY.param_name(F, fn, 2, "relationship")) and v_ in VARIANT_FIELD), None)
                tgt = SY.term(apps[0].args[0])
                r8.require(rel_v is not None and tgt == ("field", ("field", SR.SELF, "data"), VARIANT_FIELD[rel_v]), (fn, "attached-set"),
                           "attach_method_relationship(.., %s) appends to %s, not to data.%s" % (rel_v, SY.fmt(tgt)[:60], VARIANT_FIELD.get(rel_v)))
            else:
                r8.require(not ok, (fn, "ok-without-append"), "attach_method_relationship succeeds without attaching anything")
                r8.require(bool(scoped) and all(q.variant.get(e.result.t) == "None" for e in scoped), (fn, "refusal"), "attach_method_relationship refuses although the query resolves to a general-purpose method (or without asking)")
        r8.site("attach_method_relationship: %d appending path(s), each Refer(id of resolve_method(query, Some(VerificationMethod)) ✓)" % n_app)
        r8.require(n_app == 5 or not tab.paths, (fn, "rows"), "attach_method_relationship: expected one appending row per relationship, found %d" % n_app)
    fn = CD + "::remove_method_and_scope"
    if r8.anchor(F.hir(fn), fn):
        tab = SR.Table(F, fn, opaque=r"OrderedSet::(remove|retain|query|contains)$|Queryable.*::query$|CoreDocument::resolve_method$", rule=r8, max_paths=6000)
        DU_ = SR.param(SY.param_name(F, fn, 1, "did_url"))
        bad = 0
        for q in tab.paths:
            swept = set()
            for e in q.calls(r"OrderedSet::(remove|retain)$"):
                t0 = SY.term(e.args[0])
                for f_ in REL_FIELDS:
                    if t0 == ("field", ("field", SR.SELF, "data"), f_) and (len(e.args) < 2 or SR.pure(e.args[1], DU_, conv=re.compile(r"(as_ref|borrow|clone|into|from)$")) or isinstance(e.args[1], SY.Clo)):
                        swept.add(f_)
            if swept != set(REL_FIELDS):
                bad += 1
                if bad <= 2:
                    r8.fail((fn, "sweeps-all-paths"), "remove_method_and_scope has a path that does not remove the id from %s (a reference to a method the document does not contain would survive, "
                            "and a later insert_method with that id is refused) — path: %s" % (sorted(set(REL_FIELDS) - swept), q.describe()[:160]))
        r8.site("remove_method_and_scope: all five relationship sets swept on each of %d path(s): %s" % (len(tab.paths), bad == 0))
    r8.floor(2)

    # ------------------------------------------------------------------ R6 serde round-trip wiring
    r6 = R.rule("C04-R6", "T12", "what serialisation omits deserialisation restores: skip_serializing_if fields are Option or defaulted; MethodRef is untagged with Embed before Refer")
    for ty in (CDD, "identity_verification::verification_method::method::VerificationMethod", "identity_verification::verification_method::method::_VerificationMethod", "identity_document::service::service::Service"):
        a = F.ast_item(ty)
        if a is None:
            continue
        for f in a.get("fields", []):
            attrs = " ".join(f["attrs"])
            if "skip_serializing_if" in attrs:
                ok = f["ty"].replace(" ", "").startswith("Option<") or "default" in attrs
                r6.site("%s.%s [%s]" % (L.short(ty), f["name"], attrs[:70]), f["span"])
                r6.require(ok, (ty, f["name"], "skip-without-default"), "%s.%s is omitted when empty but has no #[serde(default)]: the library's own JSON does not deserialise" % (L.short(ty), f["name"]))
    # the flattened MethodData leaves its own member in the flattened `properties` of a deserialised method: the conversion that
    # finishes deserialisation must take out exactly the member the variant is written under, or the copy differs from the original
    VMF = "<identity_verification::verification_method::method::VerificationMethod as core::convert::From<identity_verification::verification_method::method::_VerificationMethod>>::from"
    MD = "identity_verification::verification_method::material::MethodData"
    amd = F.ast_item(MD)
    if r6.anchor(F.hir(VMF), VMF) and r6.anchor(amd, MD):
        camel = any(re.search(r'rename_all\s*=\s*"camelCase"', x) for x in amd["attrs"])
        r6.require(camel, (MD, "serde-names"), "MethodData is no longer written with rename_all = \"camelCase\"")
        want_ = {}
        for v_ in amd["variants"]:
            va_ = " ".join(v_.get("attrs") or [])
            m_ = re.search(r'rename\s*=\s*"([^"]+)"', va_)
            want_[v_["name"]] = None if "untagged" in va_ else (m_.group(1) if m_ else v_["name"][:1].lower() + v_["name"][1:])
        tabv = SR.Table(F, VMF, opaque=r"::remove$|::shift_remove$|::swap_remove$|::retain$", rule=r6)
        seen_ = {}
        for q in tabv.paths:
            vs_ = [c for (a_, c, _, _) in q.decisions if a_[0] == "variant" and a_[1] == ("field", ("param", "value"), "data") and c != "*"]
            rm_ = q.calls(r"remove$")
            out_ = q.ret if isinstance(q.ret, SY.St) else None
            if not r6.require(len(vs_) == 1 and len(rm_) == 1 and out_ is not None, (VMF, "dedup"), "expected one decided MethodData variant and one removal from `properties` per path: %s" % q.describe()[:160]):
                continue
            v_ = vs_[0]
            key_ = SY.term(rm_[0].args[1])
            if want_.get(v_) is not None:
                ok_ = key_ == ("lit", want_[v_])
            else:
                ok_ = any(isinstance(z_, tuple) and z_[:1] == ("payload",) and z_[2] == v_ for z_ in SY.subterms(key_)) and SR.derives(key_, ("field", ("param", "value"), "data"))
            r6.require(ok_ and SR.pure(rm_[0].args[0], ("field", ("param", "value"), "properties")), (VMF, "dedup", v_), "a deserialised %s method drops the member %s from its properties, but the variant is written as %s: the duplicate stays and the copy is not equal to the original" % (
                v_, SY.fmt(key_), want_.get(v_) or "its own name"))
            for k_ in ("id", "controller", "type_", "data"):
                r6.require(SR.pure(out_.f.get(k_), ("field", ("param", "value"), k_)), (VMF, "passthrough", k_), "the %s of a deserialised method is not the one that was read" % k_)
            seen_[v_] = SY.fmt(key_)
        r6.site("VerificationMethod ← _VerificationMethod removes per variant: %s" % seen_)
        r6.require(not tabv.paths or set(seen_) == set(want_), (VMF, "dedup", "coverage"), "variants of MethodData without a de-duplication row: %s" % sorted(set(want_) - set(seen_)))
    a = F.ast_item(MREF)
    if r6.anchor(a, MREF):
        names = [v["name"] for v in a["variants"]]
        r6.site("MethodRef variants %s attrs %s" % (names, [x for x in a["attrs"] if "serde" in x]))
        r6.require(any("untagged" in x for x in a["attrs"]), (MREF, "untagged"), "MethodRef is not #[serde(untagged)]")
        r6.require(names == ["Embed", "Refer"], (MREF, "variant-order"), "MethodRef variants must be tried as Embed then Refer: %s" % names)
    r6.floor(11)

    # ------------------------------------------------------------------ R7 resolution semantics
    r7 = R.rule("C04-R7", "T4+T3", "resolve_method(query, scope): scoped → that collection only; unscoped → first hit in the five relationship sets (in order), else the general-purpose "
                "methods; an embedded hit is returned itself, a reference hit resolves to the general-purpose method with the *referenced* id")
    for fname, qpat in (("resolve_method", r"Queryable.*::query$"), ("resolve_method_mut", r"Queryable.*::query_mut$")):
        fn = CD + "::" + fname
        if not r7.anchor(F.hir(fn), fn):
            continue
        tab = SR.Table(F, fn, opaque=r"Queryable.*::query(_mut)?$", rule=r7, max_paths=4000)
        Q0 = SR.param(SY.param_name(F, fn, 1, "query"))      # the query parameter, by the name the evaluator gives it
        n_ref = n_emb = n_gp = 0
        order_seen = set()
        for q in tab.paths:
            scope = SR.variant(q, SR.param("scope"))
            qs = [e for e in q.events if e.kind == "call" and re.search(r"Queryable.*::query(_mut)?$", e.fn or "")]
            colls = []
            for e in qs:
                t0 = SY.term(e.args[0])
                c_ = [u[2] for u in SY.subterms(t0) if isinstance(u, tuple) and u[:1] == ("field",) and u[2] in GUARDED]
                colls.append(c_[0] if c_ else "?")
            hit = None
            for e, c_ in zip(qs, colls):
                if c_ in REL_FIELDS:
                    r7.require(SR.pure(e.args[1], Q0, conv=re.compile(r"(clone|into|from|as_ref|borrow)$")), (fn, "query-arg", c_), "%s is not queried with the caller's query" % c_)
                    if q.succeeded(e) is True:
                        hit = (e, c_)
                        break
            if scope == "None" or scope is None:
                probed = [c_ for c_ in colls if c_ in REL_FIELDS]
                order_seen.add(tuple(probed))
                r7.require(probed == REL_FIELDS[:len(probed)], (fn, "order"), "relationship sets are not probed in the order %s: %s" % (REL_FIELDS, probed))
            if hit is None:
                if (scope == "None" or scope is None) and len([c_ for c_ in colls if c_ in REL_FIELDS]) == 5:
                    gp = [e for e, c_ in zip(qs, colls) if c_ == "verification_method"]
                    if r7.require(len(gp) == 1 and SR.pure(gp[0].args[1], Q0, conv=re.compile(r"(clone|into|from|as_ref|borrow)$")) and SR.derives(q.ret, gp[0].result.t), (fn, "fallback"),
                                  "with no relationship hit the result is not verification_method.query(query)"):
                        n_gp += 1
                continue
            e, c_ = hit
            entry = ("payload", e.result.t, q.variant.get(e.result.t) or "Some", 0)   # `?` on an opaque Option may be recorded as Ok/Err
            kind = q.variant.get(entry)
            if kind == "Embed":
                n_emb += 1
                r7.require(SR.derives(q.ret, ("payload", entry, "Embed", 0)), (fn, "embedded"), "an embedded hit in %s is not returned itself" % c_)
            else:
                gp = [x for x, cc in zip(qs, colls) if cc == "verification_method" and qs.index(x) > qs.index(e)]
                refid = ("payload", entry, "Refer", 0)
                cv = re.compile(r"(clone|into|from|as_ref|borrow|to_string|as_str|to_owned|deref)$")
                ok = len(gp) == 1 and SR.pure(gp[0].args[1], refid, conv=cv) and not SR.pure(gp[0].args[1], Q0, conv=cv) and SR.derives(q.ret, gp[0].result.t)
                if r7.require(ok, (fn, "reference-resolution"), "a reference hit in %s is not resolved to verification_method.query(<the referenced id>): %s" % (
                        c_, [SY.fmt(SY.term(x.args[1]))[:80] for x in gp])):
                    n_ref += 1
        r7.site("%s: %d embedded-hit, %d reference-hit and %d fallback path(s) checked" % (fname, n_emb, n_ref, n_gp))
        r7.require((n_emb >= 5 and n_ref >= 5 and n_gp >= 1) or not tab.paths, (fn, "coverage"), "resolution does not cover the five relationship sets (embedded %d, reference %d, fallback %d)" % (n_emb, n_ref, n_gp))
    # every conversion into a DIDUrlQuery keeps the whole value (a query built from a DIDUrl that lost its DID would match any
    # entry with the same fragment, whatever its DID)
    WHOLE = re.compile(r"(to_string|to_owned|as_str|as_ref|deref|borrow|into|from|clone|Borrowed|Owned)$")
    convs = F.find(r"^<identity_document::utils::did_url_query::DIDUrlQuery as core::convert::From<.*>>::from$")
    okc = len(convs) >= 4
    for cf in convs:
        tabc = SR.Table(F, cf, opaque=r"to_string$|ToString::to_string$", rule=r7)
        pn = SY.param_name(F, cf, 0, "other")
        for q in tabc.paths:
            v = q.ret
            inner = v.f.get("0") if isinstance(v, SY.St) else (v.fields[0] if isinstance(v, SY.V) and v.fields else v)
            if isinstance(inner, SY.V) and inner.fields:
                inner = inner.fields[0]
            good = inner is not None and SR.pure(inner, SR.param(pn), conv=WHOLE)
            if not r7.require(good, (cf, "whole-value"), "%s builds the query from %s, not from the whole value it was given" % (L.short(cf), SY.fmt(SY.term(inner)) if inner is not None else "?")):
                okc = False
    r7.site("DIDUrlQuery: %d From conversions, each wrapping the whole value: %s" % (len(convs), okc))
    r7.require(len(convs) >= 4, ("DIDUrlQuery", "conversions"), "expected the From<&str|&String|DIDUrl|&DIDUrl|&RelativeDIDUrl> conversions of DIDUrlQuery")
    L.depends_on(r7, F, tier, ["C19-R2"], "first-match resolution returns the entry the model predicts only while the sets keep insertion order under every operation (a removal that moves the last entry into the hole changes which of two entries sharing a fragment is first)")
    r7.floor(3)
