"""C12 — StatusList2021 behaves as an independent-bit vector with one-way revocation."""
import re

import hir as H
import mir as M
import rulelib as L
import symrules as SR
import sym

CRATES = ["identity_credential"]
SL = "identity_credential::revocation::status_list_2021::status_list::StatusList2021"
CR = "identity_credential::revocation::status_list_2021::credential"
UTILS = "identity_credential::validator::jwt_credential_validation::jwt_credential_validator_utils"


def _mask_sites(F, body, kind_ops):
    """Assignments `byte = BitOr/BitAnd(byte, mask)` into the indexed store; returns [(bidx, op, byte_index_expr, mask_expr)]"""
    eb = M.ExprBuilder(F)
    out = []
    for bi, b in enumerate(body.blocks):
        if b["cleanup"]:
            continue
        for s in b["s"]:
            if s["k"] != "assign" or s["rv"]["k"] != "binop" or s["rv"]["op"] not in kind_ops:
                continue
            dst = s["dst"]
            idx = [e for e in M.place_proj(dst) if isinstance(e, dict) and "idx" in e]
            if not idx:
                continue
            rv = s["rv"]
            # one operand is the same place, the other is the mask
            ops = [rv["a"], rv["b"]]
            mask_op = None
            for o in ops:
                if M.op_place(o) != dst:
                    mask_op = o
            if mask_op is None:
                continue
            out.append((bi, rv["op"], eb.local(body, idx[0]["idx"], None, 0, frozenset()), eb.operand(body, mask_op, None, 0, frozenset())))
    return out



def _one_way_sym(F, r5, fn):
    """By abstract evaluation (helpers inlined): no path on which `purpose == Revocation ∧ ¬value ∧ current bit set` is still possible
    reaches StatusList2021::set; the current bit is read before the write, at the same index."""
    tab = SR.Table(F, fn, opaque=r"StatusList2021::(get|set)$", rule=r5, max_paths=4000)
    n = 0
    atoms = set()
    for q in tab.paths:
        sets = [(i, e) for i, e in enumerate(q.events) if e.kind == "call" and (e.fn or "").endswith("StatusList2021::set")]
        if not sets:
            if SR.is_success(q.ret):
                r5.fail((fn, "ok-without-set"), "%s returns Ok without calling StatusList2021::set" % short_(fn))
            continue
        n += 1
        si, se = sets[0]
        gets = [(i, e) for i, e in enumerate(q.events) if e.kind == "call" and (e.fn or "").endswith("StatusList2021::get") and q.succeeded(e) is True and i < si]
        purpose = None
        for t_, v_ in q.variant.items():
            if isinstance(v_, str) and v_ in ("Revocation", "Suspension") and SR.derives(t_, SR.SELF):
                purpose = v_
                atoms.add("purpose")
        val = q.val.get(("truth", SR.param("value")))
        if val is not None:
            atoms.add("value")
        cur = None
        for gi, ge in gets:
            tv = q.val.get(("truth", ("payload", ge.result.t, "Ok", 0)))
            if tv is not None and sym.term(ge.args[1]) == sym.term(se.args[1]):
                cur = tv
                atoms.add("current")
        excluded = purpose == "Suspension" or val is True or cur is False
        r5.require(excluded, (fn, "clear-revoked-reaches", "StatusList2021::set"),
                   "a call clearing (value=false) a set entry of a Revocation list can reach StatusList2021::set: on a path to the write, purpose=%s, value=%s, current entry=%s (the current bit must be read before the write, at the same index)" % (
                       purpose or "not examined", val if val is not None else "not examined", cur if cur is not None else "not read before the write"))
        r5.require(sym.term(se.args[1]) == SR.param("index") and sym.term(se.args[2]) == SR.param("value"), (fn, "set-args"), "StatusList2021::set is not called with (index, value)")
    r5.site("%s: %d path(s) reach StatusList2021::set; each excludes (Revocation ∧ ¬value ∧ current)" % (short_(fn), n))
    r5.require({"purpose", "value", "current"} <= atoms or not tab.paths, (fn, "atoms"), "the purpose/value/current-entry tests were not all found as branches (found %s)" % sorted(atoms))


def short_(fn):
    return "::".join(fn.split("::")[-2:])


def run(F, R, tier):
    R.undecided += [
        "gzip/base64 round trip on concrete lists (flate2, multibase internals)",
        "minimum list size is not enforced on decoded lists (not part of the stated property)",
    ]
    eb = M.ExprBuilder(F)

    # ---------------------------------------------------------------- R1 masks, R3 geometry (T14, T7)
    r1 = R.rule("C12-R1", "T14", "set_unchecked / get_unchecked evaluated concretely: writing a value to entry i turns exactly bit i of the store into that value and leaves every other bit as it was; reading entry i gives bit i — for every bit offset, both values, and byte contents covering every bit pattern around the addressed bit")
    r3 = R.rule("C12-R3", "T7", "geometry: entry i lives in byte i / 8 at mask 0x80 >> (i % 8) (most significant bit first) for set and get alike; len = bytes * 8")
    sfn, gfn, lfn = SL + "::set_unchecked", SL + "::get_unchecked", SL + "::len"
    if r1.anchor(F.hir(sfn), sfn) and r1.anchor(F.hir(gfn), gfn):
        ev1 = sym.Evaluator(F, inline_depth=4, concrete_vec=True)
        byte_values = list(range(256)) if tier != "quick" else [0x00, 0xFF, 0xA5, 0x5A, 0x80, 0x01, 0x7F, 0xFE, 0x10, 0xEF, 0x33, 0xCC]
        NB = 3

        def run(fn_, store, *rest):
            st = sym.St(SL, {"0": list(store)})
            try:
                ps = [q for q in ev1.explore(fn_, args=lambda: [st] + list(rest), max_paths=20)]
            except (sym.Abort, sym.TooManyPaths) as e:
                return None, None, str(e)
            if len(ps) != 1 or not ps[0].complete:
                return None, None, "%d path(s)%s" % (len(ps), "" if not ps or ps[0].complete else ": " + str(ps[0].note))
            return ps[0], st.f["0"], None
        n_set = n_get = 0
        stop = False
        for bv in byte_values:
            for i in range(8 * NB):
                base = [bv ^ (0x3C * k_ & 0xFF) for k_ in range(NB)]          # different contents in the neighbouring bytes
                want_bit = 0x80 >> (i % 8)
                # read
                q, _, why = run(gfn, base, i)
                if q is None:
                    r1.fail(("get_unchecked", "shape"), "get_unchecked could not be evaluated on a concrete store: %s" % why)
                    stop = True
                    break
                n_get += 1
                got = q.ret
                if got is not bool(base[i // 8] & want_bit):
                    r1.fail(("get_unchecked", "mask"), "get_unchecked(%d) on the store %s reads %s; bit %d (byte %d, mask 0x%02x) is %s" % (
                        i, ["0x%02x" % x for x in base], got, i, i // 8, want_bit, bool(base[i // 8] & want_bit)))
                    r3.fail(("byte-index", "get"), "get_unchecked does not read byte index / 8 at mask 0x80 >> (index %% 8)")
                    stop = True
                    break
                for val in (True, False):
                    q, after, why = run(sfn, base, i, val)
                    if q is None:
                        r1.fail(("set_unchecked", "unexpected-store", "not-evaluable"), "set_unchecked could not be evaluated on a concrete store: %s" % why)
                        stop = True
                        break
                    n_set += 1
                    want = list(base)
                    want[i // 8] = (want[i // 8] | want_bit) if val else (want[i // 8] & (0xFF ^ want_bit))
                    if [x if isinstance(x, int) else None for x in after] != want:
                        others = any(after[k_] != base[k_] for k_ in range(NB) if k_ != i // 8)
                        key = ("set_unchecked", "clear-mask") if not val else ("set_unchecked", "mask")
                        r1.fail(key, "set_unchecked(%d, %s) turns the store %s into %s; expected %s (only bit %d %s)" % (
                            i, val, ["0x%02x" % x for x in base], [("0x%02x" % x) if isinstance(x, int) else str(x) for x in after], ["0x%02x" % x for x in want], i, "set" if val else "cleared"))
                        if others or not isinstance(after[i // 8], int) or (after[i // 8] ^ base[i // 8]) & ~want_bit & 0xFF == 0:
                            r3.fail(("byte-index", "set" if val else "clear"), "set_unchecked does not address byte index / 8 at mask 0x80 >> (index %% 8)") if others else None
                        stop = True
                        break
                if stop:
                    break
            if stop:
                break
        r1.site("set_unchecked: %d concrete writes (every bit offset, both values, %d byte patterns, %d-byte store) each change exactly the addressed bit" % (n_set, len(byte_values), NB))
        r1.site("get_unchecked: %d concrete reads agree with the bit at byte index/8, mask 0x80 >> index%%8" % n_get)
        r3.site("byte index = index / 8, mask = 0x80 >> (index %% 8): implied by the %d reads and %d writes over a %d-byte store" % (n_get, n_set, NB))
        r1.require(stop or (n_set >= 2 * 8 * NB * len(byte_values) and n_get >= 8 * NB * len(byte_values)), ("set_unchecked", "coverage"), "only %d writes / %d reads were evaluated" % (n_set, n_get))
        r1.floor(2)
    if r3.anchor(F.hir(lfn), lfn):
        okl = True
        for nb in (0, 1, 2, 5, 16384):
            st = sym.St(SL, {"0": [0] * nb})
            try:
                ps = [q for q in sym.Evaluator(F, inline_depth=3, concrete_vec=True).explore(lfn, args=lambda st=st: [st], max_paths=5)]
            except (sym.Abort, sym.TooManyPaths) as e:
                ps = []
            if len(ps) != 1 or ps[0].ret != nb * 8:
                okl = False
                r3.fail(("len",), "len() of a %d-byte store is %s, not %d" % (nb, ps[0].ret if ps else None, nb * 8))
                break
        r3.site("len = bytes * 8 (stores of 0, 1, 2, 5, 16384 bytes): %s" % okl)
    r3.floor(2)

    # ---------------------------------------------------------------- R2 precondition of *_unchecked (T2)
    r2 = R.rule("C12-R2", "T2", "every call of get_unchecked/set_unchecked is control-dependent on `index < self.len()`")
    for target in ("get_unchecked", "set_unchecked"):
        for (p, bi, t) in F.callers(SL + "::" + target):
            body = F.mir(p, follow_async=False)
            ok, why = _guarded_by_len(F, body, bi, t)
            r2.site("call %s in %s" % (target, p.rsplit("::", 2)[-1] if "closure" not in p else p), t["sp"], guarded=ok)
            if not ok:
                r2.fail((p, target, "unguarded"), "`%s` is called without being control-dependent on `index < self.len()` (%s): an out-of-range index reaches the unchecked access" % (target, why), t["sp"])
    r2.floor(2)

    # ---------------------------------------------------------------- R4 encoding pair (T7)
    r4 = R.rule("C12-R4", "T7", "encode and decode use the same base (Base64) and gzip both ways")
    enc = F.mir(SL + "::into_encoded_str")
    dec = F.mir(SL + "::try_from_encoded_str")
    if r4.anchor(enc, "into_encoded_str") and r4.anchor(dec, "try_from_encoded_str"):
        def base_variant(body, fn_re):
            out = set()
            for bi, t in body.calls(re.compile(fn_re)):
                for a in t["args"]:
                    l = M.op_local(a)
                    if l is None:
                        continue
                    for d in body.defs().get(l, []):
                        if d[0] == "stmt" and d[3]["rv"]["k"] == "agg" and d[3]["rv"].get("adt", "").endswith("::Base"):
                            out.add(d[3]["rv"]["variant"])
            return out
        be = base_variant(enc, r"BaseEncoding::encode$")
        bd = base_variant(dec, r"BaseEncoding::decode$")
        r4.site("encode base %s" % sorted(be), enc.rec["span"])
        r4.site("decode base %s" % sorted(bd), dec.rec["span"])
        r4.require(be == bd and len(be) == 1, ("base",), "encoder uses %s, decoder uses %s" % (sorted(be), sorted(bd)))
        gz_e = enc.calls(re.compile(r"GzEncoder(<.*>)?::new$"))
        gz_d = dec.calls(re.compile(r"GzDecoder(<.*>)?::new$"))
        r4.require(bool(gz_e) and bool(gz_d), ("gzip",), "gzip encoder/decoder pair not found (enc=%d dec=%d)" % (len(gz_e), len(gz_d)))
        r4.site("gzip pair", None, enc=len(gz_e), dec=len(gz_d))
        # the whole store is compressed: write_all, or a write whose count is inspected; finish() result is used
        wa = enc.calls(re.compile(r"(^std::io::Write::write_all$|as std::io::Write>::write_all$)"))
        sw = L.short_write_sites(enc)
        r4.site("compressor fed by write_all ×%d, unchecked short writes ×%d" % (len(wa), len(sw)), enc.rec["span"])
        for bi, t in sw:
            r4.fail((SL + "::into_encoded_str", "short-write"), "`Write::write` may consume only part of the list and its byte count is never inspected: the encoded list can be truncated (use write_all)", t["sp"])
        r4.require(bool(wa) or bool(enc.calls(L.IO_WRITE)), (SL + "::into_encoded_str", "no-write"), "the store is never written into the compressor")
        fin = enc.calls(re.compile(r"GzEncoder(<.*>)?::finish$"))
        r4.require(bool(fin), (SL + "::into_encoded_str", "finish"), "GzEncoder::finish is not called: the gzip trailer would be missing")
        # decoder reads to the end
        rte = dec.calls(re.compile(r"Read(>)?::read_to_end$"))
        r4.require(bool(rte), (SL + "::try_from_encoded_str", "read_to_end"), "the decoder does not read the decompressed stream to its end")
        r4.site("decoder read_to_end ×%d, finish ×%d" % (len(rte), len(fin)))
    r4.floor(5)

    # ---------------------------------------------------------------- R5 one-way revocation (T2, T6, T1)
    r5 = R.rule("C12-R5", "T2", "revocation entries cannot be cleared: `purpose==Revocation && !value && current` never reaches StatusList2021::set or Ok")
    for fn in (CR + "::StatusList2021Credential::set_entry", CR + "::MutStatusList::set_entry"):
        if not r5.anchor(F.hir(fn), fn):
            continue
        _one_way_sym(F, r5, fn)
    # set_credential_status(credential, index, value): every accepting path applied set_entry(index, value) ✓ — both values, so that
    # a suspension can be lifted through it and the purpose check of set_entry is the only gate
    scs = CR + "::StatusList2021Credential::set_credential_status"
    if r5.anchor(F.hir(scs), scs):
        tabs = SR.Table(F, scs, opaque=r"StatusList2021Credential::set_entry$|StatusList2021Entry::new$", rule=r5)
        IDX = SR.param(sym.param_name(F, scs, 2, "index"))
        VAL = SR.param(sym.param_name(F, scs, 3, "revoked_or_suspended"))

        def applied(q):
            return any(q.succeeded(e) is True and len(e.args) == 3 and SR.pure(e.args[0], SR.SELF) and SR.pure(e.args[1], IDX) and SR.pure(e.args[2], VAL)
                       for e in q.calls(r"StatusList2021Credential::set_entry$"))
        SR.require_on_success(r5, tabs, "set_entry(index, value) ✓", applied, key=(scs, "missing-before-success", "set_entry"),
                              what="self.set_entry(index, revoked_or_suspended)? succeeded with both arguments passed on unchanged")
        r5.site("set_credential_status: %d accepting / %d rejecting path(s)" % (len(tabs.ok()), len(tabs.err())))
    # who may call StatusList2021::set / write encoded_list
    allowed_set = {CR + "::StatusList2021Credential::set_entry", CR + "::MutStatusList::set_entry"}
    for (p, bi, t) in F.callers(SL + "::set"):
        r5.site("caller of StatusList2021::set: %s" % p, t["sp"])
        r5.require(p in allowed_set, (p, "calls-set"), "StatusList2021::set is called from %s, outside the two purpose-checked set_entry functions" % p, t["sp"])
    subj = CR + "::StatusList2021CredentialSubject"
    allowed_w = {CR + "::StatusList2021Credential::set_entry": "after set ok", CR + "::StatusList2021Credential::update": "after update_fn ok"}
    for (p, bi, kind, d) in F.field_writes(subj, "encoded_list"):
        r5.site("write of encoded_list (%s) in %s" % (kind, p))
        if not r5.require(p in allowed_w, (p, "writes-encoded_list"), "field encoded_list is written in %s, outside set_entry/update" % p):
            continue
        body = F.mir(p)
        if p.endswith("::set_entry"):
            ok, n, ne = body.must_pass_success(SL + "::set", [bi])
            r5.require(ok, (p, "encoded_list-before-set-ok"), "encoded_list is written on a path that has not passed `status_list.set(..)` successfully")
        else:
            # update: after the user closure returned Ok
            calls = [(cb, ct) for cb, ct in body.calls() if "indirect" in ct or re.search(r"FnOnce(<.*>)?::call_once$", ct.get("fn") or "")]
            removed = set()
            for cb, ct in calls:
                s, _f = body.outcome_edges(cb)
                removed |= s
            reach = body.reachable(0, removed_edges=removed)
            r5.require(bool(removed) and bi not in reach, (p, "encoded_list-before-update-ok"), "encoded_list is written on a path where update_fn did not succeed")
    # MutStatusList.status_list can only be mutated through MutStatusList::set_entry
    for (p, bi, kind, d) in F.field_writes(CR + "::MutStatusList", "status_list"):
        r5.site("mutable access to MutStatusList.status_list (%s) in %s" % (kind, p))
        r5.require(p == CR + "::MutStatusList::set_entry", (p, "mut-status_list"), "MutStatusList.status_list is mutated in %s" % p)
    msl = F.adt(CR + "::MutStatusList")
    if r5.anchor(msl, "MutStatusList"):
        for f in msl["variants"][0]["fields"]:
            r5.require(f["vis"] != "pub", ("MutStatusList", f["name"], "pub"), "field MutStatusList.%s is public: the purpose check can be bypassed" % f["name"])
    r5.floor(8)

    # ---------------------------------------------------------------- R6 status evaluation (T4)
    r6 = R.rule("C12-R6", "T4", "entry(): (Revocation,set)->Revoked, (Suspension,set)->Suspended, else Valid")
    efn = CR + "::StatusList2021Credential::entry"
    if r6.anchor(F.hir(efn), "StatusList2021Credential::entry"):
        tab = SR.Table(F, efn, opaque=r"StatusList2021::get$|try_from_encoded_str$|StatusList2021 as core::convert::TryFrom", rule=r6)
        rows = set()
        for q in tab.ok():
            gets = [e for e in q.calls(r"StatusList2021::get$") if q.succeeded(e) is True and sym.term(e.args[1]) == SR.param("index")]
            if not r6.require(len(gets) == 1, ("entry", "scrut1"), "entry() does not read status_list.get(index)? on an accepting path"):
                continue
            bit_t = ("payload", gets[0].result.t, "Ok", 0)
            bit = q.val.get(("truth", bit_t))
            if bit is None:
                for (a, c, _, _) in q.decisions:
                    if a[0] == "eq" and bit_t in (a[1], a[2]) and ("lit", True) in (a[1], a[2]):
                        bit = c
                    if a[0] == "eq" and bit_t in (a[1], a[2]) and ("lit", False) in (a[1], a[2]):
                        bit = not c
            purpose = None
            for t_, v_ in q.variant.items():
                if v_ in ("Revocation", "Suspension") and SR.derives(t_, SR.SELF):
                    purpose = v_
            out = q.ret.fields[0] if isinstance(q.ret, sym.V) and q.ret.fields else None
            rows.add((purpose, bit, out.name if isinstance(out, sym.V) else repr(out)))
        for row in sorted(rows, key=str):
            r6.site("entry(): purpose %s, bit %s → %s" % row)
        for (pu, b, o) in rows:
            want = "Revoked" if (pu == "Revocation" and b is True) else ("Suspended" if (pu == "Suspension" and b is True) else ("Valid" if b is False else None))
            r6.require(want is not None and o == want, ("entry", "(%s, %s)" % (pu, b)), "entry(): purpose %s with bit %s yields %s, expected %s" % (pu, b, o, want))
        r6.require({(pu, b) for pu, b, _ in rows if b is True} == {("Revocation", True), ("Suspension", True)} and any(b is False for _, b, _ in rows) or not tab.paths, ("entry", "default"),
                   "entry() does not distinguish (Revocation, set), (Suspension, set) and unset: %s" % sorted(rows, key=str))
    r6.floor(3)
    _check_status(F, R)


def _guarded_by_len(F, body, call_bi, t):
    """Is block call_bi reachable only through the true edge of `index < self.len()`?"""
    if body is None:
        return False, "no body"
    # closure passed to bool::then on the comparison result
    if "{closure#" in body.path:
        parent = body.path.rsplit("::{closure#", 1)[0]
        pb = F.mir(parent, follow_async=False)
        if pb is None:
            return False, "closure parent not found"
        for cb, ct in pb.calls(re.compile(r"^bool::then$|core::bool::<impl bool>::then$")):
            # second arg is this closure; first arg is the comparison
            a1 = M.op_local(ct["args"][1]) if len(ct["args"]) > 1 else None
            ok_closure = False
            if a1 is not None:
                for d in pb.defs().get(a1, []):
                    if d[0] == "stmt" and d[3]["rv"]["k"] == "agg" and d[3]["rv"].get("def") == body.path:
                        ok_closure = True
            if not ok_closure:
                continue
            root, neg = M.resolve_value(pb, M.op_local(ct["args"][0]))
            if _is_index_lt_len(pb, root, neg):
                return True, "closure under bool::then(index < len)"
        return False, "closure is not the argument of `(index < self.len()).then(..)`"
    atoms = M.switch_atoms(body, lambda root, b: ("lt", False) if _is_index_lt_len(b, root, False) else (("lt", True) if _is_index_lt_len(b, root, True) else None))
    if not atoms:
        return False, "no branch on `index < self.len()` in the caller"
    vals = M.path_valuations(body, atoms, [call_bi])[call_bi]
    if not vals:
        return False, "call unreachable?"
    if all(("lt", True) in v for v in vals):
        # index argument of the call must be the compared index
        return True, "all paths pass the true edge"
    return False, "a path reaches the call without passing the true edge of the bounds test"


def _is_index_lt_len(body, root, neg):
    """root is the comparison `index < self.len()` (neg=False) or its negation `index >= len` (neg=True)"""
    if root[0] != "binop":
        return False
    rv = root[1]["rv"]
    op = rv["op"]
    if op not in M.CMP_OPS:
        return False

    def kind(o):
        l = M.op_local(o)
        if l is None:
            return None
        locs, calls, _ = body.backward_slice([l])
        if any((c.get("fn") or "").endswith("StatusList2021::len") for _, c in calls):
            return "len"
        if any(body.local_name(x) == "index" and x <= body.arg_count for x in locs) and not calls:
            return "index"
        return None
    ka, kb = kind(rv["a"]), kind(rv["b"])
    rel = None
    if ka == "index" and kb == "len":
        rel = op
    elif ka == "len" and kb == "index":
        rel = {"Lt": "Gt", "Gt": "Lt", "Le": "Ge", "Ge": "Le", "Eq": "Eq", "Ne": "Ne"}[op]
    if rel is None:
        return False
    if not neg:
        return rel == "Lt"
    return rel == "Ge"


def _one_way(F, r5, body, fn):
    def classify(root, b):
        if root[0] == "call":
            t = root[1]
            nm = M.callee(t)
            m = re.search(r"<.*StatusPurpose as core::cmp::PartialEq(<.*>)?>::(eq|ne)$", nm)
            if m:
                # which constant is compared
                variants = set()
                for a in t["args"]:
                    l = M.op_local(a)
                    locs, _, _ = b.backward_slice([l])
                    for x in locs:
                        for d in b.defs().get(x, []):
                            if d[0] == "stmt" and d[3]["rv"]["k"] == "agg" and d[3]["rv"].get("adt", "").endswith("::StatusPurpose"):
                                variants.add(d[3]["rv"]["variant"])
                if variants == {"Revocation"}:
                    return ("is_revocation", m.group(2) == "ne")
                if variants == {"Suspension"}:
                    return ("is_revocation", m.group(2) == "eq")
            return None
        if root[0] == "local" and b.local_name(root[1]) == "value" and root[1] <= b.arg_count:
            return "value"
        if root[0] in ("place", "local"):
            l = M.place_local(root[1]) if root[0] == "place" else root[1]
            locs, calls, _ = b.backward_slice([l])
            if any(M.callee(c) == SL + "::get" for _, c in calls):
                return "current"
        return None

    atoms = M.switch_atoms(body, classify)
    names = {a for a, _ in atoms.values()}
    r5.site("%s: branch atoms %s" % (fn.rsplit("::", 2)[-2] + "::set_entry", sorted(names)), body.rec["span"])
    if not r5.require(names >= {"is_revocation", "value", "current"}, (fn, "atoms"), "the purpose/value/current-entry tests were not all found as branches (found %s)" % sorted(names)):
        return
    set_calls = [bi for bi, _ in body.calls(SL + "::set")]
    r5.require(bool(set_calls), (fn, "no-set"), "no call to StatusList2021::set")
    # `current` must be read at the same index that is written
    for bi, t in body.calls(SL + "::get") + body.calls(SL + "::set"):
        l = M.op_local(t["args"][1])
        locs, calls, _ = body.backward_slice([l])
        r5.require(any(body.local_name(x) == "index" and x <= body.arg_count for x in locs) and not calls, (fn, "index-arg", M.callee(t).rsplit("::", 1)[-1]),
                   "index argument of %s does not derive (only) from the `index` parameter" % M.callee(t))
    targets = set_calls + body.ok_blocks()
    vals = M.path_valuations(body, atoms, targets)
    for tb in targets:
        for v in vals[tb]:
            d = dict(v)
            safe = d.get("is_revocation") is False or d.get("value") is True or d.get("current") is False
            if not safe:
                what = "StatusList2021::set" if tb in set_calls else "Ok(())"
                r5.fail((fn, "clear-revoked-reaches", what), "a path with purpose==Revocation, value==false, current==true (established: %s) reaches %s: a revoked entry can be cleared" % (sorted(d.items()), what), body.term(tb).get("sp"))
                return
    # the forbidden combination returns UnreversibleRevocation
    errs = [s for (p, bi, s) in F.constructions(CR + "::StatusList2021CredentialError", "UnreversibleRevocation") if p == fn]
    r5.require(bool(errs), (fn, "no-unreversible-error"), "UnreversibleRevocation is not constructed")


def _check_status(F, R):
    r7 = R.rule("C12-R7", "T4", "check_status_with_status_list_2021: Revoked/Suspended entries yield an error, Valid yields Ok; credential id and purpose must match")
    fn = UTILS + "::{impl#0}::check_status_with_status_list_2021"
    cands = [p for p in F.find(r"check_status_with_status_list_2021$")]
    if not r7.anchor(cands[0] if cands else None, "check_status_with_status_list_2021"):
        return
    fn = cands[0]
    OPQ = r"StatusList2021Entry as core::convert::TryFrom|StatusList2021Credential::(entry|purpose|id)$|StatusList2021Entry::(status_list_credential|purpose|index)$"
    tab = SR.Table(F, fn, opaque=OPQ, rule=r7)
    SC, CS = SR.param("status_check"), SR.fld("credential_status", base=SR.param("credential"))
    rows = set()
    for q in tab.paths:
        sc, st = SR.variant(q, SC), SR.variant(q, CS)
        ent = [e for e in q.calls(r"StatusList2021Credential::entry$")]
        entv = None
        if ent and q.succeeded(ent[-1]) is True:
            entv = q.variant.get(("payload", ent[-1].result.t, "Ok", 0))
        ok = SR.is_success(q.ret)
        rows.add((sc, st, entv, "Ok" if ok else SR.err_name(q.ret)))
        if ok:
            good = sc == "SkipAll" or st == "None" or entv == "Valid"
            r7.require(good, (fn, "early-ok"), "check_status_with_status_list_2021 passes a credential whose entry was not found Valid (status_check=%s, status=%s, entry=%s)" % (sc, st, entv))
            if entv == "Valid":
                parsed = [e for e in q.calls(r"StatusList2021Entry as core::convert::TryFrom") if q.succeeded(e) is True and SR.derives(e.args[0], CS)]
                if r7.require(len(parsed) == 1, (fn, "entry-source"), "the status entry is not parsed from the credential's own status"):
                    pe = ("payload", parsed[0].result.t, "Ok", 0)
                    r7.require(SR.derives(ent[-1].args[1], pe) and "index" in sym.fmt(sym.term(ent[-1].args[1])), (fn, "index"), "entry() is not looked up at the status entry's index")
                    r7.require(SR.derives(ent[-1].args[0], SR.param("status_list_credential")), (fn, "list"), "entry() is not evaluated on the supplied status list credential")
                    ideq = any(a[0] == "eq" and c is True and any(SR.derives(x, pe) and "status_list_credential" in sym.fmt(x) for x in (a[1], a[2])) and any(SR.derives(x, SR.param("status_list_credential")) and "id" in sym.fmt(x) for x in (a[1], a[2]))
                               for (a, c, _, _) in q.decisions)
                    pueq = any(a[0] == "eq" and c is True and any(SR.derives(x, pe) and "purpose" in sym.fmt(x) for x in (a[1], a[2])) and any(SR.derives(x, SR.param("status_list_credential")) and "purpose" in sym.fmt(x) and not SR.derives(x, pe) for x in (a[1], a[2]))
                               for (a, c, _, _) in q.decisions)
                    r7.require(ideq, (fn, "id-compare"), "Ok without the entry's status list credential id having been found equal to the credential's id")
                    r7.require(pueq, (fn, "purpose-compare"), "Ok without the entry's purpose having been found equal to the status list credential's purpose")
    for row in sorted(rows, key=str):
        r7.site("check_status_with_status_list_2021: status_check %s, status %s, entry %s → %s" % row)
    if tab.paths:
        r7.require(any(x[2] == "Revoked" and x[3] == "Revoked" for x in rows), (fn, "Revoked"), "CredentialStatus::Revoked does not map to the Revoked error (%s)" % sorted(rows, key=str))
        r7.require(any(x[2] == "Suspended" and x[3] == "Suspended" for x in rows), (fn, "Suspended"), "CredentialStatus::Suspended does not map to the Suspended error")
        r7.require(any(x[2] == "Valid" and x[3] == "Ok" for x in rows), (fn, "Valid"), "CredentialStatus::Valid does not map to Ok")
        r7.require(not any(x[2] in ("Revoked", "Suspended") and x[3] == "Ok" for x in rows), (fn, "Revoked"), "a Revoked/Suspended entry is accepted")
    r7.floor(5)

    # ---------------------------------------------------------------- R8 allocation geometry of `new` (T7)
    # `new(n)` is evaluated with n symbolic; its paths split on comparisons of n with constants and on n % 8.  For every n of a
    # domain covering all residues mod 8 below, at and above the minimum size, the one path whose decisions hold at n is looked up:
    # n < 131072 (the specification's minimum) → Err; otherwise Ok with exactly ceil(n / 8) zero bytes (so that len() ≥ n and the
    # list has no byte that no requested entry lives in).
    r8 = R.rule("C12-R8", "T7", "StatusList2021::new(n): n < 131072 → Err; otherwise ceil(n/8) zero bytes (every requested entry exists, no surplus byte)")
    nfn = SL + "::new"
    if r8.anchor(F.hir(nfn), nfn):
        tabn = SR.Table(F, nfn, rule=r8)
        N = SR.param(sym.param_name(F, nfn, 0, "num_entries"))
        paths = [q for q in tabn.paths if q.complete]
        MIN = 131072
        dom = list(range(0, 41)) + list(range(MIN - 17, MIN + 41)) + list(range((1 << 20) - 9, (1 << 20) + 10)) + list(range(10 ** 6, 10 ** 6 + 9))
        bad = 0
        for n in dom:
            qs, unk = SR.path_at(paths, {N: n})
            if len(qs) != 1:
                bad += 1
                r8.fail((nfn, "not-evaluable"), "StatusList2021::new(%d): %d evaluated path(s) apply%s" % (n, len(qs), ("; undecidable: " + sym.fmt_atom(unk[0])) if unk else ""))
                break
            q = qs[0]
            ok = SR.is_success(q.ret) and not SR.is_failure(q.ret)
            if n < MIN:
                if not r8.require(not ok, (nfn, "minimum"), "StatusList2021::new(%d) succeeds: below the minimum list size of 131072 entries" % n):
                    bad += 1
                    break
                continue
            if not r8.require(ok, (nfn, "minimum"), "StatusList2021::new(%d) is rejected although the size is permitted" % n):
                bad += 1
                break
            allocs = [x for x in sym.subterms(sym.term(q.ret)) if isinstance(x, tuple) and x[:1] == ("call",) and x[1].endswith("vec::from_elem") and len(x[2]) == 2]
            if not r8.require(len(allocs) == 1, (nfn, "not-evaluable"), "StatusList2021::new: the store is not `vec![0; size]` (allocations found in the result: %d)" % len(allocs)):
                bad += 1
                break
            elem, size = SR.eval_term(allocs[0][2][0], {N: n}), SR.eval_term(allocs[0][2][1], {N: n})
            if not r8.require(elem == 0 and not isinstance(elem, bool), (nfn, "zeroed"), "StatusList2021::new does not start from an all-zero store (element %s)" % sym.fmt(allocs[0][2][0])):
                bad += 1
                break
            if not r8.require(size is not None and int(size) == (n + 7) // 8, (nfn, "size"),
                              "StatusList2021::new(%d) allocates %s byte(s) (size = %s), not ceil(n/8) = %d: %s" % (
                                  n, size, sym.fmt(allocs[0][2][1]), (n + 7) // 8, "the last entries of the requested range do not exist" if size is not None and int(size) < (n + 7) // 8 else "surplus bytes")):
                bad += 1
                break
        r8.site("StatusList2021::new decided at %d sizes (all residues mod 8 around 0, 131072, 2^20, 10^6) over %d path(s): %s" % (len(dom), len(paths), bad == 0))
    # len() = bytes * 8 is C12-R3
    r8.floor(1)

    # ---------------------------------------------------------------- R9 the purpose keeps its name through every string form (T7)
    # StatusPurpose is written three ways: serde (`rename_all = "lowercase"`, used by entries), Display (written into the list
    # credential's credentialSubject.statusPurpose) and FromStr (read back from it).  A list keeps its purpose through serialisation
    # only if, for every variant, Display writes the lowercase variant name and FromStr maps exactly that name back to the variant.
    r9 = R.rule("C12-R9", "T7", "StatusPurpose: Display(v) = lowercase name of v = serde name, and FromStr(Display(v)) = v, for every variant (a suspension list stays a suspension list through serialisation)")
    SP = CR + "::StatusPurpose"
    spa = F.adt(SP)
    if r9.anchor(spa, SP):
        import sibling as SB
        names = [v["name"] for v in spa["variants"]]
        ai = F.ast_item(SP)
        r9.require(ai is not None and any("rename_all" in x and "lowercase" in x for x in ai["attrs"]), (SP, "serde-names"), "StatusPurpose is not serialised with rename_all = \"lowercase\"")
        dfn = (F.find(r"^<%s as core::fmt::Display>::fmt$" % re.escape(SP)) or [None])[0]
        pfn = (F.find(r"^<%s as core::str::traits::FromStr>::from_str$" % re.escape(SP)) or [None])[0]
        if r9.require(dfn is not None and pfn is not None, (SP, "ANCHOR"), "Display / FromStr of StatusPurpose not found"):
            for vn in names:
                want = vn.lower()
                try:
                    ps = [q for q in sym.Evaluator(F, inline_depth=3).explore(dfn, args=[sym.V(vn), sym.Sym(("param", "f"))]) if q.complete]
                except (sym.Abort, sym.TooManyPaths) as e:
                    ps = []
                outs = set()
                for q in ps:
                    pat, argv = SB.render_pattern(q)
                    outs.add(pat if not argv else None)
                r9.site("Display(%s) writes %s" % (vn, sorted(map(str, outs))))
                r9.require(outs == {want}, (SP, "display", vn), "Display for StatusPurpose::%s writes %s, not \"%s\" (its serde name, which FromStr reads back)" % (vn, sorted(map(str, outs)), want))
                try:
                    ps = [q for q in sym.Evaluator(F, inline_depth=3).explore(pfn, args=[want]) if q.complete]
                except (sym.Abort, sym.TooManyPaths) as e:
                    ps = []
                got = {sym.fmt(sym.term(q.ret)) for q in ps}
                r9.require(got == {"Ok(%s)" % vn}, (SP, "from_str", vn), "FromStr for StatusPurpose maps \"%s\" to %s, not Ok(%s)" % (want, sorted(got), vn))
    r9.floor(2)
